"""C01/C02 - attribute paths through to-one relationships (coq/Model/C01Join.v): the three-entity schema, small object graphs,
the serialisation of SqlQuery.from_ast and of whole databases for the Coq model, the reference over the object graph, and the
real executions on the mock-up providers / in-memory SQLite.

Queries are written over the root entity P with loop variable p:  select / left_join('(p.id, p.group.dept.code) for p in P if ...')."""
import vlib, c01_lib as L
from vlib import Failure

PATH_POOLS = {
    'int': ('a', 'b', 'r', 'group.number', 'group.level', 'group.dept.code', 'group.id', 'group.dept.id', 'group.number', 'group.dept.code'),
    'str': ('s', 'u', 'group.title', 'group.dept.name', 'group.title'),
    'bool': ('f', 'g', 'group.dept.open'),
}
G_COLS = {'id': 0, 'number': 1, 'title': 2, 'dept': 3, 'level': 4}
D_COLS = {'id': 0, 'name': 1, 'code': 2, 'open': 3}
P_COLS = {'id': 0, 'a': 1, 'b': 2, 'r': 3, 's': 4, 'u': 5, 'f': 6, 'g': 7, 'group': 8}


def define_entities(db):
    from pony import orm
    class D(db.Entity):
        name = orm.Required(str)
        code = orm.Optional(int)
        open = orm.Required(bool)
        groups = orm.Set('G')
    class G(db.Entity):
        number = orm.Required(int)
        title = orm.Optional(str, nullable=True)
        dept = orm.Optional(D)
        level = orm.Optional(int)
        members = orm.Set('P')
    class P(db.Entity):
        a = orm.Optional(int)
        b = orm.Optional(int)
        r = orm.Required(int)
        s = orm.Optional(str, nullable=True)
        u = orm.Required(str)
        f = orm.Optional(bool)
        g = orm.Required(bool)
        group = orm.Optional(G)
    return P, G, D


_dbs = {}

def get_db(provider):
    if provider not in _dbs:
        db = vlib.mock_database(provider)
        ents = define_entities(db)
        db.generate_mapping()
        _dbs[provider] = (db,) + ents
    return _dbs[provider]


# ---------------------------------------------------------------------------------------------- object graphs

def standard_graph():
    """D rows, G rows, P rows (dicts with explicit ids; references by id or None)."""
    D = [{'id': 1, 'name': 'ab', 'code': 3, 'open': True}, {'id': 2, 'name': 'a', 'code': None, 'open': False}, {'id': 3, 'name': 'b', 'code': -2, 'open': True}]
    G = [{'id': 1, 'number': 2, 'title': 'a', 'dept': 1, 'level': 0}, {'id': 2, 'number': 0, 'title': None, 'dept': 2, 'level': None},
         {'id': 3, 'number': -3, 'title': '', 'dept': None, 'level': 7}, {'id': 4, 'number': 7, 'title': 'ab', 'dept': 3, 'level': 1}]
    P = []
    base = L.standard_rows()
    groups = (1, None, 2, 3, 4, None, 1, 3, 2, 4)
    for k, g in enumerate(groups):
        r = dict(base[(k * 7) % len(base)]); r['id'] = k + 1; r['group'] = g
        P.append(r)
    return {'P': P, 'G': G, 'D': D}


def flat_row(graph, p):
    """The attribute environment of the reference: scalar attributes of p plus every path attribute (None-propagating)."""
    G = {g['id']: g for g in graph['G']}; D = {d['id']: d for d in graph['D']}
    row = {k: v for k, v in p.items() if k != 'group'}
    g = G.get(p['group']) if p['group'] is not None else None
    d = D.get(g['dept']) if g is not None and g['dept'] is not None else None
    row['group.id'] = p['group']
    for n in ('number', 'title', 'level'): row['group.' + n] = None if g is None else g[n]
    row['group.dept.id'] = None if g is None else g['dept']
    for n in ('name', 'code', 'open'): row['group.dept.' + n] = None if d is None else d[n]
    return row


def path_depth(e):
    return max([0] + [L.ATTRS[a][0] // 10 for a in L.attrs_of(e)])


def defined(graph, p, depth):
    if depth == 0: return True
    if p['group'] is None: return False
    if depth == 1: return True
    g = [x for x in graph['G'] if x['id'] == p['group']][0]
    return g['dept'] is not None


def coq_fn(pairs):
    return L._coq_fn(pairs)


def coq_db(graph):
    def rows(lst, cols):
        return '[%s]' % '; '.join(coq_fn([(cols[k], v) for k, v in r.items() if k in cols]) for r in lst)
    return '(mkjdb %s %s %s)' % (rows(graph['P'], P_COLS), rows(graph['G'], G_COLS), rows(graph['D'], D_COLS))


# ---------------------------------------------------------------------------------------------- real translator / SQLite

def column_id(alias_tables):
    """(alias, column name) -> column id of the Coq model. The primary key column of a joined table is identified with the
    foreign key column it is joined on (g.id = p.group, d.id = g.dept): the translator uses whichever is at hand (pk_only joins)."""
    def f(alias, name):
        t = alias_tables[alias]; name = name.lower()
        if t == 'P': return P_COLS[name]
        if t == 'G': return 8 if name == 'id' else 10 + G_COLS[name]
        if t == 'D': return 13 if name == 'id' else 20 + D_COLS[name]
        raise L.Unmodelled('column %s.%s' % (alias, name))
    return f


def translate(provider, left, filt, proj, params):
    """-> (from model term, conditions term, column term, distinct flag, sql, arguments-free AST dump)"""
    from pony import orm
    db, P, G, D = get_db(provider)
    src = '%s for p in P%s' % ('(p.id, %s)' % L.src(proj) if proj is not None else 'p.id', '' if filt is None else ' if ' + L.src(filt))
    with orm.db_session:
        q = (orm.left_join if left else orm.select)(src, L.query_globals(P, params))
        t = q._translator
        fa = t.sqlquery.from_ast
        alias_tables = {}
        joins = []
        for ent in fa[1:]:
            alias, kind, tname = ent[0], ent[1], ent[2]
            if kind != 'TABLE': raise L.Unmodelled('FROM item %r' % (kind,))
            alias_tables[alias] = tname.upper()
        hook = column_id(alias_tables)
        for ent in fa[2:]:
            cond = ent[3] if len(ent) > 3 else None
            if not cond or cond[0] != 'EQ' or cond[1][0] != 'COLUMN' or cond[2][0] != 'COLUMN': raise L.Unmodelled('join condition %r' % (cond,))
            # raw ids of both sides (no identification here): fk column of the parent, pk column of the joined table
            def raw(c):
                tt = alias_tables[c[1]]; n = c[2].lower()
                return {'P': P_COLS, 'G': G_COLS, 'D': D_COLS}[tt][n] + {'P': 0, 'G': 10, 'D': 20}[tt]
            joins.append((raw(cond[1]), raw(cond[2])))
        kind = {'FROM': 'JInner', 'LEFT_JOIN': 'JLeft'}.get(fa[0])
        if kind is None or fa[1][2].upper() != 'P': raise L.Unmodelled('FROM %r' % (fa[0],))
        from_term = '(%s, [%s])' % (kind, '; '.join('(%d%%nat, %d%%nat)' % j for j in joins))
        L.COLUMN_HOOK[0] = hook
        try:
            conds = '[%s]' % '; '.join(L.qx(c) for c in t.conditions)
            cols = t.expr_columns
            col = L.qx(cols[1]) if proj is not None else None
        finally:
            L.COLUMN_HOOK[0] = None
        return from_term, conds, col, bool(t.distinct), q.get_sql(), L.strip_ast([fa, t.conditions, t.expr_columns])


class RealGraph(object):
    """In-memory SQLite database holding the object graph (ids as given)."""
    def __init__(self, graph):
        from pony import orm
        self.orm = orm
        self.graph = graph
        self.db = orm.Database('sqlite', ':memory:')
        self.P, self.G, self.D = define_entities(self.db)
        self.db.generate_mapping(create_tables=True)
        with orm.db_session:
            ds = {d['id']: self.D(**d) for d in graph['D']}
            orm.flush()
            gs = {g['id']: self.G(**dict(g, dept=ds.get(g['dept']))) for g in graph['G']}
            orm.flush()
            for p in graph['P']: self.P(**dict(p, group=gs.get(p['group'])))

    def run(self, left, filt, proj, params, raw=False):
        """[(id, value)] sorted by id (value None when proj is None)."""
        orm = self.orm
        src = '%s for p in P%s' % ('(p.id, %s)' % L.src(proj) if proj is not None else 'p.id', '' if filt is None else ' if ' + L.src(filt))
        with orm.db_session:
            q = (orm.left_join if left else orm.select)(src, L.query_globals(self.P, params))
            if raw:
                sql, arguments, _, _ = q._construct_sql_and_arguments()
                rows = [tuple(r) for r in self.db._exec_sql(sql, arguments).fetchall()]
            else:
                rows = list(q)
        if proj is None: rows = [(r if not isinstance(r, tuple) else r[0], None) for r in rows]
        return sorted(rows, key=lambda r: r[0])


def model_term(left, filt, proj, nullable=None):
    """(kind, depth term, tr_filter term, tr_project term) pieces of the Coq model for a query."""
    exprs = [x for x in (filt, proj) if x is not None]
    depth = 'depth_of [%s]' % '; '.join(L.coq(x) for x in exprs)
    return ('JLeft' if left else 'JInner'), depth


# ---------------------------------------------------------------------------------------------- ties and search

JOIN_HEADER = ('Require Import PonyV.Base.PyBase PonyV.Model.C01Expr PonyV.Model.C01Sql PonyV.Model.C01Translate PonyV.Model.C01Eqb '
               'PonyV.Model.C01Safe PonyV.Model.C01Query PonyV.Model.C01Join.\nOpen Scope Z_scope.\n')
QVS_EQB = '(fix eq (a b : list qv) := match a, b with [], [] => true | x :: a1, y :: b1 => qv_eqb x y && eq a1 b1 | _, _ => false end)'

HANDMADE = [
    # (filter, projection): shapes behind the findings and the pk-only optimisation
    (('or', ('cmp', 'is', ('attr', 'group.id'), ('none',)), ('cmp', '>', ('attr', 'group.number'), ('int', 1))), None),
    (('or', ('cmp', '>', ('attr', 'group.number'), ('int', 1)), ('cmp', 'is', ('attr', 'group.id'), ('none',))), None),
    (('not', ('attr', 'group.number')), None), (('not', ('attr', 'group.id')), None), (('not', ('attr', 'group.dept.id')), ('attr', 'group.number')),
    (('or', ('attr', 'group.id'), ('cmp', '>', ('attr', 'a'), ('int', 0))), None),
    (('cmp', '==', ('attr', 'group.dept.id'), ('int', 1)), ('attr', 'group.id')),
    (('cmp', '==', ('attr', 'group.dept.name'), ('str', 'ab')), ('attr', 'group.dept.id')),
    (None, ('attr', 'group.dept.code')),
    (('cmp', 'is', ('attr', 'group.title'), ('none',)), ('attr', 'group.number')),
    (('and', ('attr', 'group.dept.open'), ('cmp', '>', ('attr', 'a'), ('int', 0))), ('arith', '+', ('attr', 'group.level'), ('attr', 'group.dept.code'))),
]


def gen_queries(ctx, n):
    g = L.Gen(ctx.rng, pools=PATH_POOLS)
    out = [(f, p, {}) for f, p in HANDMADE]
    while len(out) < n + len(HANDMADE):
        g.reset()
        filt = g.filter_expr(ctx.rng.choice((2, 3, 3))) if ctx.rng.random() < 0.8 else None
        proj = g.value(ctx.rng.choice(L.VT), ctx.rng.choice((1, 2, 3)), True) if ctx.rng.random() < 0.7 else None
        if filt is None and proj is None: continue
        if path_depth_q(filt, proj) == 0 and ctx.rng.random() < 0.7: continue     # mostly queries that really follow a reference
        out.append((filt, proj, dict(g.params)))
    return out


def path_depth_q(filt, proj):
    return max([0] + [path_depth(x) for x in (filt, proj) if x is not None])


def qsrc(left, filt, proj):
    return '%s(%s for p in P%s)' % ('left_join' if left else 'select', '(p.id, %s)' % L.src(proj) if proj is not None else 'p.id', '' if filt is None else ' if ' + L.src(filt))


def join_cases(ctx, queries, real):
    """Structural tie of FROM / conditions / columns on the four providers for select() and left_join(), and the rows real SQLite
    returns for the statement vs sql_join_rows of the model on the same object graph."""
    exprs, meta, dis, nontriv = [], [], [], set()
    dist = {'from': 0, 'conditions': 0, 'columns': 0, 'sqlite_result_lists': 0, 'translator_raises': 0}
    for filt, proj, params in queries:
        for left in (False, True):
            kind, depth = model_term(left, filt, proj)
            for prov in ('sqlite', 'postgres', 'mysql', 'oracle'):
                if prov == 'oracle' and any(v == '' for v in params.values()): continue
                try:
                    fr, conds, col, distinct, sql, dump = translate(prov, left, filt, proj, params)
                except L.Unmodelled as ex:
                    dis.append({'what': 'join query outside the modelled shapes: %s' % ex, 'input': {'provider': prov, 'query': qsrc(left, filt, proj), 'params': params}}); continue
                except Exception as ex:
                    dist['translator_raises'] += 1
                    dis.append({'what': 'the real translator raised on a typed join query', 'input': {'provider': prov, 'query': qsrc(left, filt, proj), 'params': params},
                                'impl': '%s: %s' % (type(ex).__name__, str(ex)[:200])}); continue
                d = L.DN[prov]
                m = {'provider': prov, 'query': qsrc(left, filt, proj), 'params': params, 'impl': dump}
                exprs.append('from_eqb (tr_from %s (%s)) %s' % (kind, depth, fr)); meta.append(dict(m, mode='join-from')); dist['from'] += 1
                exprs.append('oqxs_eqb %s (Some %s)' % ('(tr_filter %s %s)' % (d, L.coq(filt)) if filt is not None else '(Some [])', conds))
                meta.append(dict(m, mode='join-conditions')); dist['conditions'] += 1
                if proj is not None:
                    exprs.append('oqx_eqb (tr_project %s %s) (Some %s)' % (d, L.coq(proj), col)); meta.append(dict(m, mode='join-columns')); dist['columns'] += 1
                nontriv.add((prov, left, qsrc(left, filt, proj)))
                if prov == 'sqlite':
                    try:
                        rows = real.run(left, filt, proj, params, raw=True)
                    except Exception as ex:
                        dis.append({'what': 'real SQLite raised on a join query', 'input': {'query': qsrc(left, filt, proj), 'params': params}, 'impl': '%s: %s' % (type(ex).__name__, ex)}); continue
                    import c01_harness as H
                    got = '[%s]' % '; '.join(H.coq_qv(v) if proj is not None else '(IntV %d)' % i for i, v in rows)
                    exprs.append('%s (sql_join_rows DSqlite %s (%s) false %s %s %s DB) %s' % (QVS_EQB, kind, depth, conds, col if proj is not None else '(QCol 0)',
                                                                                             L._coq_fn(list(params.items())), got))
                    meta.append(dict(m, mode='join-rows', impl=rows, sql=sql)); dist['sqlite_result_lists'] += 1
    return exprs, meta, dis, nontriv, dist


REQUIRED_PATH_ATTRS = ('group.number', 'group.dept.name', 'group.dept.open', 'group.id', 'group.dept.id')


def classify(left, filt, proj, params, graph, p, mode):
    import c01_harness as H
    row = flat_row(graph, p)
    depth = path_depth_q(filt, proj)
    if not left and not defined(graph, p, depth): return 'optional-path-inner-join-drops-rows'
    used = set()
    for x in (filt, proj):
        if x is not None: used |= L.attrs_of(x)
    if any(a in REQUIRED_PATH_ATTRS and row[a] is None for a in used):
        # select(): only the primary key paths can be None on a row the comma join keeps (no table is joined for them)
        return 'left-join-required-attribute-through-none-reference' if left else 'pk-of-none-reference-is-marked-not-nullable'
    e = filt if mode == 'filter' else proj
    return H.classify(e, row, params, mode)


def check_query(real, left, filt, proj, params):
    """-> [(p row, mode, got, want)] for the P objects on which Pony's answer differs from the comprehension over the object graph."""
    import c01_harness as H
    graph = real.graph
    got = dict(real.run(left, filt, proj, params))
    bad = []
    for p in graph['P']:
        row = flat_row(graph, p)
        try:
            keep = True if filt is None else L.keeps(filt, row, params, False)
            want = None if proj is None else L.ref(proj, row, params, False)
        except L.RefError:
            continue
        if any('zero-division' in L.hazards(x, row, params) for x in (filt, proj) if x is not None): continue
        if keep != (p['id'] in got):
            bad.append((p, 'filter', p['id'] in got, keep))
        elif keep and proj is not None and not H.same_value(got[p['id']], want):
            bad.append((p, 'project', got[p['id']], want))
    return bad


def minimal_graph(graph, p):
    g = [x for x in graph['G'] if x['id'] == p['group']]
    d = [x for x in graph['D'] if g and x['id'] == g[0]['dept']]
    return {'P': [p], 'G': g, 'D': d}


def join_failure(left, filt, proj, params, graph, p, mode, got, want):
    key = classify(left, filt, proj, params, graph, p, mode)
    what = '%s with %s on object %s (group -> %s): Pony gives %r, the comprehension gives %r' % (
        qsrc(left, filt, proj), {('x%d' % i): v for i, v in sorted(params.items())}, {k: v for k, v in p.items()},
        flat_row(graph, p).get('group.number'), got, want)
    return Failure(key, what, {'join': {'left': left, 'filt': L.to_json(filt) if filt is not None else None, 'proj': L.to_json(proj) if proj is not None else None,
                                        'params': {str(i): v for i, v in params.items()}, 'graph': minimal_graph(graph, p)}})


def join_search(ctx, queries, real, max_per_key=1):
    failures, seen, evals, nontriv = [], {}, 0, set()
    dist = {'queries': 0, 'pony_raises': {}, 'failing_objects_by_key': seen}
    for filt, proj, params in queries:
        for left in (False, True):
            dist['queries'] += 1
            try:
                bad = check_query(real, left, filt, proj, params)
            except Exception as ex:
                n = type(ex).__name__; dist['pony_raises'][n] = dist['pony_raises'].get(n, 0) + 1; continue
            evals += len(real.graph['P'])
            if not bad: nontriv.add(qsrc(left, filt, proj))
            for p, mode, got, want in bad:
                f = join_failure(left, filt, proj, params, real.graph, p, mode, got, want)
                seen[f.key] = seen.get(f.key, 0) + 1
                if seen[f.key] <= max_per_key: failures.append(f)
    return evals, failures, nontriv, dist


def replay_join(d):
    filt = L.from_json(d['filt']) if d['filt'] is not None else None
    proj = L.from_json(d['proj']) if d['proj'] is not None else None
    params = {int(k): v for k, v in d['params'].items()}
    real = RealGraph(d['graph'])
    try:
        bad = check_query(real, d['left'], filt, proj, params)
    except Exception:
        return None
    if not bad: return None
    p, mode, got, want = bad[0]
    return join_failure(d['left'], filt, proj, params, d['graph'], p, mode, got, want)
