"""Shared check logic of the session properties C09-C14 (plugins tools/props/c09.py ... c14.py are thin wrappers).

correspondence(ctx, prop)  Tie B: generated histories run on real Pony + SQLite (session_impl.py, subprocesses) and on the Gallina model
                           (PonyV.Model.SessionCheck.check_history, vm_compute inside coqc); per-op results and per-commit row dumps
                           are compared inside Coq.  A disagreement is shrunk (ddmin on the op list) and reported with the model's trace.
                           A hit on an assertion site of the model (dirty sites >= 20, see Model/Session.v) is a disagreement too.
search(ctx, deep, prop)    property oracle on the implementation alone (no model): identity / index checks (C11), both ends (C12),
                           committed uniqueness (C14), ... evaluated after every op of generated histories; failures are classified
                           into finding keys  <check>@<op kind>:<ok|err>  (see key_of) and shrunk; only the first failing op of a
                           history is reported (family_violations); histories come from stage 1 and stage 2 schemas.
replay(ctx, data, prop)    re-run one stored (schema, ops) and report the failure with the stored key if it still occurs.
"""
import collections, json, os
from concurrent.futures import ThreadPoolExecutor

import vlib
import session_fuzz as sf
import session_coq as sc
from vlib import Corr, Search, Failure

FAMILIES = {
    'C09': ('c09-', 'queue-'),
    'C10': ('c10-',),
    'C11': ('c11-',),
    'C12': ('c12-',),
    'C14': ('c14-',),
}
SEED_OFFSET = {'C09': 9, 'C10': 10, 'C11': 11, 'C12': 12, 'C14': 14}
ASSERTION_SITE_MIN = 20
# site 22 (a row appears in a fully loaded collection) IS reachable: E(id=k) created while a row with pk k exists in the database and is
# referred to by other rows - the new object's collections count as fully loaded, loading a referring row raises UnrepeatableReadError
# (a pending duplicate key, like sites 7 and 8); found by the thorough tier.
LEGIT_HIGH_SITES = {22}


def gen_histories(seeds, length=(10, 40), oracle=True, chunk=100, jobs=4, malformed=0.15, stage=1):
    chunks = [seeds[i:i + chunk] for i in range(0, len(seeds), chunk)]
    def one(part):
        return vlib.run_impl('session_impl.py', {'mode': 'gen', 'seeds': part, 'length': list(length), 'oracle': oracle,
                                                 'malformed': malformed, 'stage': stage}, timeout=1800)
    with ThreadPoolExecutor(max_workers=jobs) as ex:
        outs = list(ex.map(one, chunks))
    hs = []
    for o in outs: hs += o['histories']
    return hs, (outs[0].get('sqlite') if outs else None)


def run_fixed(cases, oracle=True):
    if not cases: return []
    return vlib.run_impl('session_impl.py', {'mode': 'run', 'cases': cases, 'oracle': oracle}, timeout=1800)['histories']


OPCLASS = {'new': 'create', 'set': 'update', 'setmany': 'update', 'add': 'collection', 'remove': 'collection', 'assign': 'collection', 'del': 'delete',
           'flush': 'txn', 'flushobj': 'txn', 'commit': 'txn', 'rollback': 'txn', 'newsession': 'txn', 'final': 'txn'}      # everything else: 'read'
# An operation that RAISES and leaves the cache inconsistent is one root cause (missing / partial undo) with an unbounded family of symptoms
# (which index entry, which side of which relationship, which exception class): keyed by a coarse symptom class per property.
RAISED_CLASS = {'c11-index-stale': 'c11-index', 'c11-index-missing': 'c11-index',
                'c12-ref-not-in-collection': 'c12-both-ends', 'c12-item-without-backref': 'c12-both-ends',
                'c12-one-to-one-not-mutual': 'c12-both-ends', 'c12-m2m-not-mutual': 'c12-both-ends'}
DUMP_CHECKS = ('c09-', 'c14-duplicate', 'c14-failed-commit-changed-db')


def key_of(h, v):
    """Finding key, computed from the SHAPE of the first failing op only (never from values, attribute positions or exception classes):
         <check>@<commit|rollback|failed-commit>           checks at dump points (commit = commit() or leaving the db_session / end of history)
         <symptom class>@<op class>:raised                  the op raised and left the cache inconsistent (symptom class: RAISED_CLASS, else the check)
         <check>@<op class>:ok                              the op succeeded
       op class: create | update | collection | delete | read | txn."""
    i = v['op_index']
    op = h['ops'][i] if i < len(h['ops']) else ['final']
    r = h['results'][i] if i < len(h['results']) else ['ok']
    check = v['check']
    if check.startswith(DUMP_CHECKS):
        if r[0] == 'err': return check + '@failed-commit'
        return '%s@%s' % (check, 'rollback' if op[0] == 'rollback' else 'commit')
    oc = OPCLASS.get(op[0], 'read')
    if r[0] == 'err': return '%s@%s:raised' % (RAISED_CLASS.get(check, check), oc)
    return '%s@%s:ok' % (check, oc)


def family_violations(h, prop):
    """The violations of the property's family at the FIRST op of the history at which any oracle (of any family) failed, one per
    check: [(key, violation)].  Later failures of a history are consequences of the first divergence (a phantom object left by a failed
    creation shows up in lookups, collections, the save queue ...) and are not reported, so that a finding key names a root cause."""
    out, seen = [], set()
    first = min([v['op_index'] for v in h['oracle']] or [0])
    for v in h['oracle']:
        if v['op_index'] != first: continue
        if not v['check'].startswith(FAMILIES[prop]): continue
        if v['check'] in seen: continue
        seen.add(v['check'])
        out.append((key_of(h, v), v))
    return out


def mutating_ok(h):
    n = 0
    for op, r in zip(h['ops'], h['results']):
        if r[0] != 'err' and op[0] in ('new', 'set', 'setmany', 'del', 'add', 'remove', 'assign'): n += 1
    return n


def seeds_for(ctx, prop, n, stream):
    base = (ctx.seed * 1000003 + SEED_OFFSET[prop] * 7919 + stream * 104729) % (2 ** 31)
    return [base * 1000 % (2 ** 40) + i for i in range(n)]


def load_corpus(prop, stage=1):
    """corpus/<prop>/*.json: fixed histories.  Stage 1 files (default) are compared with the model in the correspondence run; files with
    "stage": 2 (many-to-many, one-to-one, composite keys) are run with the implementation-side oracles only, in the search."""
    d = os.path.join(vlib.VERIF, 'corpus', prop)
    cases = []
    if os.path.isdir(d):
        for f in sorted(os.listdir(d)):
            if f.endswith('.json'):
                j = json.load(open(os.path.join(d, f)))
                if j.get('stage', 1) != stage: continue
                cases.append({'schema': j['schema'], 'ops': j['ops'], 'seed': 'corpus:' + f})
    return cases


def correspondence(ctx, prop, n_quick=300, n_thorough=7000):
    n = ctx.scale(n_quick, n_thorough)
    hs = run_fixed(load_corpus(prop))
    gen, sqlite_version = gen_histories(seeds_for(ctx, prop, n, 0), jobs=ctx.scale(4, 6))
    hs += gen
    verdicts = sc.check_histories(ctx, hs, chunk=40, jobs=ctx.scale(6, 8))
    dist = {'op_kinds': collections.Counter(), 'result_kinds': collections.Counter(), 'history_lengths': collections.Counter(),
            'verdicts': collections.Counter(), 'dirty_sites': collections.Counter(), 'schema_shapes': 0, 'sqlite': sqlite_version,
            'ops_compared': 0, 'dumps_compared': 0}
    shapes, nontrivial, disagreements, samples = set(), set(), [], []
    bad = []
    for h, (code, idx) in zip(hs, verdicts):
        shapes.add(sf.schema_shape(h['schema']))
        dist['history_lengths'][min(len(h['ops']) // 10 * 10, 40)] += 1
        upto = len(h['ops']) if code == 0 else min(idx + 1, len(h['ops']))
        for op, r in list(zip(h['ops'], h['results']))[:upto]:
            dist['op_kinds'][op[0]] += 1
            dist['result_kinds'][r[1] if r[0] == 'err' else r[0]] += 1
        dist['ops_compared'] += upto
        dist['dumps_compared'] += sum(1 for op in h['ops'][:upto] if op[0] in ('commit', 'rollback', 'newsession')) + (1 if code == 0 else 0)
        if code == 0: dist['verdicts']['agree'] += 1
        elif code == 2: dist['verdicts']['declined'] += 1
        elif code >= 100:
            dist['verdicts']['dirty-stop'] += 1; dist['dirty_sites'][str(code - 100)] += 1
            if code - 100 >= ASSERTION_SITE_MIN and code - 100 not in LEGIT_HIGH_SITES: bad.append((h, code, idx))
        elif code == 9: bad.append((h, code, idx))
        else:
            dist['verdicts']['MISMATCH'] += 1; bad.append((h, code, idx))
        if code in (0, 2) or code >= 100:
            if mutating_ok(h) >= 3: nontrivial.add(sf.canon([h['schema'], h['ops']]))
        if len(samples) < 2 and code == 0 and 6 <= len(h['ops']) <= 18 and mutating_ok(h) >= 3:
            samples.append({'schema': sf.schema_shape(h['schema']), 'ops': h['ops'], 'results': h['results'], 'final_rows': h['dumps'][-1]})
    for h, code, idx in bad[:3]:
        if code >= 100:
            disagreements.append({'what': 'assertion site %d of the model was reached (believed unreachable)' % (code - 100),
                                  'input': {'schema': h['schema'], 'ops': h['ops'][:idx + 1]}, 'impl': h['results'][idx]})
            continue
        if code == 9:
            disagreements.append({'what': 'generated schema is not well-formed for the model (wf_schema = false)', 'input': h['schema']})
            continue
        def fails(ops, h=h):
            hh = run_fixed([{'schema': h['schema'], 'ops': ops}], oracle=False)[0]
            return sc.check_histories(ctx, [hh])[0][0] in (3, 4)
        small = sf.shrink(h['ops'], fails, max_tests=ctx.scale(40, 120))
        hh = run_fixed([{'schema': h['schema'], 'ops': small}], oracle=False)[0]
        c2, i2 = sc.check_histories(ctx, [hh])[0]
        try: trace = sc.model_trace(ctx, hh)
        except Exception as e: trace = ['<trace failed: %s>' % e]
        disagreements.append({'what': 'model and implementation differ (%s) at op %d' % ('result' if c2 == 3 else 'committed rows', i2),
                              'input': {'schema': hh['schema'], 'ops': hh['ops']}, 'impl': {'results': hh['results'], 'dumps': hh['dumps']},
                              'model': [t[:3000] for t in trace], 'seed': h.get('seed')})
    dist['schema_shapes'] = len(shapes)
    for k in ('op_kinds', 'result_kinds', 'history_lengths', 'verdicts', 'dirty_sites'): dist[k] = dict(dist[k])
    return Corr(cases=dist['ops_compared'] + dist['dumps_compared'], nontrivial=len(nontrivial), disagreements=disagreements, samples=samples,
                distribution=dist,
                note='%d histories; every op result and every committed-rows dump is compared inside Coq (vm_compute) with the model; '
                     'comparison of a history stops at the first dirty or declined step' % len(hs))


def search(ctx, deep, prop, n_quick=150, n_deep=2500):
    n = n_deep if deep else n_quick
    # stage 1 (the modelled schema space) and stage 2 (adds many-to-many and one-to-one relationships; implementation-side oracles only)
    hs, _ = gen_histories(seeds_for(ctx, prop, n, 1), jobs=4)
    hs2, _ = gen_histories(seeds_for(ctx, prop, n, 2), jobs=4, stage=2)
    n_stage1 = len(hs)
    hs = hs + hs2 + run_fixed(load_corpus(prop, stage=2) + load_corpus(prop, stage=1))      # the fixed histories are judged by the oracles too
    failures, seen, nontrivial = [], {}, set()
    dist = {'histories': len(hs), 'stage1_histories': n_stage1, 'stage2_histories': len(hs) - n_stage1, 'violating_histories': 0,
            'keys': collections.Counter(), 'ops': 0}
    for h in hs:
        dist['ops'] += len(h['ops'])
        if mutating_ok(h) >= 3: nontrivial.add(sf.canon([h['schema'], h['ops']]))
        fv = family_violations(h, prop)
        if fv: dist['violating_histories'] += 1
        for key, v in fv:
            dist['keys'][key] += 1
            if key in seen: continue
            seen[key] = True
            known = {k['key'] for k in vlib.known_for(prop)}
            ops = h['ops'][:v['op_index'] + 1]
            if key not in known:
                def fails(o2, h=h, key=key):
                    hh = run_fixed([{'schema': h['schema'], 'ops': o2}])[0]
                    return any(k2 == key for k2, _ in family_violations(hh, prop))
                ops = sf.shrink(ops, fails, max_tests=ctx.scale(60, 200))
            failures.append(Failure(key, '%s: %s (after op %s)' % (v['check'], v['detail'], json.dumps(v['op'])),
                                    {'schema': h['schema'], 'ops': ops, 'key': key}))
    dist['keys'] = dict(dist['keys'])
    samples = [{'schema': sf.schema_shape(h['schema']), 'ops': h['ops'][:12]} for h in (hs[:1] + hs[n_stage1:n_stage1 + 1])]
    return Search(evaluations=dist['ops'], failures=failures, nontrivial=len(nontrivial), samples=samples, distribution=dist, exhaustive=False)


_replay_cache = {}


def replay(ctx, data, prop):
    """Re-run one stored (schema, ops).  The known findings of a property are replayed in ONE interpreter the first time any of them is asked for."""
    ck = sf.canon([data['schema'], data['ops']])
    if ck not in _replay_cache:
        cases = [data] + [k['replay'] for k in vlib.known_for(prop) if k.get('replay') and 'schema' in k['replay']]
        todo, seen = [], set()
        for c in cases:
            k = sf.canon([c['schema'], c['ops']])
            if k not in seen and k not in _replay_cache: seen.add(k); todo.append((k, c))
        for (k, c), hh in zip(todo, run_fixed([{'schema': c['schema'], 'ops': c['ops']} for _, c in todo])): _replay_cache[k] = hh
    hh = _replay_cache[ck]
    for key, v in family_violations(hh, prop):
        if data.get('key') in (None, key):
            return Failure(key, '%s: %s (after op %s)' % (v['check'], v['detail'], json.dumps(v['op'])), data)
    return None
