"""C04: the real PreTranslator / create_extractors / extract_vars on generated query trees, for the tie with coq/Model/C04Ext.v.

A generated case is an expression tree (tools/c04_gen.py) used as the condition of `(p for p in P for q in Q if <cond>)`; names p, q are the
query variables (PreTranslator.contexts), every other name is defined in the caller's scope.  Paths address nodes by the child order of
the tree model (conditional: body, test, orelse; comparison: left, comparators; call: func, args, keywords; f-string: fields only; the
format spec of a field is the pseudo child 1)."""
import ast, copy, datetime, decimal
import c04_gen as G

QUERY_VARS = ['p', 'q']
SPECIAL = {'count': 'FSpecial', 'random': 'FSpecial', 'getattr': 'FPlain', 'raw_sql': 'FRawSql', 'date': 'FConst', 'Decimal': 'FConst'}


class Obj(object):
    """a hashable caller-scope value with any attribute (what the dotted callee names evaluate to)"""
    def __init__(self, name): self.__dict__['_n'] = name
    def __getattr__(self, a):
        if a.startswith('__'): raise AttributeError(a)
        return Obj(self._n + '.' + a)
    def __hash__(self): return hash(self._n)
    def __eq__(self, o): return isinstance(o, Obj) and o._n == self._n
    def __repr__(self): return '<%s>' % self._n


def caller_scope():
    from pony import orm
    g = {n: Obj(n) for n in G.NAMES + ['g', 'h', 'm', 'n', 'x', 'y', 'w', 'f', 'S', 'T', 's', 't', 'r']}
    g.update({'count': orm.count, 'random': orm.core.random, 'getattr': getattr, 'raw_sql': orm.raw_sql, 'date': datetime.date, 'Decimal': decimal.Decimal})
    return g


def model_children(node):
    """children of a Python ast node in the order of the tree model; (format spec pseudo child handled by the caller)"""
    T = type(node)
    if T is ast.IfExp: return [node.body, node.test, node.orelse]
    if T is ast.Compare: return [node.left] + list(node.comparators)
    if T is ast.Call: return [node.func] + list(node.args) + list(node.keywords)
    if T in (ast.keyword, ast.Starred, ast.Attribute, ast.FormattedValue): return [node.value]
    if T is ast.Subscript: return [node.value, node.slice]
    if T is ast.Slice: return [x for x in (node.lower, node.upper, node.step) if x is not None]
    if T is ast.JoinedStr: return [v for v in node.values if isinstance(v, ast.FormattedValue)]
    if T is ast.Lambda: return [node.body]
    if T is ast.BoolOp: return list(node.values)
    if T is ast.BinOp: return [node.left, node.right]
    if T is ast.UnaryOp: return [node.operand]
    if T in (ast.Tuple, ast.List, ast.Set): return list(node.elts)
    if T is ast.Dict: return list(node.keys) + list(node.values)
    if T is ast.GeneratorExp:
        out = []
        for g in node.generators: out += [g.iter] + list(g.ifs)
        return out + [node.elt]
    return []


def path_map(node, path=(), out=None):
    out = {} if out is None else out
    out[id(node)] = path
    for i, c in enumerate(model_children(node)):
        path_map(c, path + (i,), out)
    if isinstance(node, ast.FormattedValue) and node.format_spec is not None:
        out[id(node.format_spec)] = path + (1,)
    return out


def query_ast(cond):
    """(p for p in P for q in Q if <cond>) as a GeneratorExp"""
    L, S = ast.Load(), ast.Store()
    gens = [ast.comprehension(target=ast.Name(id='p', ctx=S), iter=ast.Name(id='P', ctx=L), ifs=[], is_async=0),
            ast.comprehension(target=ast.Name(id='q', ctx=S), iter=ast.Name(id='Q', ctx=L), ifs=[cond], is_async=0)]
    return ast.fix_missing_locations(ast.GeneratorExp(elt=ast.Name(id='p', ctx=L), generators=gens))


def real_externals(t, scope=None):
    """paths (tuples) of the nodes of the condition that the real PreTranslator leaves in .externals"""
    from pony.orm.asttranslation import PreTranslator
    from pony.orm.core import special_functions, const_functions
    cond = G.to_ast(t)
    tree = query_ast(cond)
    g = dict(scope or caller_scope()); g['P'] = Obj('P'); g['Q'] = Obj('Q')
    pt = PreTranslator(tree, g, {}, special_functions, const_functions)
    pm = path_map(cond)
    out = set()
    for n in pt.externals:
        if id(n) in pm: out.add(pm[id(n)])
        elif isinstance(n, ast.Name) and n.id in ('P', 'Q'): pass
        else: out.add(('?', type(n).__name__))
    return out


def real_extractor_srcs(t, scope=None, code_key=None):
    """source texts that create_extractors compiles for the condition (without the iterators P, Q), and the extractors"""
    from pony.orm.asttranslation import create_extractors, extractors_cache
    from pony.orm.core import special_functions, const_functions
    tree = query_ast(G.to_ast(t))
    g = dict(scope or caller_scope()); g['P'] = Obj('P'); g['Q'] = Obj('Q')
    key = code_key if code_key is not None else ('c04ext', id(tree))
    extractors_cache.pop(key, None)
    tree2, extractors = create_extractors(key, tree, g, {}, special_functions, const_functions)
    extractors_cache.pop(key, None)
    return {s: e for s, e in extractors.items() if s not in ('P', 'Q')}, g


def coq_fclass():
    """the oracle of the model for the caller scope above: what a dotted callee name evaluates to"""
    arms = ' '.join('else if list_eqb str_eqb p [%s] then %s' % (G.cstr(n), c) for n, c in sorted(SPECIAL.items()) if c != 'FPlain')
    return '(fun p : list str => if false then FPlain %s else FPlain)' % arms


def coq_path(p):
    return '[' + ';'.join(str(i) for i in p) + ']%nat'


class ExtGen(G.Gen):
    """trees that mention the query variables and call special / const functions now and then"""
    def atom(self, infield=False):
        r = self.rng
        if r.random() < 0.22: return ('Name', r.choice(QUERY_VARS), [])
        if r.random() < 0.10: return ('Name', r.choice(['s', 't', 'r']), [])        # bound inside a subquery, free (caller scope) outside
        return G.Gen.atom(self, infield)

    def expr(self, depth, infield=False):
        r = self.rng
        if depth > 0 and r.random() < 0.10:
            name = r.choice(sorted(SPECIAL))
            args = [self.expr(depth - 1, infield) for _ in range(r.choice([0, 1, 2]))]
            if r.random() < 0.3: args.append(('Keyword', r.choice(G.KWNAMES), [self.expr(depth - 1, infield)]))
            return ('Call', None, [('Name', name, [])] + args)
        if depth > 0 and r.random() < 0.08:
            return ('Attribute', r.choice(['x', 'y']), [('Name', r.choice(QUERY_VARS), [])])
        return G.Gen.expr(self, depth, infield)

    def special_call(self, depth, infield):
        r = self.rng
        name = r.choice(sorted(SPECIAL))
        if name == 'getattr':      # getattr(obj, 'name'[, default]): PreTranslator reads node.args[1]
            args = [self.expr(depth - 1, infield), ('Const', "'s'", [])] if not infield else [self.expr(depth - 1, infield), ('Name', 'a', [])]
        else:
            args = [self.expr(depth - 1, infield) for _ in range(r.choice([0, 1, 2]))]
            if r.random() < 0.3: args.append(('Keyword', r.choice(G.KWNAMES), [self.expr(depth - 1, infield)]))
        return ('Call', None, [('Name', name, [])] + args)


def _subquery(self, depth):
    r = self.rng
    clauses, kids = [], []
    for i in range(r.choice([1, 1, 2])):
        names = [['s'], ['t'], ['s', 't']][r.choice([0, 1, 2])] if i == 0 else [['t'], ['r']][r.choice([0, 1])]
        nifs = r.choice([0, 1, 1, 2])
        clauses.append((names, nifs))
        kids.append(('Name', r.choice(['S', 'T']), []) if r.random() < 0.7 else self.expr(depth - 1))
        kids += [self.expr(depth - 1) for _ in range(nifs)]
    return ('Gen', clauses, kids + [self.expr(depth - 1)])
ExtGen.subquery = _subquery


def _expr(self, depth, infield=False):
    r = self.rng
    if depth > 0 and not infield and r.random() < 0.07: return self.subquery(depth)
    if depth > 0 and not infield and r.random() < 0.05:
        n = r.choice([0, 1, 2])
        return ('Dict', None, [self.expr(depth - 1) for _ in range(2 * n)])
    if depth > 0 and not infield and r.random() < 0.04:
        return ('Set', None, [self.expr(depth - 1) for _ in range(r.choice([1, 2, 3]))])
    if depth > 0 and r.random() < 0.10: return self.special_call(depth, infield)
    if depth > 0 and r.random() < 0.08: return ('Attribute', r.choice(['x', 'y']), [('Name', r.choice(QUERY_VARS), [])])
    return G.Gen.expr(self, depth, infield)
ExtGen.expr = _expr


# ------------------------------------------------------------------------------------------------ the property on the implementation

def names_free(node, bound=frozenset()):
    """names (Load) occurring free in a Python ast expression; lambda parameters bind"""
    out = set()
    if isinstance(node, ast.Name): return set() if node.id in bound else {node.id}
    if isinstance(node, ast.Lambda):
        a = node.args
        params = {x.arg for x in a.args + a.posonlyargs + a.kwonlyargs} | ({a.vararg.arg} if a.vararg else set()) | ({a.kwarg.arg} if a.kwarg else set())
        return names_free(node.body, bound | params)
    for c in ast.iter_child_nodes(node): out |= names_free(c, bound)
    return out


def marking_check(t, scope=None):
    """soundness of the real marking on one condition tree: every external's source may only mention caller-scope names.
    -> None | dict(kind=..., ...)"""
    from pony.orm.asttranslation import PreTranslator, ast2src
    from pony.orm.core import special_functions, const_functions
    cond = G.to_ast(t)
    tree = query_ast(cond)
    g = dict(scope or caller_scope()); g['P'] = Obj('P'); g['Q'] = Obj('Q')
    try:
        pt = PreTranslator(tree, g, {}, special_functions, const_functions)
    except Exception as e:
        return {'kind': 'pretranslator-raises', 'exc': type(e).__name__, 'msg': str(e)[:100]}
    enclosing = {}
    def walk(n, params):
        enclosing[id(n)] = params
        if isinstance(n, ast.Lambda):
            a_ = n.args
            params = params | {x.arg for x in a_.args + a_.posonlyargs + a_.kwonlyargs} | ({a_.vararg.arg} if a_.vararg else set()) | ({a_.kwarg.arg} if a_.kwarg else set())
        for c in ast.iter_child_nodes(n): walk(c, params)
    walk(cond, frozenset())
    for n in pt.externals:
        bad = names_free(n) & (set(QUERY_VARS) | enclosing.get(id(n), frozenset()))       # query variables and parameters of enclosing lambdas
        if bad:
            return {'kind': 'external-mentions-query-variable', 'src': ast2src(copy.deepcopy(n)), 'names': sorted(bad)}
    for n in pt.externals:
        if isinstance(n, (ast.Starred, ast.keyword, ast.Slice)):
            return {'kind': 'external-is-not-an-expression', 'src': ast2src(copy.deepcopy(n)), 'node': type(n).__name__}
    return None


def has_dishonest_display(t, ctx=frozenset(QUERY_VARS)):
    """a list / starred node with an element that mentions a query variable (the known defect of postList / postStarred)"""
    def mentions(t):
        return (t[0] == 'Name' and t[1] in ctx) or any(mentions(c) for c in t[2])
    if t[0] in ('List', 'StarArg', 'StarElt') and any(mentions(c) for c in t[2]): return True
    return any(has_dishonest_display(c, ctx) for c in t[2])


def make_cells(d):
    """cell objects holding the given values (what the decompiler hands over for closure variables)"""
    out = {}
    for k, v in d.items():
        def f(v=v):
            x = v
            return lambda: x
        out[k] = f().__closure__[0]
    return out


def extract_vars_check(t, scope, cells, filter_num, code_key):
    """real create_extractors + extract_vars on `(p for p in P for q in Q if <t>)`: keys must be (filter_num, src, code_key) for the
    extractor texts, values Python's value of that text's tree in the caller's scope with the cell contents laid over the locals.
    -> (None | failure dict, set of extractor texts)"""
    from pony.orm.asttranslation import create_extractors, extractors_cache
    from pony.orm import core
    tree = query_ast(G.to_ast(t))
    g = dict(scope); g['P'] = Obj('P'); g['Q'] = Obj('Q')
    extractors_cache.pop(code_key, None)
    try:
        tree2, extractors = create_extractors(code_key, tree, g, {}, core.special_functions, core.const_functions)
    finally:
        extractors_cache.pop(code_key, None)
    ex = {s: e for s, e in extractors.items() if s not in ('P', 'Q')}
    loc = {k: v for k, v in scope.items() if k in cells}          # stale values in locals: the cells must win
    glob = {k: v for k, v in g.items() if k not in cells}
    stale = {k: -99 for k in loc}
    try:
        vars, vartypes = core.extract_vars(code_key, filter_num, ex, glob, stale, make_cells({k: scope[k] for k in cells}))
    except Exception as e:
        return {'kind': 'extract_vars-raises', 'exc': type(e).__name__, 'msg': str(e)[:120]}, set(ex)
    want_keys = {(filter_num, s, code_key) for s in ex}
    if set(vars) != want_keys:
        return {'kind': 'keys-differ', 'got': sorted(map(str, vars)), 'want': sorted(map(str, want_keys))}, set(ex)
    for s in ex:
        want = eval(compile(s, '<src>', 'eval'), dict(scope, len=len, abs=abs, str=str))
        got = vars[(filter_num, s, code_key)]
        if got != want or type(got) is not type(want):
            return {'kind': 'value-differs', 'src': s, 'got': repr(got), 'want': repr(want)}, set(ex)
    return None, set(ex)
