"""Deterministic scheduling of real Pony sessions (used by the C20 and C21 drivers; runs inside a driver subprocess).

One worker thread per session.  The controller hands a worker one closure at a time and waits for its completion with a
hard timeout, so exactly one thread runs at any moment and the interleaving is the list of (worker, closure) pairs the
controller issued.  A closure that does not come back in time is reported as `Stuck` (deadlock), never waited for again.
No hook in /repo: SQL statements are captured with sqlite3's set_trace_callback, installed on every connection the
provider opens through a proxy for the `sqlite` name in pony.orm.dbproviders.sqlite."""
import os, queue, re, sys, threading

STEP_TIMEOUT = float(os.environ.get('VERIF_STEP_TIMEOUT', '60'))


class Stuck(Exception):
    pass


class Worker(threading.Thread):
    def __init__(self, name):
        threading.Thread.__init__(self, name=name, daemon=True)
        self.inq = queue.Queue()
        self.outq = queue.Queue()
        self.start()

    def run(self):
        while True:
            fn = self.inq.get()
            if fn is None: return
            try:
                res = ('ok', fn())
            except BaseException as e:        # the exception object itself is handed to the controller
                res = ('exc', e)
            self.outq.put(res)

    def call(self, fn, timeout=None):
        """Run fn on this worker's thread; returns ('ok', value) or ('exc', exception). Raises Stuck on timeout."""
        self.inq.put(fn)
        try:
            return self.outq.get(timeout=timeout or STEP_TIMEOUT)
        except queue.Empty:
            raise Stuck('worker %s did not finish a step within %.0f s' % (self.name, timeout or STEP_TIMEOUT))

    def stop(self):
        self.inq.put(None)


TRACE = []          # (thread name, expanded SQL) in execution order


class _SqliteProxy(object):
    def __init__(self, mod):
        self.__dict__['_m'] = mod
    def __getattr__(self, name):
        return getattr(self._m, name)
    def connect(self, *args, **kwargs):
        con = self._m.connect(*args, **kwargs)
        tname = threading.current_thread().name
        con.set_trace_callback(lambda sql, t=tname: TRACE.append((t, sql)))
        return con


def install_trace():
    import pony.orm.dbproviders.sqlite as ps
    if not isinstance(ps.sqlite, _SqliteProxy):
        ps.sqlite = _SqliteProxy(ps.sqlite)


def exc_name(e):
    return type(e).__name__


class Session(object):
    """A db_session entered and left on a worker thread, step by step."""
    def __init__(self, worker, orm, **kw):
        self.w = worker
        self.orm = orm
        self.kw = kw
        self.ds = None
        self.alive = False

    def begin(self):
        def f():
            self.ds = self.orm.db_session(**self.kw)
            self.ds.__enter__()
        r = self.w.call(f)
        if r[0] != 'ok': raise r[1]
        self.alive = True

    def do(self, fn):
        """Run one operation inside the session. On an exception the session is left with that exception (rollback)."""
        r = self.w.call(fn)
        if r[0] == 'exc':
            self.leave(r[1])
        return r

    def leave(self, exc=None):
        """db_session.__exit__: commit (exc None) or rollback. Returns None or the exception raised by the exit."""
        if not self.alive: return None
        self.alive = False
        def f():
            if exc is None: self.ds.__exit__(None, None, None)
            else: self.ds.__exit__(type(exc), exc, exc.__traceback__)
        r = self.w.call(f)
        return r[1] if r[0] == 'exc' else None

    def abort(self):
        """Roll back a session that is still open at the end of a schedule."""
        if not self.alive: return
        def f():
            self.orm.rollback()
        self.w.call(f)
        self.leave(None)


_num = r'(NULL|-?\d+(?:\.\d+)?(?:[eE][-+]?\d+)?)'
_upd_re = re.compile(r'^UPDATE "(\w+)"\s+SET (.*?)\s+WHERE (.*)$', re.S)
_set_re = re.compile(r'^"(\w+)" = ' + _num + '$')
_eq_re = re.compile(r'^"(\w+)" = ' + _num + '$')
_null_re = re.compile(r'^"(\w+)" IS NULL$')
# RealConverter.EQ = FLOAT_EQ: relative tolerance 1e-14; on the small integral floats used here it coincides with `=`
_feq_re = re.compile(r'^abs\("(\w+)" - ' + _num + r'\) / coalesce\(nullif\(max\(abs\("(\w+)"\), abs\(' + _num + r'\)\), 0\), 1\) <= 1e-14$')


def _val(tok):
    if tok == 'NULL': return None
    x = float(tok)
    if x != int(x): raise ValueError('non-integral value %r in captured SQL' % tok)
    return int(x)


def parse_update(sql):
    """'UPDATE "P" SET "a" = 11 WHERE "id" = 1 AND "a" = 10 AND "b" IS NULL' ->
       ('P', [('a', 11)], [('id', 1), ('a', 10), ('b', None)]); None if sql is not an UPDATE of that shape."""
    m = _upd_re.match(sql.strip())
    if not m: return None
    sets, wh = [], []
    for item in m.group(2).split(','):
        sm = _set_re.match(item.strip())
        if not sm: raise ValueError('unparsed SET item %r in %r' % (item, sql))
        sets.append((sm.group(1), _val(sm.group(2))))
    for item in re.split(r'\s+AND\s+', m.group(3).strip()):
        item = item.strip()
        em = _eq_re.match(item)
        if em:
            # `col = NULL` never matches a row: reported to the caller as the marker '=NULL' (the model has IS NULL there)
            wh.append((em.group(1), '=NULL' if em.group(2) == 'NULL' else _val(em.group(2)))); continue
        nm = _null_re.match(item)
        if nm: wh.append((nm.group(1), None)); continue
        fm = _feq_re.match(item)
        if fm and fm.group(1) == fm.group(3) and fm.group(2) == fm.group(4) and fm.group(2) != 'NULL':
            wh.append((fm.group(1), _val(fm.group(2)))); continue
        raise ValueError('unparsed WHERE item %r in %r' % (item, sql))
    return m.group(1), sets, wh
