"""C26: generator of entity diagrams (spec -> Python source) and the specification-side oracle."""
import json, re

SHORT = ['A', 'B', 'C', 'Person', 'Group', 'Item', 'ITEM', 'A_B', 'B_C', 'Tag', 'Idx_a__b', 'Pk_a', 'Stra\u00dfe', '\u00c4' + '\u00df' * 20]
ATTRS = ['a', 'b', 'c', 'name', 'Name', 'NAME', 'value', 'kind', 'x1', 'code', 'group', 'order', 'select', 'stra\u00dfe', '\u00df' * 16]
PROVIDERS = ['sqlite', 'postgres', 'mysql', 'oracle']
LIMITS = {'sqlite': 1024, 'postgres': 63, 'mysql': 64, 'oracle': 30}


def long_name(rng, upper_first=True):
    n = rng.choice([14, 15, 16, 27, 29, 30, 31, 32, 33, 40, 61, 62, 63, 64, 65, 66, 70])
    base = rng.choice(['Long', 'Very', 'Xy'])
    s = (base + 'abcdefghij' * 8)[:n - 1] + rng.choice('xyz')
    return s if upper_first else s.lower()


def gen_spec(rng):
    ne = rng.randint(1, 4)
    used = set()
    ents = []
    for i in range(ne):
        for _ in range(20):
            nm = long_name(rng) if rng.random() < 0.35 else rng.choice(SHORT)
            if nm not in used: break
        else: nm = 'E%d' % i
        used.add(nm)
        e = {'name': nm, 'table': None, 'base': None, 'attrs': [], 'ckeys': [], 'cindexes': [], 'cpk': None}
        roots = [x for x in ents if x['base'] is None]
        if roots and rng.random() < 0.2:
            e['base'] = rng.choice(roots)['name']
        else:
            if rng.random() < 0.25:
                e['table'] = rng.choice(['tbl_%d' % i, 'T', 't', long_name(rng, False), ents[0]['name'] if ents else 'tbl'])
        ents.append(e)

    def fresh_attr(e):
        taken = {a['name'] for a in e['attrs']}
        b = base_of(e)
        while b is not None:
            taken |= {a['name'] for a in b['attrs']}; b = base_of(b)
        for x in ents:
            if base_chain_has(x, e): taken |= {a['name'] for a in x['attrs']}
        for _ in range(30):
            nm = long_name(rng, False) if rng.random() < 0.25 else rng.choice(ATTRS)
            if nm not in taken and nm != 'id': return nm
        return 'z%d' % len(taken)

    def base_of(e):
        return next((x for x in ents if x['name'] == e['base']), None) if e['base'] else None

    def base_chain_has(x, e):
        b = base_of(x)
        while b is not None:
            if b is e: return True
            b = base_of(b)
        return False

    for e in ents:
        if e['base'] is None:
            r = rng.random()
            if r < 0.4: pass                                              # implicit id
            elif r < 0.6: e['attrs'].append({'name': fresh_attr(e), 'kind': 'PrimaryKey', 'type': rng.choice(['int', 'str']), 'opts': {}})
            elif r < 0.7: e['attrs'].append({'name': fresh_attr(e), 'kind': 'PrimaryKey', 'type': 'int', 'opts': {'auto': True}})
            else: e['cpk'] = 2
        for _ in range(rng.randint(0, 3) + (2 if e['cpk'] else 0)):
            a = {'name': fresh_attr(e), 'kind': rng.choice(['Required', 'Optional']), 'type': rng.choice(['int', 'str']), 'opts': {}}
            r = rng.random()
            if r < 0.2: a['opts']['column'] = rng.choice(['col', 'COL', 'c1', long_name(rng, False), a['name'].upper()])
            if rng.random() < 0.2: a['opts']['unique'] = True
            elif rng.random() < 0.2: a['opts']['index'] = rng.choice([True, 'ix1', 'IX1', long_name(rng, False)])
            if a['kind'] == 'Optional' and a['type'] == 'str' and rng.random() < 0.3: a['opts']['nullable'] = True
            e['attrs'].append(a)
        plain = [a['name'] for a in e['attrs'] if a['kind'] in ('Required', 'Optional')]
        if e['cpk']:
            req = [a for a in e['attrs'] if a['kind'] in ('Required', 'Optional')][:2]
            for a in req: a['kind'] = 'Required'; a['opts'].pop('nullable', None)
            e['cpk'] = [a['name'] for a in req]
        if len(plain) >= 2 and rng.random() < 0.25: e['ckeys'].append(rng.sample(plain, 2))
        if len(plain) >= 2 and rng.random() < 0.25: e['cindexes'].append(rng.sample(plain, 2))

    rels = []
    for _ in range(rng.randint(0, 3)):
        e1 = rng.choice(ents); e2 = rng.choice(ents)
        # bias: references to composite keys, and references declared in subclasses
        ck = [x for x in ents if x['cpk']]; sub = [x for x in ents if x['base']]
        if ck and rng.random() < 0.35: e1 = rng.choice(ck)
        if sub and rng.random() < 0.35: e2 = rng.choice(sub)
        kind = rng.choice(['o2m', 'o2m', 'o2o', 'm2m', 'm2m'])
        n1 = fresh_attr(e1)
        a1 = {'name': n1, 'opts': {}}
        e1['attrs'].append(a1)
        n2 = fresh_attr(e2)
        a2 = {'name': n2, 'opts': {}}
        e2['attrs'].append(a2)
        a1['type'] = e2['name']; a2['type'] = e1['name']
        a1['opts']['reverse'] = n2; a2['opts']['reverse'] = n1
        if kind == 'o2m':
            a1['kind'] = 'Set'; a2['kind'] = rng.choice(['Required', 'Optional'])
            if rng.random() < 0.2: a2['opts']['column'] = rng.choice(['fkcol', long_name(rng, False)])
            if rng.random() < 0.15: a2['opts']['index'] = rng.choice([True, 'fk_ix'])
        elif kind == 'o2o':
            a1['kind'] = 'Optional'; a2['kind'] = rng.choice(['Required', 'Optional'])
            if e1 is e2 and a2['kind'] == 'Required': a2['kind'] = 'Optional'
        else:
            a1['kind'] = 'Set'; a2['kind'] = 'Set'
            if rng.random() < 0.3: a1['opts']['table'] = rng.choice(['m2m_t', 'T', long_name(rng, False), e1['name']])
            if rng.random() < 0.15: a1['opts']['column'] = rng.choice(['left_id', 'x'])
        rels.append([e1['name'], n1, e2['name'], n2, kind])
    return {'entities': ents, 'rels': rels}


def opt_src(opts):
    out = []
    for k, v in opts.items():
        out.append('%s=%r' % (k, v))
    return (', ' + ', '.join(out)) if out else ''


def source_of(spec):
    lines = []
    for e in spec['entities']:
        lines.append('class %s(%s):' % (e['name'], e['base'] or 'db.Entity'))
        body = []
        if e['table']: body.append('_table_ = %r' % e['table'])
        for a in e['attrs']:
            t = a['type'] if a['type'] in ('int', 'str') else repr(a['type'])
            body.append('%s = %s(%s%s)' % (a['name'], a['kind'], t, opt_src(a['opts'])))
        if e['cpk']: body.append('PrimaryKey(%s)' % ', '.join(e['cpk']))
        for k in e['ckeys']: body.append('composite_key(%s)' % ', '.join(k))
        for k in e['cindexes']: body.append('composite_index(%s)' % ', '.join(k))
        if not body: body.append('pass')
        lines += ['    ' + b for b in body]
        lines.append('')
    return '\n'.join(lines)


# ------------------------------------------------------------------------------------------------ oracle

def fold(provider, s):
    """identifier comparison of the backend: SQLite / MySQL / PostgreSQL(unquoted-style names are lower-cased by Pony) compare
    case-insensitively for our purposes only on SQLite (quoted identifiers are case-sensitive elsewhere)."""
    return s.lower() if provider == 'sqlite' else s


def explicit_names(spec):
    ex = set()
    for e in spec['entities']:
        if e['table']: ex.add(e['table'])
        for a in e['attrs']:
            for k in ('column', 'table'):
                if isinstance(a['opts'].get(k), str): ex.add(a['opts'][k])
            if isinstance(a['opts'].get('index'), str): ex.add(a['opts']['index'])
    return ex


def is_ascii(s):
    return all(ord(c) < 128 for c in s)


def judge(case, o):
    """list of (key, what) violations of the statement for one observed case."""
    prov, spec = case['provider'], case['spec']
    out = []
    oc = o['outcome']
    if oc in ('rejected', 'rejected-at-declaration'): return out
    if oc in ('backend-error', 'crash', 'driver-error'):
        msg = o['error'][1]
        if oc == 'crash':
            key = 'crash:%s:%s' % (o['error'][0], o.get('where') or 'unknown')
        elif prov == 'sqlite' and 'duplicate column name' in msg:
            key = 'sqlite-backend-error:duplicate-column-name-differing-only-by-case'
        elif prov == 'sqlite' and ('there is already' in msg or 'already exists' in msg):
            key = 'sqlite-backend-error:object-name-taken-differing-only-by-case'
        else:
            m = re.sub(r"[\"'`][^\"'`]*[\"'`]", 'X', msg)
            key = '%s:%s:%s:%s' % (oc, prov, o['error'][0], re.sub(r'\d+', 'N', m)[:50].strip())
        out.append((key, '%s: %s' % tuple(o['error'])))
        return out
    limit = o['max_name_len']
    ex = explicit_names(spec)
    # N1: object names distinct under the backend's comparison
    seen = {}
    for n in o['names']:
        k = fold(prov, n)
        if k in seen and seen[k] != n:
            out.append(('names-differ-only-by-case:%s' % prov, 'objects %r and %r' % (seen[k], n)))
        seen[k] = n
    for tn, t in o['tables'].items():
        cs = {}
        for c in t['columns']:
            k = fold(prov, c[0])
            if k in cs: out.append(('column-names-differ-only-by-case:%s' % prov, 'table %r columns %r and %r' % (tn, cs[k], c[0])))
            cs[k] = c[0]
    # N2: length limit
    nonascii_source = not is_ascii(case['source'])
    def too_long(kind, n):
        if n is None or len(n) <= limit: return
        if n in ex: out.append(('explicit-%s-name-longer-than-limit-accepted' % kind, '%s: %r (%d > %d)' % (prov, n, len(n), limit)))
        else:
            sub = kind
            if kind == 'table' and re.search(r'_\d+$', n): sub = 'm2m-table-sequence-suffix'
            elif kind == 'column' and n.endswith('_2'): sub = 'm2m-reverse-column-suffix'
            elif nonascii_source: sub = 'non-ascii-case-mapping'
            out.append(('generated-name-longer-than-limit:%s' % sub, '%s: %r (%d > %d)' % (prov, n, len(n), limit)))
    for tn, t in o['tables'].items():
        too_long('table', tn)
        for c in t['columns']: too_long('column', c[0])
        for ix in t['indexes']: too_long('index', ix[0])
        for fk in t['fks']: too_long('fk', fk[0])
    # C: one column per mapped attribute column, with the declared nullability
    ents = {e['name']: e for e in spec['entities']}
    for en, er in o.get('attrs', {}).items():
        t = o['tables'].get(er['table'])
        if t is None:
            out.append(('entity-table-missing:%s' % prov, en)); continue
        colmap = {}
        for c in t['columns']: colmap.setdefault(c[0], []).append(c)
        for an, ar in er['attrs'].items():
            if ar.get('collection'): continue
            for cn in ar['columns']:
                cs = colmap.get(cn, [])
                if len(cs) != 1:
                    out.append(('attribute-column-count-%d:%s' % (len(cs), prov), '%s.%s column %r' % (en, an, cn))); continue
                decl = find_attr(ents, en, an)
                if decl is None: continue
                exp_notnull = expected_notnull(prov, ents, decl[0], decl[1], er['pk_columns'], cn)
                if exp_notnull is not None and cs[0][2] != exp_notnull:
                    out.append(('column-nullability:%s:%s' % (prov, 'expected-not-null' if exp_notnull else 'expected-nullable'),
                                '%s.%s column %r not_null=%r' % (en, an, cn, cs[0][2])))
    # an entity must not share its table with an m2m relationship
    for tn, t in o['tables'].items():
        if t['m2m'] and t['entities']:
            out.append(('entity-mapped-onto-m2m-table:%s' % prov, 'table %r holds entities %r and a many-to-many relationship' % (tn, t['entities'])))
    # O: creation order
    order = o['order']
    if sorted(order) != sorted(o['tables']):
        out.append(('creation-order-not-a-permutation:%s' % prov, repr(order)))
    else:
        pos = {n: i for i, n in enumerate(order)}
        if acyclic(o['tables']):
            for tn, t in o['tables'].items():
                for p in t['parents']:
                    if pos[p] > pos[tn]: out.append(('table-created-before-parent:%s' % prov, '%r before %r' % (tn, p)))
    # catalog (SQLite): what was created is what the schema says
    if prov == 'sqlite' and 'catalog' in o:
        cat = o['catalog']['tables']
        for tn, t in o['tables'].items():
            ct = cat.get(tn)
            if ct is None:
                out.append(('catalog-table-missing', tn)); continue
            if [c[0] for c in ct['columns']] != [c[0] for c in t['columns']]:
                out.append(('catalog-columns-differ', '%r: %r vs %r' % (tn, ct['columns'], t['columns'])))
            else:
                for cc, sc in zip(ct['columns'], t['columns']):
                    if bool(cc[2]) != bool(sc[2]) and not sc[3]:
                        out.append(('catalog-nullability-differs', '%r.%r' % (tn, sc[0])))
            pkcols = [c[0] for c in sorted((c for c in ct['columns'] if c[3]), key=lambda c: c[3])]
            spk = [ix[1] for ix in t['indexes'] if ix[2]]
            if spk and pkcols != spk[0]: out.append(('catalog-primary-key-differs', '%r: %r vs %r' % (tn, pkcols, spk[0])))
            cuniq = sorted(sorted(ix[3]) for ix in ct['indexes'] if ix[1])
            for ix in t['indexes']:
                if ix[3] and not ix[2] and sorted(ix[1]) not in cuniq:
                    out.append(('catalog-unique-index-missing', '%r %r' % (tn, ix[1])))
                if not ix[3] and not ix[2] and not any(sorted(ci[3]) == sorted(ix[1]) for ci in ct['indexes']):
                    out.append(('catalog-index-missing', '%r %r' % (tn, ix[1])))
            cfk = sorted([f[0], f[1], f[2]] for f in ct['fks'])
            sfk = sorted([f[2], f[1], f[3]] for f in t['fks'])
            if cfk != sfk: out.append(('catalog-foreign-keys-differ', '%r: %r vs %r' % (tn, cfk, sfk)))
        if o.get('check_tables') != 'ok': out.append(('check-tables-fails', str(o.get('check_tables'))))
    return out


def find_attr(ents, en, an):
    e = ents.get(en)
    while e is not None:
        for a in e['attrs']:
            if a['name'] == an: return e, a
        e = ents.get(e['base']) if e['base'] else None
    return None


def expected_notnull(prov, ents, e, a, pk_columns, cn):
    """Declared nullability -> NOT NULL flag of the column (None = no expectation)."""
    if a['kind'] == 'PrimaryKey' or cn in pk_columns: return None      # primary key columns: NOT NULL implied by the key
    if e['base'] is not None: return False              # attribute of a subclass in a single-table hierarchy: rows of other classes lack it
    if a['kind'] == 'Required': return True
    if a['kind'] == 'Optional':
        if a['type'] == 'str':
            if a['opts'].get('nullable') or prov == 'oracle': return False
            if a['opts'].get('unique') or any(a['name'] in k for k in e['ckeys'] + e['cindexes']): return False   # part of an index: NULLs instead of ''
            return True                                  # optional strings are stored as '' (NOT NULL) unless nullable=True
        return False
    return None


def acyclic(tables):
    state = {}
    def visit(n):
        if state.get(n) == 1: return False
        if state.get(n) == 2: return True
        state[n] = 1
        for p in tables[n]['parents']:
            if p != n and not visit(p): return False
        state[n] = 2
        return True
    return all(visit(n) for n in tables)


# ------------------------------------------------------------------------------------------------ evolved databases (create_tables on existing objects)

def gen_history(rng):
    """v1 = a small ASCII diagram; v2 = v1 plus indexes (index=True / index='name' on plain attributes, composite_index);
    drop = positions of explicitly created indexes dropped by raw SQL before the second generate_mapping(create_tables=True)."""
    import copy
    ne = rng.randint(1, 3)
    ents = []
    for i in range(ne):
        e = {'name': ['Person', 'Group', 'Item'][i], 'table': None, 'base': None, 'attrs': [], 'ckeys': [], 'cindexes': [], 'cpk': None}
        for j in range(rng.randint(2, 4)):
            a = {'name': 'a%d' % j, 'kind': rng.choice(['Required', 'Optional']), 'type': rng.choice(['int', 'str']), 'opts': {}}
            r = rng.random()
            if r < 0.25: a['opts']['index'] = rng.choice([True, 'ix_%d_%d' % (i, j)])
            elif r < 0.35: a['opts']['unique'] = True
            e['attrs'].append(a)
        if rng.random() < 0.3: e['cindexes'].append(['a0', 'a1'])
        ents.append(e)
    for i in range(1, ne):
        if rng.random() < 0.6:      # one-to-many: a foreign key with its own index
            ents[i]['attrs'].append({'name': 'owner', 'kind': rng.choice(['Required', 'Optional']), 'type': ents[0]['name'], 'opts': {'reverse': 'things%d' % i}})
            ents[0]['attrs'].append({'name': 'things%d' % i, 'kind': 'Set', 'type': ents[i]['name'], 'opts': {'reverse': 'owner'}})
    v1 = {'entities': ents, 'rels': []}
    v2 = copy.deepcopy(v1)
    added = 0
    if rng.random() < 0.75:
        for e in v2['entities']:
            for a in e['attrs']:
                if a['kind'] in ('Required', 'Optional') and a['type'] in ('int', 'str') and not a['opts'] and rng.random() < 0.4:
                    a['opts']['index'] = rng.choice([True, 'new_%s_%s' % (e['name'].lower(), a['name'])]); added += 1
            if not e['cindexes'] and any(a['name'] == 'a2' for a in e['attrs']) and rng.random() < 0.3:
                e['cindexes'].append(['a1', 'a2']); added += 1
    drop = [rng.randrange(8) for _ in range(rng.randint(1, 2))] if (added == 0 or rng.random() < 0.4) else []
    return {'source_v1': source_of(v1), 'source_v2': source_of(v2), 'drop': drop, 'added': added}


def judge_history(h, o):
    if o['outcome'] in ('rejected', 'v1-not-created'): return []
    if o['outcome'] != 'ok':
        return [('create_tables-on-existing-database:%s:%s' % (o['outcome'], o['error'][0]), '%s: %s' % tuple(o['error']))]
    out = []
    after = {n.lower() for n in o['after']}
    existed = {n.lower() for n in o['before']}
    for objs in o['object_lists']:
        for typ, name in objs:
            if name.lower() not in after:
                table_existed = objs[0][1].lower() in existed
                out.append(('create_tables:declared-%s-missing-afterwards:%s' % (typ.lower().replace(' ', '-'), 'table-existed-before' if table_existed else 'new-table'),
                            '%s %r declared for table %r is not in sqlite_master after generate_mapping(create_tables=True); existing before: %r' % (typ, name, objs[0][1], o['before'])))
    for n in o['before']:
        if n.lower() not in after: out.append(('create_tables:existing-object-lost', n))
    if o.get('check_tables') != 'ok': out.append(('create_tables:check-tables-fails-afterwards', str(o.get('check_tables'))))
    return out
