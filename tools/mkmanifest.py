#!/venv/bin/python
"""Write MANIFEST.json from the plugins' metadata (one source of truth; no hand-edited list)."""
import os, sys, json, glob, importlib
HERE = os.path.dirname(os.path.abspath(__file__))
sys.path.insert(0, HERE)
sys.path.insert(0, os.environ.get('VERIF_REPO', '/repo'))
import vlib

ALL = ['C%02d' % i for i in range(1, 37)]
NA_FILE = os.path.join(vlib.VERIF, 'not_applicable.json')

def main():
    checks, have = [], set()
    for f in sorted(glob.glob(os.path.join(HERE, 'props', 'c[0-9]*.py'))):
        try:
            p = importlib.import_module('props.' + os.path.basename(f)[:-3])
            p.LEVEL_TEXT, p.LEVEL_NOTE, p.TECHNIQUE
        except Exception as e:
            print('skipping %s: %s' % (f, e)); continue
        if getattr(p, 'DISABLED', False): continue
        have.add(p.ID)
        checks.append({
            'property_id': p.ID,
            'quick_cmd': './check %s --tier quick' % p.ID,
            'thorough_cmd': './check %s --tier thorough' % p.ID,
            'evidence_file': 'evidence/%s.json' % p.ID,
            'replay_cmd_template': './check %s --replay {path}' % p.ID,
            'engine': 'coq-proof+tie',
            'level_claimed': {'category': p.LEVEL, 'text': p.LEVEL_TEXT, 'design_ref': getattr(p, 'DESIGN_REF', 'DESIGN.md section 5, %s' % p.ID)},
            'level_note': p.LEVEL_NOTE,
            'technique': p.TECHNIQUE,
        })
    na = json.load(open(NA_FILE)) if os.path.exists(NA_FILE) else {}
    not_applicable = []
    for pid in ALL:
        if pid in have: continue
        not_applicable.append({'property_id': pid, 'reason': na.get(pid, 'not claimed yet: the Coq model, theorems and tie for this property are not built in this revision (see DESIGN.md section 5 for the plan)')})
    m = {
        'version': 1,
        'setup_cmd': '/venv/bin/python tools/setup.py',
        'hooks': {'guard': 'PONYORM_PONY_VERIF', 'enable': 'no source hooks: checks observe /repo from outside (trace callbacks, proxies, stub drivers); PONYORM_PONY_VERIF=1 is exported by ./check for uniformity',
                  'baseline_off_cmd': 'cd /repo && /venv/bin/python -m pytest -ra -q -p no:cacheprovider --timeout=900 --continue-on-collection-errors',
                  'source_commits': [], 'add_only': True},
        'engines': [{'name': 'coq-proof+tie', 'path': 'check', 'serves_properties': sorted(have),
                     'kind_free_text': 'Coq 8.16.1 theorems over executable Gallina models; models regenerated from /repo by tools/py2coq and/or compared with the implementation by vm_compute correspondence; failing-input search against the implementation when a proof or tie breaks'}],
        'checks': checks,
        'not_applicable': not_applicable,
        'notes': 'Every check: ./check <id> [--tier quick|thorough] [--seed N]; VERIF_TIER/VERIF_SEED honoured. known_findings.json lists recorded defects (KNOWN-FINDING lines) and fixed ones.',
    }
    with open(os.path.join(vlib.VERIF, 'MANIFEST.json'), 'w') as f:
        json.dump(m, f, indent=1)
    with open(os.path.join(vlib.VERIF, 'known_findings.json'), 'w') as f:
        json.dump(vlib.load_findings(), f, indent=1)
    print('MANIFEST.json: %d checks, %d not claimed' % (len(checks), len(not_applicable)))

main()
