"""C20 (model Life) implementation driver: ONE real db_session on a worker thread that runs several transactions (explicit
commit() in the middle), on one object it loads / locks with get_for_update / creates, while another session (a raw sqlite3
connection, committed at once) changes the row whenever the session does not hold the provider's write lock.
JSON in: {"cases": [{"d0": [a, b, c] | null, "evs": [...]}]}; events
  ["create", [a, b, c]] | ["forupd"] | ["R", a] | ["W", a, ["C", v] | ["P", b, d]] | ["K"] (commit(), session goes on) | ["X", a, v] (other session)
JSON out per case: final row (null if absent), whether the write lock is held at the end, the session's events
(observations, INSERT / UPDATE statements captured with set_trace_callback, failure)."""
import json, os, re, sqlite3, sys, tempfile, shutil, time
import vlib
sys.path.insert(0, vlib.REPO)
import c20_sessions as S
from pony import orm

ATTRS = ['a', 'b', 'c']


def setup(path):
    S.install_trace()
    db = orm.Database('sqlite', path, create_db=True)
    class P(db.Entity):
        a = orm.Optional(int)
        b = orm.Optional(int)
        c = orm.Optional(int, optimistic=False)
    db.generate_mapping(create_tables=True)
    return db, P

_ins_re = re.compile(r'^INSERT INTO "P" \((.*?)\) VALUES \((.*?)\)$', re.S)

def parse_insert(sql):
    m = _ins_re.match(sql.strip())
    if not m: return None
    cols = [c.strip().strip('"') for c in m.group(1).split(',')]
    vals = [None if v.strip() == 'NULL' else int(v.strip()) for v in m.group(2).split(',')]
    d = dict(zip(cols, vals))
    return [d.get(a) for a in ATTRS]


def run_case(db, P, raw, worker, case):
    raw.execute('DELETE FROM P')
    if case['d0'] is not None: raw.execute('INSERT INTO P (id, a, b, c) VALUES (1, ?, ?, ?)', case['d0'])
    raw.commit()
    def row():
        r = raw.execute('SELECT a, b, c FROM P WHERE id = 1').fetchone()
        return None if r is None else list(r)
    lock = db.provider.transaction_lock
    sess = S.Session(worker, orm); sess.begin()
    events, other, skipped_ext = [], [], 0
    failed = False
    del S.TRACE[:]
    def statements(t0, before):
        out = []
        for t, sql in S.TRACE[t0:]:
            if t != worker.name: continue
            ins = parse_insert(sql)
            if ins is not None: out.append(['ins', ins]); continue
            u = S.parse_update(sql)
            if u is not None:
                assert u[0] == 'P' and u[2][0] == ('id', 1), u
                out.append(['upd', [[ATTRS.index(c), v] for c, v in u[1]], [[ATTRS.index(c), v] for c, v in u[2][1:]], True, before])
        return out
    for ev in case['evs']:
        if ev[0] == 'X':
            if lock.locked(): skipped_ext += 1; continue          # the other session would block: not issued
            raw.execute('UPDATE P SET %s = ? WHERE id = 1' % ATTRS[ev[1]], (ev[2],)); raw.commit()
            continue
        if failed: continue
        t0 = len(S.TRACE)
        seen = []
        before = row()
        if ev[0] == 'create':
            vals = dict(zip(ATTRS, ev[1]))
            r = sess.do(lambda: P(id=1, **vals) and None)
        elif ev[0] == 'forupd':
            r = sess.do(lambda: P.get_for_update(id=1) and None)
        elif ev[0] == 'R':
            r = sess.do(lambda: getattr(P[1], ATTRS[ev[1]]))
            if r[0] == 'ok': seen.append(['obs', ev[1], r[1]])
        elif ev[0] == 'W' and ev[2][0] == 'C':
            r = sess.do(lambda: setattr(P[1], ATTRS[ev[1]], ev[2][1]))
        elif ev[0] == 'W':
            box = []
            def f():
                obj = P[1]
                x = getattr(obj, ATTRS[ev[2][1]]); box.append(x)
                setattr(obj, ATTRS[ev[1]], x + ev[2][2])
            r = sess.do(f)
            if box: seen.append(['obs', ev[2][1], box[0]])
        elif ev[0] == 'K':
            r = sess.do(lambda: orm.commit())
        else:
            raise ValueError(ev)
        events += seen
        st = statements(t0, before)
        if r[0] == 'exc':
            failed = True
            name = type(r[1]).__name__
            code = {'OptimisticCheckError': 1, 'TypeError': 2, 'UnrepeatableReadError': 3}.get(name, 9)
            if code == 9: other.append('%s: %s' % (name, str(r[1])[:300]))
            if code == 1 and st and st[-1][0] == 'upd': st[-1][3] = False
            events += st
            events.append(['fail', code, before, row()])
        else:
            events += st
    locked_at_end = lock.locked()
    if sess.alive: sess.abort()
    return {'final': row(), 'locked': locked_at_end, 'events': events, 'other': other, 'skipped_ext': skipped_ext,
            'lock_left_held': lock.locked()}


def main():
    payload = json.load(sys.stdin)
    tmp = tempfile.mkdtemp(prefix='c20l-', dir=os.environ.get('VERIF_TMP', '/tmp'))
    out = {'results': [], 'stuck': None}
    try:
        path = os.path.join(tmp, 'life.sqlite')
        db, P = setup(path)
        raw = sqlite3.connect(path, timeout=5)
        worker = S.Worker('A')
        t0 = time.time()
        for k, case in enumerate(payload['cases']):
            try:
                out['results'].append(run_case(db, P, raw, worker, case))
            except S.Stuck as e:
                out['stuck'] = {'case': k, 'what': str(e)}
                break
        out['seconds'] = round(time.time() - t0, 2)
    except BaseException as e:
        import traceback
        out['error'] = '%s: %s\n%s' % (type(e).__name__, e, traceback.format_exc()[-3000:])
    finally:
        sys.stdout.write('\n@@JSON@@' + json.dumps(out))
        sys.stdout.flush()
        shutil.rmtree(tmp, ignore_errors=True)
        os._exit(0)


if __name__ == '__main__':
    main()
