"""C15: object graphs and deletion histories.
A population = the parent P (handle 0, entity 0) plus dependents chosen from a catalogue (one per relationship kind x flags, with
optional grandchildren and a second parent).  A history = a session that creates the population, then deletions of a sequence of
objects in one of several modes (all obj.delete() in one session / one session each / bulk deletes by the database / mixed)."""
import itertools

# dependents of S15: name -> list of (entity, [(attr, partner 'P' | 'P2' | index of an earlier object of this dependent)])
CATALOGUE_S15 = {
    'c1':  [(1, [(1, 'P')])],
    'c1g': [(1, [(1, 'P')]), (9, [(1, 0)])],
    'c1gg': [(1, [(1, 'P')]), (9, [(1, 0)]), (9, [(1, 0)])],
    'c2':  [(2, [(1, 'P')])],
    'c3':  [(3, [(1, 'P')])],
    'c4':  [(4, [(1, 'P')])],
    'o1':  [(5, [(1, 'P')])],
    'o2':  [(6, [(1, 'P')])],
    'o3':  [(7, [(1, 'P')])],
    'm':   [(8, [(1, 'P')])],
    'p2m': [(0, []), (8, [(1, 'P'), (1, 0)])],       # a second parent sharing a many-to-many partner
    'p2c3': [(0, []), (3, [(1, 0)])],                # an unrelated parent with its own optional child
}
CATALOGUE_S15B = {
    'k':   [(1, [(1, 'P')])],
    'kl':  [(1, [(1, 'P')]), (2, [(1, 0)])],               # refusing leaf below a cascading child
    'klb': [(1, [(1, 'P')]), (2, [(1, 0), (2, 'P')])],     # ... whose optional back reference points at P (one-to-one, P holds the column? no: E0 < E2)
    'kt':  [(1, [(1, 'P')]), (3, [(1, 0)])],               # many-to-many partner of the child
    'kk':  [(1, [(1, 'P')]), (1, [(1, 'P')])],
}
CATALOGUE_S15C = {
    'c':   [(1, [(1, 'P')])],
    'cg':  [(1, [(1, 'P')]), (5, [(1, 0)])],               # cascading child with a grandchild
    'm':   [(2, [(1, 'P')])],
    'o':   [(3, [(1, 'P')])],                              # cascaded one-to-one dependent
    'oc':  [(3, [(1, 'P')]), (6, [(1, 0)])],               # ... with a child of its own
    'r':   [(4, [(1, 'P')])],                              # the refusing one-to-one dependent (declared last)
}
CATALOGUE_S15D = {
    'n':   [(1, [(1, 'P')])],                              # a note pointing at P: P can be reached through note.a01 without being loaded
    'nn':  [(1, [(1, 'P')]), (1, [(1, 'P')])],
    'pc':  [(2, [(1, 'P')])],                              # one-to-one partner cascaded from P (P's row holds the reference)
    'pcc': [(2, [(1, 'P')]), (4, [(1, 0)])],               # ... with a child of its own
    'pn':  [(3, [(1, 'P')])],                              # one-to-one partner whose link is cleared
}
CATALOGUES = {'S15': CATALOGUE_S15, 'S15B': CATALOGUE_S15B, 'S15C': CATALOGUE_S15C, 'S15D': CATALOGUE_S15D}
MODES = ('one', 'each', 'bulk', 'mixed', 'created', 'via')


def population(sname, names):
    """-> (creation ops, handles with entity)"""
    cat = CATALOGUES[sname]
    ops = [['new', 0, 0, []]]
    objs = [(0, 0)]
    for n in names:
        base = len(objs)
        for k, (e, refs) in enumerate(cat[n]):
            oid = len(objs)
            rr = []
            for a, t in refs:
                rr.append([a, 0 if t == 'P' else base + t])
            ops.append(['new', oid, e, rr])
            objs.append((oid, e))
    return ops, objs


def history(sname, names, order, mode):
    """order: handles to delete, in order; mode: 'one' | 'each' | 'bulk' | 'mixed' -> list of sessions"""
    ops, objs = population(sname, names)
    ent = dict(objs)
    # S15B has a reference cycle (P -> leaf -> child -> P) that cannot be inserted in one flush (C16): create one object per session there
    sessions = [ops] if sname != 'S15B' else [[op] for op in ops]
    if mode == 'created' and sname == 'S15B' and any(n == 'klb' for n in names): mode = 'one'
    if mode == 'via':
        # one session per deletion; the object is reached through a reference held by a peer (an unloaded placeholder if the peer's row
        # holds the reference), never through E[pk]
        import c15_impl as I
        peers = {}
        for op in ops:
            for a, y in op[3]:
                if I.SCHEMAS[sname]['entities'][op[2]]['attrs'][a]['kind'] == 'ref': peers.setdefault(y, [op[2], op[1], a])
        for o in order: sessions.append([['del', o, ent[o]] + ([peers[o]] if o in peers else [])])
    elif mode == 'one':
        sessions.append([['del', o, ent[o]] for o in order])
    elif mode == 'each':
        for o in order: sessions.append([['del', o, ent[o]]])
    elif mode == 'bulk':
        for o in order: sessions.append([['bulk', ent[o], [o]]])
    elif mode == 'mixed':
        for k, o in enumerate(order):
            sessions.append([['bulk', ent[o], [o]]] if k % 2 else [['del', o, ent[o]]])
    elif mode == 'created':
        # everything in one session: the objects are still unsaved ('created') when they are deleted
        sessions = [ops + [['del', o, ent[o]] for o in order]]
    return sessions


def all_histories(sname, max_dependents, max_objects, rng=None, limit=None):
    """enumerate (names, order, mode); with rng and limit: a seeded sample of that space"""
    cat = sorted(CATALOGUES[sname])
    space = []
    for k in range(0, max_dependents + 1):
        for names in itertools.combinations(cat, k):
            if sname == 'S15C' and 'o' in names and 'oc' in names: continue      # one one-to-one dependent per attribute
            if sname == 'S15D' and 'pc' in names and 'pcc' in names: continue
            ops, objs = population(sname, names)
            if len(objs) > max_objects: continue
            space.append((names, [o for o, e in objs]))
    out = []
    if rng is None:
        for names, hs in space:
            for order in itertools.permutations(hs):
                for mode in MODES:
                    out.append((names, list(order), mode))
        return out
    while len(out) < limit:
        names, hs = rng.choice(space)
        order = list(hs); rng.shuffle(order)
        order = order[:rng.randint(1, len(order))]
        out.append((names, order, rng.choice(list(MODES))))
    return out
