"""C20 implementation driver: runs programs of Read / Write / Commit in real optimistic db_sessions (one thread per session)
over one SQLite file under a given schedule.  JSON in: {"cases": [{"db0": [...], "progs": [[op...]...], "sched": [...]}]};
ops: ["R", a] | ["W", a, ["C", v]] | ["W", a, ["P", b, d]] | ["K"].  JSON out: per case final row, per-session status,
events in execution order (observations, captured UPDATE statements, session ends with the row before / after)."""
import json, os, sqlite3, sys, tempfile, shutil, time

import vlib                                    # noqa  (sets nothing; REPO comes through PYTHONPATH)
sys.path.insert(0, vlib.REPO)
import c20_sessions as S
from pony import orm

ATTRS = ['a', 'b', 'c', 'f', 'g', 'v']
FLOATS = {'f', 'g'}


def setup(path):
    S.install_trace()
    db = orm.Database('sqlite', path, create_db=True)
    class P(db.Entity):
        a = orm.Optional(int)
        b = orm.Optional(int)
        c = orm.Optional(int, optimistic=False)
        f = orm.Optional(float)
        g = orm.Optional(float, optimistic=True)
        v = orm.Optional(int, volatile=True)
    db.generate_mapping(create_tables=True)
    with orm.db_session:
        P(id=1)
    return db, P


def norm(x):
    if x is None: return None
    if isinstance(x, float):
        if x != int(x): raise ValueError('non-integral float %r' % x)
        return int(x)
    return x


def pyval(name, v):
    if v is None: return None
    return float(v) if name in FLOATS else v


def run_case(db, P, raw, case, workers):
    n = len(case['progs'])
    raw.execute('UPDATE P SET %s WHERE id = 1' % ', '.join('%s = ?' % a for a in ATTRS), [pyval(a, v) for a, v in zip(ATTRS, case['db0'])])
    raw.commit()
    def row():
        r = raw.execute('SELECT %s FROM P WHERE id = 1' % ', '.join(ATTRS)).fetchone()
        return [norm(x) for x in r]
    while len(workers) < n: workers.append(S.Worker('S%d' % len(workers)))
    sessions = [S.Session(workers[i], orm) for i in range(n)]
    for s in sessions: s.begin()
    pcs = [0] * n
    status = ['A'] * n
    events = []
    other = []

    def finish(i, exc, before, t0):
        # classify the end of session i; UPDATE statements captured on its thread since t0
        ups = [S.parse_update(sql) for t, sql in S.TRACE[t0:] if t == workers[i].name]
        ups = [u for u in ups if u is not None]
        if exc is None: code = 'C'
        elif type(exc).__name__ == 'OptimisticCheckError': code = 1
        elif type(exc).__name__ == 'TypeError': code = 2
        else:
            code = 9; other.append('%s: %s' % (type(exc).__name__, str(exc)[:300]))
        for k, (table, sets, wh) in enumerate(ups):
            assert table == 'P' and wh[0] == ('id', 1), (table, wh)
            applied = not (code == 1 and k == len(ups) - 1)
            events.append(['upd', i, [[ATTRS.index(c), v] for c, v in sets], [[ATTRS.index(c), v] for c, v in wh[1:]], applied])
        status[i] = code
        events.append(['end', i, code, before, row()])

    for i in case['sched']:
        if status[i] != 'A' or pcs[i] >= len(case['progs'][i]): continue
        op = case['progs'][i][pcs[i]]; pcs[i] += 1
        sess = sessions[i]
        before = row()
        t0 = len(S.TRACE)
        if op[0] == 'R':
            name = ATTRS[op[1]]
            r = sess.do(lambda: getattr(P[1], name))
            if r[0] == 'ok': events.append(['obs', i, op[1], norm(r[1])])
            else: finish(i, r[1], before, t0)
        elif op[0] == 'W' and op[2][0] == 'C':
            name, v = ATTRS[op[1]], pyval(ATTRS[op[1]], op[2][1])
            r = sess.do(lambda: setattr(P[1], name, v))
            if r[0] != 'ok': finish(i, r[1], before, t0)
        elif op[0] == 'W':
            name, src, d = ATTRS[op[1]], ATTRS[op[2][1]], op[2][2]
            seen = []
            def f():
                obj = P[1]
                x = getattr(obj, src)
                seen.append(x)
                setattr(obj, name, x + d)
            r = sess.do(f)
            if seen: events.append(['obs', i, op[2][1], norm(seen[0])])
            if r[0] != 'ok': finish(i, r[1], before, t0)
        elif op[0] == 'K':
            exc = sess.leave(None)
            finish(i, exc, before, t0)
        else:
            raise ValueError(op)
    for i, s in enumerate(sessions):
        if s.alive: s.abort()
    locked = db.provider.transaction_lock.locked()
    return {'final': row(), 'status': status, 'events': events, 'other': other, 'lock_left_held': locked}


def main():
    payload = json.load(sys.stdin)
    tmp = tempfile.mkdtemp(prefix='c20-', dir=os.environ.get('VERIF_TMP', '/tmp'))
    out = {'results': [], 'stuck': None}
    try:
        db, P = setup(os.path.join(tmp, 'c20.sqlite'))
        raw = sqlite3.connect(os.path.join(tmp, 'c20.sqlite'), timeout=5)
        workers = []
        t0 = time.time()
        for k, case in enumerate(payload['cases']):
            del S.TRACE[:]
            try:
                out['results'].append(run_case(db, P, raw, case, workers))
            except S.Stuck as e:
                out['stuck'] = {'case': k, 'what': str(e)}
                break
        out['seconds'] = round(time.time() - t0, 2)
    except BaseException as e:
        import traceback
        out['error'] = '%s: %s\n%s' % (type(e).__name__, e, traceback.format_exc()[-3000:])
    finally:
        sys.stdout.write('\n@@JSON@@' + json.dumps(out))
        sys.stdout.flush()
        shutil.rmtree(tmp, ignore_errors=True)
        os._exit(0)          # worker threads are daemons; a stuck one must not keep the process alive


if __name__ == '__main__':
    main()
