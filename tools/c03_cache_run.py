"""Driver for vlib.run_impl: the short-lived-code-object sweep of tools/c03_cache.py in a fresh interpreter (so that the stale
cache entries a broken decompile() cache leaves behind cannot disturb the other sweeps of the check).  JSON in: {n, start}."""
import json, sys
import c03_cache as CK

req = json.load(sys.stdin)
n_done, n_trees, fail, stats = CK.sweep(int(req['n']), int(req.get('start', 0)))
print('\n@@JSON@@' + json.dumps({'objects': n_done, 'trees': n_trees, 'fail': fail, 'stats': stats}))
