"""C12, relationship census (implementation side): both ends agree for the relationship shapes the history fuzzer does not generate.

Fixed scenarios through the public API only (`x in y.coll`, `y.ref is x`), each checked right after the change, after flush() and
after reloading in a new db_session: composite primary keys that contain a relationship, self-referencing many-to-one, symmetric
many-to-many (`friends`), symmetric one-to-one (`spouse`), a relationship declared on a base class used through a subclass.

Script protocol (vlib.run_impl): {"cases": [name...] | null} -> {"results": [{"case", "ok", "detail"}]}
"""
import json, os, sys, tempfile, shutil, warnings

warnings.simplefilter('ignore')
from pony import orm


class Problems(list):
    def check(self, cond, text):
        if not cond: self.append(text)


def phases(db, body, verify):
    """body() makes the change inside a session; verify(P, phase) is evaluated before the flush, after it, and in a new session."""
    P = Problems()
    with orm.db_session:
        body()
        verify(P, 'in memory')
        orm.flush()
        verify(P, 'after flush')
    with orm.db_session:
        verify(P, 'reloaded')
    return P


def case_composite_pk_with_relationship(db):
    class S(db.Entity):
        id = orm.PrimaryKey(int)
        marks = orm.Set('M')
    class M(db.Entity):
        s = orm.Required(S)
        n = orm.Required(int)
        orm.PrimaryKey(s, n)
    db.generate_mapping(create_tables=True)
    def body():
        s1 = S(id=1); s2 = S(id=2)
        M(s=s1, n=1); M(s=s1, n=2); M(s=s2, n=1)
    def verify(P, ph):
        s1, s2 = S[1], S[2]
        P.check(set(m.n for m in s1.marks) == {1, 2}, '%s: S[1].marks = %r, expected the marks 1, 2' % (ph, sorted(m.n for m in s1.marks)))
        P.check(M[s1, 1] in s1.marks and M[s2, 1] in s2.marks, '%s: a mark is not in the collection of its student' % ph)
        P.check(s1.marks.count() == 2 and s2.marks.count() == 1, '%s: counts %r' % (ph, (s1.marks.count(), s2.marks.count())))
    P = phases(db, body, verify)
    with orm.db_session:
        M[S[1], 2].delete()
        P.check(set(m.n for m in S[1].marks) == {1}, 'after delete: S[1].marks = %r' % sorted(m.n for m in S[1].marks))
    return P


def case_two_relationships_in_pk(db):
    class St(db.Entity):
        id = orm.PrimaryKey(int)
        marks = orm.Set('Mk')
    class Sub(db.Entity):
        id = orm.PrimaryKey(int)
        marks = orm.Set('Mk')
    class Mk(db.Entity):
        st = orm.Required(St)
        sub = orm.Required(Sub)
        v = orm.Optional(int)
        orm.PrimaryKey(st, sub)
    db.generate_mapping(create_tables=True)
    def body():
        a = St(id=1); b = Sub(id=1); c = Sub(id=2)
        Mk(st=a, sub=b, v=5); Mk(st=a, sub=c)
    def verify(P, ph):
        a, b, c = St[1], Sub[1], Sub[2]
        P.check(len(a.marks) == 2, '%s: St[1].marks has %d members, expected 2' % (ph, len(a.marks)))
        P.check(Mk[a, b] in a.marks and Mk[a, b] in b.marks and Mk[a, c] in c.marks, '%s: a mark is missing from a collection of its key objects' % ph)
    return phases(db, body, verify)


def case_self_many_to_one(db):
    class N(db.Entity):
        id = orm.PrimaryKey(int)
        parent = orm.Optional('N', reverse='children')
        children = orm.Set('N', reverse='parent')
    db.generate_mapping(create_tables=True)
    def body():
        r = N(id=1); a = N(id=2, parent=r); b = N(id=3, parent=r); c = N(id=4, parent=a)
        b.parent = a
    def verify(P, ph):
        r, a, b, c = N[1], N[2], N[3], N[4]
        P.check(set(x.id for x in r.children) == {2}, '%s: N[1].children = %r, expected [2]' % (ph, sorted(x.id for x in r.children)))
        P.check(set(x.id for x in a.children) == {3, 4}, '%s: N[2].children = %r, expected [3, 4]' % (ph, sorted(x.id for x in a.children)))
        P.check(b.parent is a and c.parent is a and a.parent is r, '%s: a parent reference is wrong' % ph)
    P = phases(db, body, verify)
    with orm.db_session:
        N[2].delete()
        P.check(N[3].parent is None and N[4].parent is None, 'after deleting N[2]: children keep the reference')
        P.check(set(x.id for x in N[1].children) == set(), 'after deleting N[2]: N[1].children = %r' % sorted(x.id for x in N[1].children))
    return P


def case_symmetric_m2m(db):
    class Pn(db.Entity):
        id = orm.PrimaryKey(int)
        friends = orm.Set('Pn', reverse='friends')
    db.generate_mapping(create_tables=True)
    def body():
        a = Pn(id=1); b = Pn(id=2); c = Pn(id=3)
        a.friends.add(b); a.friends.add(c); c.friends.remove(a)
    def verify(P, ph):
        a, b, c = Pn[1], Pn[2], Pn[3]
        P.check(set(x.id for x in a.friends) == {2}, '%s: Pn[1].friends = %r, expected [2]' % (ph, sorted(x.id for x in a.friends)))
        P.check(set(x.id for x in b.friends) == {1}, '%s: Pn[2].friends = %r, expected [1]' % (ph, sorted(x.id for x in b.friends)))
        P.check(len(c.friends) == 0, '%s: Pn[3].friends = %r, expected []' % (ph, sorted(x.id for x in c.friends)))
    return phases(db, body, verify)


def case_symmetric_one_to_one(db):
    class Q(db.Entity):
        id = orm.PrimaryKey(int)
        spouse = orm.Optional('Q', reverse='spouse')
    db.generate_mapping(create_tables=True)
    def body():
        a = Q(id=1); b = Q(id=2); c = Q(id=3)
        orm.flush()            # two new objects that refer to each other cannot be inserted in one flush (documented limitation)
        a.spouse = b
        a.spouse = c
    def verify(P, ph):
        a, b, c = Q[1], Q[2], Q[3]
        P.check(a.spouse is c and c.spouse is a, '%s: Q[1].spouse / Q[3].spouse = %r / %r' % (ph, a.spouse, c.spouse))
        P.check(b.spouse is None, '%s: Q[2].spouse = %r, expected None' % (ph, b.spouse))
    return phases(db, body, verify)


def case_relationship_through_subclass(db):
    class Owner(db.Entity):
        id = orm.PrimaryKey(int)
        things = orm.Set('Thing')
    class Thing(db.Entity):
        id = orm.PrimaryKey(int)
        owner = orm.Optional(Owner)
    class Special(Thing):
        extra = orm.Optional(int)
    db.generate_mapping(create_tables=True)
    def body():
        o = Owner(id=1); p = Owner(id=2)
        Thing(id=1, owner=o); s = Special(id=2, owner=o, extra=3)
        s.owner = p
    def verify(P, ph):
        o, p = Owner[1], Owner[2]
        P.check(set(t.id for t in o.things) == {1}, '%s: Owner[1].things = %r, expected [1]' % (ph, sorted(t.id for t in o.things)))
        P.check(set(t.id for t in p.things) == {2} and isinstance(Thing[2], Special), '%s: Owner[2].things = %r' % (ph, sorted(t.id for t in p.things)))
        P.check(Thing[2].owner is p, '%s: Special[2].owner = %r' % (ph, Thing[2].owner))
    return phases(db, body, verify)


CASES = {'composite-pk-with-relationship': case_composite_pk_with_relationship, 'two-relationships-in-pk': case_two_relationships_in_pk,
         'self-many-to-one': case_self_many_to_one, 'symmetric-many-to-many': case_symmetric_m2m,
         'symmetric-one-to-one': case_symmetric_one_to_one, 'relationship-through-subclass': case_relationship_through_subclass}


def run_case(name, tmpdir):
    path = os.path.join(tmpdir, name + '.sqlite')
    if os.path.exists(path): os.remove(path)
    db = orm.Database('sqlite', path, create_db=True)
    problems = CASES[name](db)
    try: db.disconnect()
    except Exception: pass
    return {'case': name, 'ok': not problems, 'detail': '; '.join(problems)}


def main():
    payload = json.load(sys.stdin)
    names = payload.get('cases') or sorted(CASES)
    tmpdir = tempfile.mkdtemp(prefix='c12-census-')
    out = []
    try:
        for n in names:
            try: out.append(run_case(n, tmpdir))
            except Exception:
                import traceback
                out.append({'case': n, 'ok': False, 'detail': 'scenario raised: ' + traceback.format_exc()[-800:]})
            finally:
                try: orm.rollback()
                except Exception: pass
    finally:
        shutil.rmtree(tmpdir, ignore_errors=True)
    sys.stdout.write('\n@@JSON@@' + json.dumps({'results': out}))


if __name__ == '__main__':
    main()
