"""C36 implementation driver: real os.fork() at chosen points of a parent's session history on a file-backed SQLite DB.

stdin: {"dbdir": path, "scenarios": [{"before": [op..], "child": [op..], "after": [op..]}, ...]}
stdout: "\n@@JSON@@" + {"results": [...]}

ops: "begin" | "query" | "query_fail" | "write" | "end_commit" | "end_rollback" | "disconnect"
  begin        db_session.__enter__()
  query        sorted markers seen by `select(t.marker for t in T)` (goes through cache.prepare_connection_for_query_execution)
  query_fail   the same statement while the DB-API connect is made to fail (only matters if the session has to connect)
  write        T(marker=<fresh>) ; flush()   (BEGIN IMMEDIATE + INSERT on the session's connection)
  end_commit   db_session.__exit__()                      end_rollback   rollback(); db_session.__exit__()
  disconnect   db.disconnect()

Every DB-API connection Pony opens is wrapped (the module global `sqlite` of pony.orm.dbproviders.sqlite is replaced by a proxy
from the outside): each connect / use (cursor, execute, commit, rollback, create_function, ...) / close is logged with the
connection's identity = (role of the creating process, per-process creation counter).  The child sends its log, its pool
bookkeeping and what it saw through a pipe and leaves with os._exit; the parent always reaps it (hard timeout, SIGKILL).
"""
import json, os, select, signal, sys, time

CHILD_TIMEOUT = 30.0


def main():
    payload = json.load(sys.stdin)
    import sqlite3
    from pony import orm
    from pony.orm import core
    import pony.orm.dbproviders.sqlite as psqlite
    from pony.orm import dbapiprovider

    state = {'log': [], 'counter': 0, 'parent_pid': os.getpid(), 'pool_connect_calls': 0, 'q': 0}

    def role(pid): return None if pid is None else ('P' if pid == state['parent_pid'] else 'C')
    def me(): return role(os.getpid())

    class ConnProxy(object):
        def __init__(self, real, ident):
            object.__setattr__(self, '_real', real)
            object.__setattr__(self, '_ident', ident)
        def _log(self, what):
            state['log'].append([what, me(), self._ident[0], self._ident[1]])
        def cursor(self, *a, **k):
            self._log('use'); return self._real.cursor(*a, **k)
        def execute(self, *a, **k):
            self._log('use'); return self._real.execute(*a, **k)
        def executemany(self, *a, **k):
            self._log('use'); return self._real.executemany(*a, **k)
        def commit(self):
            self._log('use'); return self._real.commit()
        def rollback(self):
            self._log('use'); return self._real.rollback()
        def create_function(self, *a, **k):
            self._log('use'); return self._real.create_function(*a, **k)
        def close(self):
            object.__setattr__(self, '_closed', True)
            self._log('close'); return self._real.close()
        def __del__(self):
            # the last reference to a connection object goes away: the DB-API connection is closed by its destructor
            # (this is what forked_connections exists to prevent for inherited connections)
            try:
                if not self.__dict__.get('_closed'): self._log('close')
            except Exception: pass
        def __getattr__(self, n): return getattr(self._real, n)
        def __setattr__(self, n, v): setattr(self._real, n, v)

    class SqliteProxy(object):
        def __getattr__(self, n): return getattr(sqlite3, n)
        def connect(self, *a, **k):
            if state.get('fail_next_connect'):
                # fault injection from the harness side: the DB-API connect of this statement fails (as a missing file / refused server would)
                state['fail_next_connect'] = False
                state['connects_failed'] = state.get('connects_failed', 0) + 1
                raise sqlite3.OperationalError('injected: unable to open database file')
            real = sqlite3.connect(*a, **k)
            state['counter'] += 1
            ident = (me(), state['counter'])
            state['log'].append(['create', me(), ident[0], ident[1]])
            return ConnProxy(real, ident)
    psqlite.sqlite = SqliteProxy()

    # count calls of Pool.connect (the only place that compares pids)
    orig_connect = dbapiprovider.Pool.connect
    def counting_connect(pool):
        state['pool_connect_calls'] += 1
        return orig_connect(pool)
    dbapiprovider.Pool.connect = counting_connect

    def ident_of(con):
        return None if con is None else list(con._ident)

    def run_ops(db, T, ops, marker_base):
        seen = []
        n = [marker_base]
        for op in ops:
            start = len(state['log'])
            res = None
            try:
                if op == 'begin': orm.db_session.__enter__()
                elif op == 'query':
                    state['q'] += 1; lim = -state['q']       # a different parameter each time: never answered from the query-result cache
                    res = sorted(orm.select(t.marker for t in T if t.marker > lim)[:])
                elif op == 'query_fail':
                    state['q'] += 1; lim = -state['q']
                    state['fail_next_connect'] = True
                    try: res = sorted(orm.select(t.marker for t in T if t.marker > lim)[:])
                    finally: state['fail_next_connect'] = False       # not consumed when the session already had its connection
                elif op == 'write':
                    n[0] += 1
                    T(marker=n[0]); orm.flush(); res = n[0]
                elif op == 'end_commit': orm.db_session.__exit__()
                elif op == 'end_rollback':
                    orm.rollback(); orm.db_session.__exit__()
                elif op == 'disconnect': db.disconnect()
                else: raise ValueError(op)
            except Exception as e:
                res = 'EXC:%s' % type(e).__name__
            cache = core.local.db2cache.get(db)
            seen.append({'op': op, 'result': res, 'events': state['log'][start:],
                         'cache_con': ident_of(cache.connection) if cache is not None else None})
        return seen

    def bookkeeping(db):
        pool = db.provider.pool
        con = getattr(pool, 'con', None)
        return {'pool_con': ident_of(con), 'pool_pid': role(pool.pid) if getattr(pool, 'pid', None) is not None else None,
                'forked': [[list(c._ident), role(p)] for c, p in dbapiprovider.Pool.forked_connections],
                'counter': core.local.db_context_counter}

    path = os.path.join(payload['dbdir'], 'c36-%d.sqlite' % os.getpid())
    for suffix in ('', '-journal', '-wal', '-shm'):
        if os.path.exists(path + suffix): os.remove(path + suffix)
    try:
        db = orm.Database()
        class T(db.Entity):
            marker = orm.Required(int)
        db.bind('sqlite', path, create_db=True)
        db.generate_mapping(create_tables=True)
        with orm.db_session: T(marker=1)
        with orm.db_session: db.execute('delete from T')
    except Exception as e:
        # the provider cannot even run two plain sessions: report it for every scenario instead of crashing the harness
        msg = '%s: %s' % (type(e).__name__, e)
        sys.stdout.write('\n@@JSON@@' + json.dumps({'results': [{'scenario': sc, 'setup_error': msg} for sc in payload['scenarios']], 'info': {}}))
        return
    bind_events = list(state['log'])

    results = []
    for k, sc in enumerate(payload['scenarios']):
        # fresh bookkeeping: no pooled connection, nothing parked, serial 0, empty table
        with orm.db_session: db.execute('delete from T')
        db.disconnect()
        del dbapiprovider.Pool.forked_connections[:]
        state['log'] = []; state['counter'] = 0; state['pool_connect_calls'] = 0
        out = {'scenario': sc}
        out['before'] = run_ops(db, T, sc['before'], 100)
        out['at_fork'] = bookkeeping(db)
        calls_before = state['pool_connect_calls']
        r, w = os.pipe()
        sys.stdout.flush(); sys.stderr.flush()
        pid = os.fork()
        if pid == 0:
            # ------------------------------------------------------------ child
            code = 0
            try:
                os.close(r)
                signal.alarm(int(CHILD_TIMEOUT))
                state['log'] = []
                seen = run_ops(db, T, sc['child'], 200)
                msg = {'ops': seen, 'book': bookkeeping(db), 'pool_connect_calls': state['pool_connect_calls'] - calls_before,
                       'pid_differs': os.getpid() != state['parent_pid']}
                data = json.dumps(msg).encode()
                while data:
                    nw = os.write(w, data); data = data[nw:]
                os.close(w)
            except BaseException as e:
                try: os.write(w, json.dumps({'child_error': '%s: %s' % (type(e).__name__, e)}).encode())
                except Exception: pass
                code = 3
            finally:
                os._exit(code)
        # ---------------------------------------------------------------- parent
        os.close(w)
        buf = b''
        deadline = time.time() + CHILD_TIMEOUT + 5
        timed_out = False
        while True:
            left = deadline - time.time()
            if left <= 0:
                timed_out = True; break
            rl, _, _ = select.select([r], [], [], left)
            if not rl:
                timed_out = True; break
            chunk = os.read(r, 65536)
            if not chunk: break
            buf += chunk
        os.close(r)
        if timed_out:
            try: os.kill(pid, signal.SIGKILL)
            except OSError: pass
        # always reap
        status = None
        t_end = time.time() + 10
        while time.time() < t_end:
            wp, st = os.waitpid(pid, os.WNOHANG)
            if wp == pid:
                status = st; break
            time.sleep(0.01)
        if status is None:
            try: os.kill(pid, signal.SIGKILL)
            except OSError: pass
            wp, status = os.waitpid(pid, 0)
        out['child_status'] = status
        out['child_timed_out'] = timed_out
        try: out['child'] = json.loads(buf.decode()) if buf else {'child_error': 'no data'}
        except ValueError: out['child'] = {'child_error': 'bad json'}
        state['log'] = []
        out['after'] = run_ops(db, T, sc['after'], 300)
        out['parent_end'] = bookkeeping(db)
        out['parent_pool_connect_calls_after_fork'] = state['pool_connect_calls'] - calls_before
        # clean up whatever the scenario left open
        try:
            if core.local.db_context_counter:
                orm.rollback(); core.local.db_context_counter = 0; core.local.db_session = None
            db.disconnect()
        except Exception:
            pass
        results.append(out)
    try: db.disconnect()
    except Exception: pass
    for suffix in ('', '-journal', '-wal', '-shm'):
        try: os.remove(path + suffix)
        except OSError: pass

    sys.stdout.write('\n@@JSON@@' + json.dumps({'results': results, 'info': {'sqlite': sqlite3.sqlite_version, 'bind_events': len(bind_events)}}))


if __name__ == '__main__':
    main()
