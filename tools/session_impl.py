"""Session-history fuzzer, implementation side: runs (schema, ops) of tools/session_fuzz.py on real Pony + SQLite.

Run as a script through vlib.run_impl('session_impl.py', payload) (fresh interpreter, PYTHONPATH=/repo, PYTHONHASHSEED=0) or import it.

payload {"mode": "gen", "seeds": [int...], "length": [lo, hi], "malformed": 0.15, "oracle": true, "stage": 1}
            -> {"histories": [History...]}          one generated history per seed (ops are generated online, see OpGen)
        {"mode": "run", "cases": [{"schema":..., "ops": [...]}...], "oracle": true}
            -> {"histories": [History...]}          fixed op lists (replays, shrinking)
History {"seed", "schema", "ops", "results": [res per op], "dumps": [dump per commit/rollback/newsession op, + one final],
         "oracle": [{"check", "op_index", "op", "detail"}...]   property-oracle failures (C11 indexes / identity, C12 both ends,
                                                                 C14 committed uniqueness + failed commit leaves the DB unchanged,
                                                                 queue: created/modified objects are queued for saving;
                                                                 C09 committed rows / C10 reads against the logical reference state of session_spec.py),
         "sqlite": version}

Runner(schema, path).run_op(op) -> res; .dump() -> dump; .finish().  The handle table, result canonicalisation and dump format are
described at the top of session_fuzz.py.
"""
import json, os, random, shutil, sqlite3, sys, tempfile, warnings

import session_fuzz as sf
import session_spec

warnings.simplefilter('ignore')

from pony import orm
from pony.orm import core

DEL_STATUSES = ('marked_to_delete', 'deleted', 'cancelled')


def m2m_table(i, j, a):
    lo, hi = sorted([(i, j), (a['tgt'], a['rev'])])
    return 'L_%d_%d_%d_%d' % (lo + hi)


def m2m_links(schema):
    """[(table, (e, a), (e2, a2))] for every many-to-many relationship, canonical side first."""
    out = []
    for i, e in enumerate(schema['ents']):
        for j, a in enumerate(e['attrs']):
            if a['k'] == 'set' and schema['ents'][a['tgt']]['attrs'][a['rev']]['k'] == 'set' and (i, j) < (a['tgt'], a['rev']):
                out.append((m2m_table(i, j, a), (i, j), (a['tgt'], a['rev'])))
    return out


def build(schema, path):
    db = orm.Database('sqlite', path, create_db=True)
    ents = []
    for i, e in enumerate(schema['ents']):
        d = {}
        d['id'] = orm.PrimaryKey(int, auto=True) if e['auto'] else orm.PrimaryKey(int)
        for j, a in enumerate(e['attrs']):
            name = 'a%d' % j
            cls = orm.Required if a['req'] else orm.Optional
            if a['k'] == 'int': d[name] = cls(int, unique=True) if a['uniq'] else cls(int)
            elif a['k'] == 'str': d[name] = cls(str, unique=True) if a['uniq'] else cls(str)
            elif a['k'] == 'ref': d[name] = cls('E%d' % a['tgt'], reverse='a%d' % a['rev'])
            elif a['k'] == 'set' and schema['ents'][a['tgt']]['attrs'][a['rev']]['k'] == 'set':      # many-to-many (stage 2)
                d[name] = orm.Set('E%d' % a['tgt'], reverse='a%d' % a['rev'], table=m2m_table(i, j, a))
            elif a['k'] == 'set': d[name] = orm.Set('E%d' % a['tgt'], reverse='a%d' % a['rev'])
            else: raise ValueError(a)
        if e.get('ckeys'):
            d['_indexes_'] = [core.Index(*[d['a%d' % j] for j in ck], is_pk=False, is_unique=True) for ck in e['ckeys']]
        ents.append(type('E%d' % i, (db.Entity,), d))
    db.generate_mapping(create_tables=True)
    return db, ents


class Runner(object):
    def __init__(self, schema, path, oracle=True):
        self.schema, self.path, self.oracle = schema, path, oracle
        self.db, self.ents = build(schema, path)
        self.handles = []
        self.cache = None
        self.violations = []
        self.op_index = -1
        self.last_dump = None
        self.in_session = False
        self.spec = session_spec.Spec(schema)
        self.handles_before = []
        self.finish_error = None
        self.finished = False
        self.begin()

    # ---- session structure
    def begin(self):
        orm.db_session.__enter__()
        self.in_session = True
        self.handles = []
        self.cache = self.db._get_cache()

    def sync_cache(self):
        cur = core.local.db2cache.get(self.db)
        if cur is not self.cache or cur is None or not cur.is_alive:
            self.handles = []
            self.cache = self.db._get_cache()
            return True
        return False

    def finish(self):
        first = not self.finished
        self.finished = True
        try:
            if self.in_session:
                self.in_session = False
                orm.db_session.__exit__(None, None, None)
        except Exception as e:
            if first: self.finish_error = type(e).__name__
        finally:
            try: orm.rollback()
            except Exception: pass
            core.local.db_session = None
            core.local.db_context_counter = 0
            try: self.db.disconnect()
            except Exception: pass

    # ---- handles
    def handle_of(self, obj):
        for i, o in enumerate(self.handles):
            if o is obj: return i
        self.handles.append(obj)
        return len(self.handles) - 1

    @staticmethod
    def sort_key(o):
        return (1, o._newid_ or 0) if o._pkval_ is None else (0, o._pkval_)

    def objs_res(self, items):
        return ['objs', [self.handle_of(o) for o in sorted(items, key=self.sort_key)]]

    def ent_index(self, obj):
        return self.ents.index(type(obj))

    def arg(self, x):
        if x is None or isinstance(x, (int, str)): return x
        if 'h' in x: return self.handles[x['h']]
        return [self.handles[h] for h in x['hs']]

    def arg_handles_ok(self, x):
        if isinstance(x, dict):
            hs = [x['h']] if 'h' in x else x['hs']
            return all(0 <= h < len(self.handles) for h in hs)
        return True

    # ---- one op
    def run_op(self, op):
        self.op_index += 1
        self.handles_before = list(self.handles)
        try:
            res = self._run(op)
        except BaseException as e:
            if isinstance(e, (KeyboardInterrupt, SystemExit, MemoryError)): raise
            res = ['err', sf.EXC2KIND.get(type(e).__name__, 'Other')]
            if res[1] == 'Other': res.append(type(e).__name__)
        changed = self.sync_cache()
        if self.oracle:
            self.check_oracles(op, res)
            self.spec_step(op, res, changed)
        return res

    # ---- C09 / C10: the logical reference state (session_spec.py)
    def spec_step(self, op, res, changed):
        try:
            self.spec.step(op, res, self, changed)
        except Exception as e:
            import traceback
            self.spec.stopped = 'internal error'
            self.violation('c09-spec-internal-error', op, traceback.format_exc()[-600:])
        for check, detail in self.spec.violations:
            self.violation(check, op, detail + ' (op result %s)' % (res,))
        self.spec.violations = []

    def spec_dump(self, op, res, d):
        try:
            v = self.spec.check_dump(d, self.dump_links(), self.has_column)
        except Exception as e:
            import traceback
            self.spec.stopped = 'internal error'
            v = ('c09-spec-internal-error', traceback.format_exc()[-600:])
        if v is not None: self.violation(v[0], op, v[1])

    def _run(self, op):
        k = op[0]; S = self.schema['ents']
        if k == 'new':
            e, pk, kw = op[1], op[2], op[3]
            if not all(self.arg_handles_ok(v) for _, v in kw): return ['err', 'BadHandle']
            if any(j >= len(S[e]['attrs']) for j, _ in kw): return ['err', 'BadAttr']
            kwargs = {'a%d' % j: self.arg(v) for j, v in kw}
            if pk is not None: kwargs['id'] = pk
            return ['obj', self.handle_of(self.ents[e](**kwargs))]
        if k in ('flush', 'commit', 'rollback'):
            getattr(orm, k)()
            return ['ok']
        if k == 'newsession':
            self.in_session = False
            try: orm.db_session.__exit__(None, None, None)
            finally:
                core.local.db_session = None
                core.local.db_context_counter = 0
                try: orm.rollback()
                except Exception: pass
                self.begin()
            return ['ok']
        if k == 'getpk':
            return ['obj', self.handle_of(self.ents[op[1]][op[2]])]
        if k in ('getby', 'select'):
            e, j, v = op[1], op[2], op[3]
            if j >= len(S[e]['attrs']): return ['err', 'BadAttr']
            if not self.arg_handles_ok(v): return ['err', 'BadHandle']
            kw = {'a%d' % j: self.arg(v)}
            if k == 'getby':
                o = self.ents[e].get(**kw)
                return ['none'] if o is None else ['obj', self.handle_of(o)]
            return self.objs_res(self.ents[e].select(**kw)[:])
        if k == 'selectall':
            return self.objs_res(self.ents[op[1]].select()[:])
        # ops on a handle
        h = op[1]
        if not (0 <= h < len(self.handles)): return ['err', 'BadHandle']
        obj = self.handles[h]; e = self.ent_index(obj); attrs = S[e]['attrs']
        if k == 'del':
            obj.delete(); return ['ok']
        if k == 'pk':
            return ['val', obj.id]
        if k == 'flushobj':
            obj.flush(); return ['ok']
        if k == 'setmany':
            kw = op[2]
            if any(j >= len(attrs) for j, _ in kw): return ['err', 'BadAttr']
            if not all(self.arg_handles_ok(v) for _, v in kw): return ['err', 'BadHandle']
            obj.set(**{'a%d' % j: self.arg(v) for j, v in kw}); return ['ok']
        j = op[2]
        if j >= len(attrs): return ['err', 'BadAttr']
        a = attrs[j]; name = 'a%d' % j
        if k == 'read':
            if a['k'] == 'set': return self.objs_res(set(getattr(obj, name)))
            v = getattr(obj, name)
            if a['k'] == 'ref': return ['none'] if v is None else ['obj', self.handle_of(v)]
            return ['val', v]
        if k == 'set':
            if a['k'] == 'set': return ['err', 'BadAttr']
            if not self.arg_handles_ok(op[3]): return ['err', 'BadHandle']
            setattr(obj, name, self.arg(op[3])); return ['ok']
        if a['k'] != 'set': return ['err', 'BadAttr']
        if k == 'count': return ['int', getattr(obj, name).count()]
        if k == 'isempty': return ['bool', getattr(obj, name).is_empty()]
        if k == 'contains':
            if not (0 <= op[3] < len(self.handles)): return ['err', 'BadHandle']
            return ['bool', self.handles[op[3]] in getattr(obj, name)]
        hs = op[3]
        if not all(0 <= x < len(self.handles) for x in hs): return ['err', 'BadHandle']
        items = [self.handles[x] for x in hs]
        if k == 'add': getattr(obj, name).add(items)
        elif k == 'remove': getattr(obj, name).remove(items)
        elif k == 'assign': setattr(obj, name, items)
        else: raise ValueError(op)
        return ['ok']

    # ---- database dump through a separate connection
    def dump(self):
        con = sqlite3.connect(self.path, timeout=5)
        try:
            out = []
            for i, e in enumerate(self.schema['ents']):
                cols = ['id'] + ['a%d' % j for j, a in enumerate(e['attrs']) if a['k'] != 'set' and self.has_column(i, j)]
                rows = con.execute('select %s from "E%d" order by id' % (', '.join('"%s"' % c for c in cols), i)).fetchall()
                out.append([[r[0], list(r[1:])] for r in rows])
            return out
        finally:
            con.close()

    def has_column(self, i, j):
        """False for the side of a one-to-one relationship that holds no column (stage 2)."""
        a = self.schema['ents'][i]['attrs'][j]
        if a['k'] != 'ref' or self.schema['ents'][a['tgt']]['attrs'][a['rev']]['k'] != 'ref': return True
        return bool(self.ents[i]._adict_['a%d' % j].columns)

    def dump_links(self):
        """Rows of the many-to-many tables (stage 2): {table: sorted [(id of canonical side, id of other side)]}."""
        links = m2m_links(self.schema)
        if not links: return {}
        con = sqlite3.connect(self.path, timeout=5)
        try:
            out = {}
            for table, (e1, a1), (e2, a2) in links:
                c1, c2 = 'e%d' % e1, 'e%d' % e2
                out[table] = sorted(tuple(r) for r in con.execute('select "%s", "%s" from "%s"' % (c1, c2, table)).fetchall())
            return out
        finally:
            con.close()

    # ---- property oracles (on the implementation alone)
    def violation(self, check, op, detail):
        self.violations.append({'check': check, 'op_index': self.op_index, 'op': op, 'detail': detail})

    def reachable(self, cache):
        """Objects the program can still get hold of: through an index, a handle, the save queue, or by navigation from those."""
        seen, todo = {}, []
        def add(o):
            if o is not None and id(o) not in seen:
                seen[id(o)] = o; todo.append(o)
        for index in list(cache.indexes.values()):
            for o in list(index.values()): add(o)
        for o in self.handles: add(o)
        for o in cache.objects_to_save: add(o)
        while todo:
            o = todo.pop()
            for attr, v in list((o._vals_ or {}).items()):
                if not attr.reverse or v is None: continue
                if attr.is_collection:
                    for x in list(v): add(x)
                elif isinstance(v, core.Entity): add(v)
        return list(seen.values())

    def check_oracles(self, op, res):
        cache = self.cache
        if cache is None or not cache.is_alive or cache.indexes is None: return
        NL = core.NOT_LOADED
        objects = self.reachable(cache)
        # C11: indexes versus attribute values, both directions
        for key, index in list(cache.indexes.items()):
            for val, obj in list(index.items()):
                st = obj._status_
                if isinstance(key, tuple) and key == obj._pk_attrs_:
                    cur = obj._pkval_; live = st not in ('deleted', 'cancelled')
                    kname = 'pk'
                elif isinstance(key, tuple):                                        # composite key (stage 2)
                    cur = tuple(obj._vals_.get(a, NL) for a in key); live = st not in DEL_STATUSES
                    kname = '(%s)' % ', '.join(a.name for a in key)
                else:
                    cur = obj._vals_.get(key, NL); live = st not in DEL_STATUSES
                    kname = key.name
                if cur != val or not live:
                    self.violation('c11-index-stale', op, 'index %s.%s[%r] -> %r whose value is %r, status %s (op result %s)' % (
                        type(obj).__name__, kname, val, obj, cur, st, res))
        for obj in objects:
            st = obj._status_
            if st not in ('deleted', 'cancelled') and obj._pkval_ is not None:
                if cache.indexes.get(obj._pk_attrs_, {}).get(obj._pkval_) is not obj:
                    self.violation('c11-index-missing', op, 'live object %r (status %s) is not in the primary-key index' % (obj, st))
            if st not in DEL_STATUSES:
                for attr in obj._simple_keys_:
                    v = obj._vals_.get(attr)
                    if v is not None and cache.indexes.get(attr, {}).get(v) is not obj:
                        self.violation('c11-index-missing', op, 'live object %r has %s=%r but the index maps that value to %r' % (
                            obj, attr.name, v, cache.indexes.get(attr, {}).get(v)))
                for attrs in obj._composite_keys_:
                    vs = tuple(obj._vals_.get(a, NL) for a in attrs)
                    if None in vs or NL in vs: continue
                    if cache.indexes.get(attrs, {}).get(vs) is not obj:
                        self.violation('c11-index-missing', op, 'live object %r has (%s)=%r but the composite index maps that value to %r' % (
                            obj, ', '.join(a.name for a in attrs), vs, cache.indexes.get(attrs, {}).get(vs)))
        # C11: two handles for one primary key
        seen = {}
        for i, o in enumerate(self.handles):
            if o._pkval_ is None or o._status_ in ('deleted', 'cancelled'): continue
            k = (type(o), o._pkval_)
            if k in seen and seen[k] is not o:
                self.violation('c11-two-objects-one-pk', op, 'handles %d and another denote distinct objects %r' % (i, o))
            seen[k] = o
        # C12: both ends
        for obj in objects:
            if obj._status_ in DEL_STATUSES: continue
            for attr in obj._attrs_:
                if not attr.reverse: continue
                if not attr.is_collection and not attr.reverse.is_collection:      # one-to-one (stage 2)
                    v = obj._vals_.get(attr)
                    if v is not None:
                        back = v._vals_.get(attr.reverse, NL)
                        if v._status_ in DEL_STATUSES or back is not obj:
                            self.violation('c12-one-to-one-not-mutual', op, '%r.%s is %r (status %s) whose %s is %r' % (
                                obj, attr.name, v, v._status_, attr.reverse.name, back))
                elif not attr.is_collection:
                    v = obj._vals_.get(attr)
                    if v is not None:
                        sd = v._vals_.get(attr.reverse)
                        if sd is None or obj not in sd:
                            self.violation('c12-ref-not-in-collection', op, '%r.%s is %r but %r.%s does not contain it (%s)' % (
                                obj, attr.name, v, v, attr.reverse.name, None if sd is None else sorted(map(repr, sd))))
                elif attr.reverse.is_collection:                                      # many-to-many (stage 2)
                    sd = obj._vals_.get(attr)
                    for item in (sd or ()):
                        back = item._vals_.get(attr.reverse)
                        if item._status_ in DEL_STATUSES or back is None or obj not in back:
                            self.violation('c12-m2m-not-mutual', op, '%r.%s contains %r (status %s) whose %s is %s' % (
                                obj, attr.name, item, item._status_, attr.reverse.name, None if back is None else sorted(map(repr, back))))
                else:
                    sd = obj._vals_.get(attr)
                    for item in (sd or ()):
                        back = item._vals_.get(attr.reverse, NL)
                        if item._status_ in DEL_STATUSES or back is not obj:
                            self.violation('c12-item-without-backref', op, '%r.%s contains %r (status %s) whose %s is %r' % (
                                obj, attr.name, item, item._status_, attr.reverse.name, back))
        # C14: two live objects of the session with one primary key or one value of a unique attribute
        keyed = {}
        for obj in objects:
            if obj._status_ in DEL_STATUSES: continue
            ks = [('id', obj._pkval_)] if obj._pkval_ is not None else []
            ks += [(attr.name, obj._vals_.get(attr)) for attr in obj._simple_keys_ if obj._vals_.get(attr) is not None]
            for attrs in obj._composite_keys_:
                vs = tuple(obj._vals_.get(a, NL) for a in attrs)
                if None not in vs and NL not in vs: ks.append(('(%s)' % ', '.join(a.name for a in attrs), vs))
            for k in ks:
                other = keyed.setdefault((type(obj),) + k, obj)
                if other is not obj:
                    self.violation('c14-session-duplicate-key', op, '%r and %r are both live with %s=%r (op result %s)' % (other, obj, k[0], k[1], res))
        # queue: objects that have to be saved are queued
        for obj in objects:
            st = obj._status_
            if st in ('created', 'modified', 'marked_to_delete'):
                pos = obj._save_pos_
                if pos is None or pos >= len(cache.objects_to_save) or cache.objects_to_save[pos] is not obj:
                    self.violation('queue-not-queued', op, '%r has status %s but is not in objects_to_save (op result %s)' % (obj, st, res))

    def check_ddl(self):
        """The tables Pony created carry the constraints the database model assumes (PRIMARY KEY on id, UNIQUE per unique attribute)."""
        con = sqlite3.connect(self.path, timeout=5)
        try:
            for i, e in enumerate(self.schema['ents']):
                info = con.execute('pragma table_info("E%d")' % i).fetchall()
                if [r[1] for r in info if r[5]] != ['id']:
                    self.violation('c14-ddl-missing-constraint', None, 'E%d: primary key columns %r' % (i, [r[1] for r in info if r[5]]))
                uniq = set(); uniq2 = set()
                for ix in con.execute('pragma index_list("E%d")' % i).fetchall():
                    if ix[2]:
                        cols = [r[2] for r in con.execute('pragma index_info("%s")' % ix[1]).fetchall()]
                        if len(cols) == 1: uniq.add(cols[0])
                        else: uniq2.add(tuple(sorted(cols)))
                for j, a in enumerate(e['attrs']):
                    if a['k'] != 'set' and a['uniq'] and 'a%d' % j not in uniq:
                        self.violation('c14-ddl-missing-constraint', None, 'E%d.a%d is unique in the model but has no UNIQUE index' % (i, j))
                for ck in e.get('ckeys', []):
                    if tuple(sorted('a%d' % j for j in ck)) not in uniq2:
                        self.violation('c14-ddl-missing-constraint', None, 'E%d: composite_key%r has no UNIQUE index' % (i, tuple(ck)))
            for table, (e1, a1), (e2, a2) in m2m_links(self.schema):
                pkcols = sorted(r[1] for r in con.execute('pragma table_info("%s")' % table).fetchall() if r[5])
                if pkcols != sorted(['e%d' % e1, 'e%d' % e2]):
                    self.violation('c14-ddl-missing-constraint', None, 'link table %s: primary key columns %r' % (table, pkcols))
        finally:
            con.close()

    def check_dump(self, op, res, d):
        if self.last_dump is None and not getattr(self, 'ddl_checked', False):
            self.ddl_checked = True
            self.check_ddl()
        for i, tab in enumerate(d):
            e = self.schema['ents'][i]
            pks = [r[0] for r in tab]
            if len(set(pks)) != len(pks): self.violation('c14-duplicate-pk', op, 'E%d: %r' % (i, pks))
            cols = [a for j, a in enumerate(e['attrs']) if a['k'] != 'set' and self.has_column(i, j)]
            colpos = {}
            for j, a in enumerate(e['attrs']):
                if a['k'] != 'set' and self.has_column(i, j): colpos[j] = len(colpos)
            for ck in e.get('ckeys', []):
                vs = [tuple(r[1][colpos[j]] for j in ck) for r in tab]
                vs = [v for v in vs if None not in v]
                if len(set(vs)) != len(vs): self.violation('c14-duplicate-unique', op, 'E%d composite key %r: %r' % (i, tuple(ck), vs))
            for c, a in enumerate(cols):
                if a['uniq']:
                    vs = [r[1][c] for r in tab if r[1][c] is not None]
                    if len(set(vs)) != len(vs): self.violation('c14-duplicate-unique', op, 'E%d column %d: %r' % (i, c, vs))
                if a['k'] == 'ref':
                    tgt = set(r[0] for r in d[a['tgt']])
                    for r in tab:
                        if r[1][c] is not None and r[1][c] not in tgt:
                            self.violation('c15-dangling-reference', op, 'E%d[%r] column %d -> %r' % (i, r[0], c, r[1][c]))
        for table, rows in self.dump_links().items():
            if len(set(rows)) != len(rows): self.violation('c14-duplicate-link', op, 'table %s: %r' % (table, rows))
        if op is not None and res[0] == 'err' and self.last_dump is not None and d != self.last_dump:
            self.violation('c14-failed-commit-changed-db', op, 'commit raised %s but the database changed' % res[1])
        self.last_dump = d
        if op is None:
            # end of the history: leaving the db_session commits (or rolls back when the commit failed)
            self.spec.step(['newsession'], ['err', self.finish_error] if self.finish_error else ['ok'], self, True)
        self.spec_dump(op, res, d)


def run_history(schema, ops=None, gen=None, length=0, oracle=True, tmpdir=None):
    """Run fixed `ops`, or generate `length` ops online with `gen` (an OpGen)."""
    own = tmpdir is None
    if own: tmpdir = tempfile.mkdtemp(prefix='session-fuzz-')
    path = os.path.join(tmpdir, 'h.sqlite')
    for suffix in ('', '-journal', '-wal', '-shm'):
        if os.path.exists(path + suffix): os.remove(path + suffix)
    r = Runner(schema, path, oracle)
    out_ops, results, dumps = [], [], []
    try:
        r.last_dump = r.dump()
        n = len(ops) if ops is not None else length
        for i in range(n):
            op = ops[i] if ops is not None else gen.next()
            before = len(r.handles)
            res = r.run_op(op)
            if gen is not None:
                cleared = (op[0] in ('rollback', 'newsession')) or (op[0] == 'commit' and res[0] == 'err')
                news = r.handles if (cleared or len(r.handles) < before) else r.handles[before:]
                gen.observe(op, res, [r.ent_index(o) for o in news], [o._status_ in DEL_STATUSES for o in r.handles])
            out_ops.append(op); results.append(res)
            if sf.is_dump_point(op, res):
                d = r.dump(); dumps.append(d)
                if oracle: r.check_dump(op, res, d)
        r.finish()
        d = r.dump(); dumps.append(d)
        r.op_index = n          # violations found in the final dump are attributed to the end of the history
        if oracle: r.check_dump(None, ['ok'], d)
    finally:
        r.finish()
        if own: shutil.rmtree(tmpdir, ignore_errors=True)
    return {'schema': schema, 'ops': out_ops, 'results': results, 'dumps': dumps, 'oracle': r.violations}


def main():
    payload = json.load(sys.stdin)
    out = []
    tmpdir = tempfile.mkdtemp(prefix='session-fuzz-')
    try:
        if payload['mode'] == 'gen':
            lo, hi = payload.get('length', [10, 40])
            for seed in payload['seeds']:
                rng = random.Random(seed)
                schema = sf.gen_schema(rng, payload.get('stage', 1))
                gen = sf.OpGen(rng, schema, payload.get('malformed', 0.15))
                h = run_history(schema, gen=gen, length=rng.randint(lo, hi), oracle=payload.get('oracle', True), tmpdir=tmpdir)
                h['seed'] = seed
                out.append(h)
        else:
            for c in payload['cases']:
                h = run_history(c['schema'], ops=c['ops'], oracle=payload.get('oracle', True), tmpdir=tmpdir)
                h['seed'] = c.get('seed')
                out.append(h)
    finally:
        shutil.rmtree(tmpdir, ignore_errors=True)
    sys.stdout.write('\n@@JSON@@' + json.dumps({'histories': out, 'sqlite': sqlite3.sqlite_version}))


if __name__ == '__main__':
    main()
