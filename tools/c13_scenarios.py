"""C13: minimised histories (op-list replays) for the code sites of pony/orm/core.py that mutate the session without a (correct)
undo, plus clean counterparts.  Used by the known-findings replay, by the correspondence run (model must predict the exact state the
implementation is left in) and to generate coq/Findings/C13.v (tools/c13_mkcoq.py).

site: the model's taint name; loc: a location whose view differs after the failing call (for the Coq witness)."""

FINDINGS = []

# failing calls the undo protocol handles correctly (state must be restored exactly): replayed on every run, with every fault k
CLEAN = [
    # a pending, still unflushed remove() / add() on a many-to-many collection, then a failing call that went through Set.__set__ as a
    # reverse call (refused delete(); set() failing on a later collection): the undo must give back added / removed exactly (its snapshot
    # must be a copy: the tail updates those sets in place when they are non-empty)
    {'name': 'pending-remove-then-refused-delete', 'schema': 'S1',
     'ops': [["new", 0, 1, [[5, ["i", 0]]]], ["new", 2, 1, [[1, ["os", [0]]]]], ["new", 2, 2, [[1, ["os", [0]]]]], ["new", 2, 3, [[1, ["os", [0]]]]],
             ["new", 5, 1, [[1, ["o", 0]]]], ["commit"], ["rem", 0, 7, [1]], ["del", 0], ["commit"], ["del", 0]]},
    {'name': 'pending-add-then-set-fails-on-later-collection', 'schema': 'S1',
     'ops': [["new", 0, 1, [[5, ["i", 0]]]], ["new", 2, 1, [[1, ["os", [0]]]]], ["new", 2, 2, []], ["new", 2, 3, []],
             ["new", 5, 1, [[1, ["o", 0]]]], ["commit"], ["add", 0, 7, [2]], ["setm", 0, [[7, ["os", [1, 2, 3]]], [10, ["os", []]]]], ["commit"],
             ["rem", 0, 7, [1]], ["setm", 0, [[7, ["os", []]], [10, ["os", []]]]]]},
    {'name': 'set-collection-kwarg-not-undone', 'schema': 'S1',       # formerly a finding; repaired in /repo
     'ops': [["new", 0, 1, [[5, ["i", 0]]]], ["new", 2, 1, []], ["new", 5, 1, [[1, ["o", 0]]]],
             ["setm", 0, [[7, ["os", [1]]], [10, ["os", []]]]]]},
    {'name': 'delete-refused-after-collection-cleared', 'schema': 'S1',       # formerly a finding; repaired in /repo
     'ops': [["new", 0, 1, [[5, ["i", 0]]]], ["new", 2, 1, [[1, ["os", [0]]]]], ["new", 5, 1, [[1, ["o", 0]]]], ["commit"], ["del", 0]]},
    {'name': 'delete-nested-cascade-undo-order', 'schema': 'S1',       # formerly a finding; repaired in /repo
     'ops': [["new", 0, 1, [[5, ["i", 0]]]], ["new", 4, 1, [[1, ["o", 0]]]], ["new", 6, 1, [[1, ["o", 1]]]], ["new", 5, 1, [[1, ["o", 0]]]],
             ["commit"], ["del", 0]]},
    {'name': 'delete-refused-drops-pending-insert', 'schema': 'S1',       # formerly a finding; repaired in /repo
     'ops': [["new", 0, 1, [[5, ["i", 0]]]], ["new", 5, 1, [[1, ["o", 0]]]], ["commit"], ["new", 4, 1, [[1, ["o", 0]]]], ["del", 0]]},
    {'name': 'failed-constructor-leaves-primary-key', 'schema': 'S1',       # formerly a finding; repaired in /repo
     'ops': [["new", 0, 1, [[5, ["i", 0]]]], ["new", 3, 1, [[1, ["o", 0]]]], ["new", 3, 2, [[1, ["o", 0]]]]]},
    {'name': 'reverse-remove-undo-reads-loop-variable', 'schema': 'S3',       # formerly a finding; repaired in /repo
     'ops': [["new", 0, 1, []], ["new", 1, 1, [[1, ["os", [0]]]]], ["new", 2, 1, [[1, ["o", 1]]]], ["commit"],
             ["new", 0, 2, [[1, ["os", [1]]]]], ["del", 1]]},
    # many-to-many: remove(t1) then assignment that re-adds t1, adds t3 and drops t2 - pending added/removed must stay in sync
    # (repo 83f8eb8; before it the removal of t2 was recorded in a stale local and its DELETE was lost), then a refused call
    {'name': 'm2m-remove-then-assign-bookkeeping', 'schema': 'S1',
     'ops': [["new", 0, 1, [[5, ["i", 0]]]], ["new", 2, 1, [[1, ["os", [0]]]]], ["new", 2, 2, [[1, ["os", [0]]]]], ["new", 2, 3, []], ["commit"],
             ["rem", 0, 7, [1]], ["set", 0, 7, ["os", [1, 3]]], ["set", 0, 5, ["n"]], ["commit"], ["set", 0, 5, ["n"]]]},
    # one-to-many: remove / assignment record the removal once (repo 11753a1), then a refused call
    {'name': 'o2m-remove-and-assign-bookkeeping', 'schema': 'S2',
     'ops': [["new", 0, 1, [[8, ["i", 0]]]], ["new", 5, 1, []], ["new", 5, 2, [[3, ["o", 1]]]], ["new", 5, 3, [[3, ["o", 1]]]], ["commit"],
             ["rem", 1, 2, [2]], ["set", 0, 8, ["n"]], ["set", 1, 2, ["os", []]], ["set", 0, 8, ["n"]], ["commit"]]},
    # repaired by repo cd0fda9 (Entity.set registers its undo closure, undoes in reverse order): formerly the findings
    # set-unique-index-not-undone, set-status-wbits-queue-not-undone, set-undo-replayed-forward
    {'name': 'set-unique-index-restored', 'schema': 'S1',
     'ops': [["new", 0, 1, [[1, ["i", 0]], [2, ["i", 0]], [5, ["i", 0]]]], ["new", 0, 2, [[1, ["i", 1]], [2, ["i", 1]], [5, ["i", 0]]]],
             ["setm", 0, [[1, ["i", 2]], [2, ["i", 1]]]]]},
    {'name': 'set-status-wbits-queue-restored', 'schema': 'S1',
     'ops': [["new", 0, 1, [[1, ["i", 0]], [5, ["i", 0]]]], ["new", 0, 2, [[1, ["i", 1]], [5, ["i", 0]]]], ["commit"],
             ["setm", 0, [[1, ["i", 1]]]]]},
    {'name': 'set-undo-in-reverse-order', 'schema': 'S1',
     'ops': [["new", 0, 1, [[5, ["i", 0]]]], ["new", 0, 2, [[5, ["i", 0]]]], ["new", 4, 1, [[1, ["o", 0]]]], ["new", 4, 2, [[1, ["o", 0]]]],
             ["new", 5, 1, [[1, ["o", 1]]]], ["commit"], ["setm", 1, [[9, ["os", [2, 3]]], [10, ["os", []]]]]]},
    # an object already queued by an earlier successful set(): the failing set() must not pop it (cd0fda9: `if queued`)
    {'name': 'set-fails-on-already-queued-object', 'schema': 'S1',
     'ops': [["new", 0, 1, [[1, ["i", 0]], [5, ["i", 0]]]], ["new", 0, 2, [[1, ["i", 1]], [5, ["i", 0]]]], ["commit"],
             ["setm", 0, [[5, ["i", 3]]]], ["setm", 0, [[1, ["i", 1]], [5, ["i", 4]]]]]},
    {'name': 'cascade-refusal-midway', 'schema': 'S1',
     'ops': [["new", 0, 1, [[5, ["i", 0]]]], ["new", 4, 1, [[1, ["o", 0]]]], ["new", 4, 2, [[1, ["o", 0]]]], ["new", 5, 1, [[1, ["o", 0]]]],
             ["commit"], ["del", 0]]},
    {'name': 'unique-conflict-on-assignment', 'schema': 'S1',
     'ops': [["new", 0, 1, [[1, ["i", 0]], [3, ["i", 1]], [4, ["i", 1]], [5, ["i", 0]]]], ["new", 0, 2, [[1, ["i", 1]], [3, ["i", 1]], [4, ["i", 2]], [5, ["i", 0]]]],
             ["commit"], ["set", 0, 1, ["i", 1]], ["set", 0, 4, ["i", 2]], ["set", 1, 5, ["n"]]]},
    {'name': 'one-to-one-required-partner', 'schema': 'S1',
     'ops': [["new", 0, 1, [[5, ["i", 0]]]], ["new", 0, 2, [[5, ["i", 0]]]], ["new", 3, 1, [[1, ["o", 0]]]], ["commit"],
             ["set", 0, 8, ["n"]], ["set", 2, 1, ["n"]], ["del", 0]]},
    {'name': 'collection-ops-with-deleted-and-required', 'schema': 'S1',
     'ops': [["new", 0, 1, [[5, ["i", 0]]]], ["new", 0, 2, [[5, ["i", 0]]]], ["new", 5, 1, [[1, ["o", 0]]]], ["new", 4, 1, [[1, ["o", 0]]]],
             ["new", 2, 1, []], ["commit"], ["del", 4], ["rem", 0, 10, [2]], ["add", 1, 9, [3]], ["set", 0, 10, ["os", []]], ["add", 4, 1, [0]]]},
    {'name': 'deleted-object-as-reference-target', 'schema': 'S1',      # Set.reverse_add refuses deleted owners before any mutation (repo 907c292)
     'ops': [["new", 0, 1, [[5, ["i", 0]]]], ["new", 1, 1, []], ["new", 2, 1, []], ["commit"], ["del", 1], ["del", 2],
             ["set", 0, 6, ["o", 1]], ["add", 0, 7, [2]], ["set", 0, 7, ["os", [2]]]]},
    # cascades on earlier attributes (one-to-many set, one-to-one) precede the refusal on a later one-to-one: everything must be restored
    {'name': 'cascades-then-late-one-to-one-refusal', 'schema': 'S2',
     'ops': [["new", 0, 1, [[8, ["i", 0]]]], ["new", 4, 1, [[1, ["o", 0]]]], ["new", 6, 1, [[1, ["o", 0]]]], ["new", 5, 1, [[1, ["o", 0]]]],
             ["commit"], ["del", 0], ["del", 2], ["del", 0]]},
    # many-to-many, both sides: an assignment that removes one partner and then fails on a deleted one must restore both collections
    {'name': 'm2m-assign-fails-after-removal', 'schema': 'S1',
     'ops': [["new", 0, 1, [[5, ["i", 0]]]], ["new", 2, 1, [[1, ["os", [0]]]]], ["new", 2, 2, []], ["new", 0, 2, [[5, ["i", 0]], [7, ["os", [1]]]]], ["commit"], ["del", 2],
             ["set", 0, 7, ["os", [2]]], ["add", 3, 7, [2]], ["del", 3], ["set", 1, 1, ["os", [3]]], ["add", 1, 1, [3]]]},
    {'name': 'set-many-single-closure', 'schema': 'S1',
     'ops': [["new", 0, 1, [[5, ["i", 0]]]], ["new", 3, 1, [[1, ["o", 0]]]], ["new", 1, 1, []], ["setm", 0, [[6, ["o", 2]], [8, ["n"]]]]]},
    {'name': 'cascade-on-column-side-then-deleted-partner', 'schema': 'S3',
     'ops': [["new", 0, 1, []], ["new", 5, 1, [[1, ["o", 0]]]], ["commit"], ["new", 5, 2, []], ["del", 2], ["set", 0, 3, ["o", 2]]]},
    {'name': 'cascade-refusal-with-unique-child', 'schema': 'S3',
     'ops': [["new", 1, 1, []], ["new", 3, 1, [[1, ["o", 0]], [3, ["i", 1]]]], ["new", 3, 2, [[1, ["o", 0]], [3, ["i", 2]]]], ["new", 2, 1, [[1, ["o", 0]]]],
             ["commit"], ["set", 2, 3, ["i", 0]], ["del", 0], ["new", 3, 3, [[1, ["o", 0]], [3, ["i", 1]]]]]},
    {'name': 's2-composite-and-cascading-one-to-one', 'schema': 'S2',
     'ops': [["new", 0, 1, [[3, ["i", 0]], [4, ["i", 1]], [8, ["i", 0]]]], ["new", 0, 2, [[3, ["i", 1]], [4, ["i", 1]], [8, ["i", 1]]]],
             ["new", 4, 1, [[1, ["o", 0]]]], ["new", 1, 1, [[1, ["o", 1]]]], ["commit"],
             ["set", 1, 3, ["i", 0]], ["set", 1, 8, ["i", 0]], ["set", 1, 4, ["n"]], ["set", 1, 8, ["n"]], ["del", 1]]},
]
