"""C26 implementation driver: build an entity diagram from generated source text on a provider, generate the mapping
(and create the tables on SQLite), and report the schema objects, the creation order, the DDL and (SQLite) the catalog.

input  {"cases": [{"provider": "sqlite"|"postgres"|"mysql"|"oracle", "source": "<python class definitions>", "spec": {...}}],
        "names": [{"provider":…, "fn": "normalize_name"|…, "args": […]}]}      (direct calls of the provider's naming functions)
output per case {"outcome": "ok" | "rejected" | "backend-error" | "crash", "error": [class, message],
                 "tables": {name: {"columns": [[name, sql_type, not_null, is_pk, is_unique]], "indexes": [[name, [cols], is_pk, is_unique]],
                                   "fks": [[name, [child cols], parent table, [parent cols], on_delete]], "parents": [names], "m2m": bool,
                                   "entities": [names]}},
                 "names": [all registered names], "order": [table names in creation order], "ddl": text,
                 "catalog": {...} (sqlite only), "attrs": {Entity: {attr: {"columns": [...], "nullable": bool, "table": name}}}}
"""
import json, sys, re

import vlib


def load_names(out):
    return out


def schema_report(db):
    sch = db.schema
    tables = {}
    def tname(n): return n if isinstance(n, str) else '.'.join(n)
    for name, t in sch.tables.items():
        tables[tname(name)] = {
            'columns': [[c.name, c.sql_type, bool(c.is_not_null), c.is_pk if isinstance(c.is_pk, str) else bool(c.is_pk), bool(c.is_unique)]
                        for c in t.column_list],
            'indexes': sorted([[ix.name, [c.name for c in ix.columns], bool(ix.is_pk), bool(ix.is_unique)] for ix in t.indexes.values()],
                              key=lambda r: (r[0] or '', r[1])),
            'fks': sorted([[fk.name, [c.name for c in fk.child_columns], tname(fk.parent_table.name), [c.name for c in fk.parent_columns],
                            fk.on_delete or None] for fk in t.foreign_keys.values()], key=lambda r: (r[0] or '', r[1])),
            'parents': sorted(tname(p.name) for p in t.parent_tables),
            'm2m': bool(t.m2m),
            'entities': sorted(e.__name__ for e in t.entities),
        }
    return {'tables': tables, 'names': [tname(n) for n in sch.names], 'order': [tname(t.name) for t in sch.order_tables_to_create()],
            'ddl': sch.generate_create_script()}


def attrs_report(db):
    out = {}
    for ename, e in db.entities.items():
        d = {}
        for a in e._attrs_:
            if a.is_collection:
                d[a.name] = {'collection': True, 'table': a.table if a.reverse.is_collection else None,
                             'columns': list(a.columns or []), 'reverse_columns': list(getattr(a, 'reverse_columns', None) or [])}
            else:
                d[a.name] = {'columns': list(a.columns or []), 'nullable': bool(a.nullable), 'required': bool(a.is_required),
                             'pk': a.pk_offset is not None, 'unique': bool(a.is_unique), 'declared_in': a.entity.__name__}
        out[ename] = {'table': e._table_ if isinstance(e._table_, str) else '.'.join(e._table_ or ()), 'attrs': d,
                      'root': e._root_.__name__, 'pk_columns': list(e._pk_columns_)}
    return out


def sqlite_catalog(db):
    from pony import orm
    cat = {'objects': [], 'tables': {}}
    with orm.db_session:
        con = db.get_connection()
        for typ, name, tbl in con.execute("select type, name, tbl_name from sqlite_master order by name").fetchall():
            cat['objects'].append([typ, name, tbl])
        for typ, name, tbl in list(cat['objects']):
            if typ != 'table' or name.startswith('sqlite_'): continue
            q = '"' + name.replace('"', '""') + '"'
            cols = [[r[1], r[2], bool(r[3]), r[5]] for r in con.execute('PRAGMA table_info(%s)' % q).fetchall()]
            idx = []
            for r in con.execute('PRAGMA index_list(%s)' % q).fetchall():
                iq = '"' + r[1].replace('"', '""') + '"'
                idx.append([r[1], bool(r[2]), r[3], [c[2] for c in con.execute('PRAGMA index_info(%s)' % iq).fetchall()]])
            fks = {}
            for r in con.execute('PRAGMA foreign_key_list(%s)' % q).fetchall():
                fks.setdefault(r[0], [r[2], [], [], r[6]])
                fks[r[0]][1].append(r[3]); fks[r[0]][2].append(r[4])
            cat['tables'][name] = {'columns': cols, 'indexes': sorted(idx), 'fks': sorted(fks.values())}
    return cat


PONY_REJECTIONS = ('DBSchemaError', 'MappingError', 'ERDiagramError', 'TypeError', 'NotImplementedError', 'ValueError', 'AttributeError')


def run_case(case):
    from pony import orm
    from pony.orm import core
    prov = case['provider']
    out = {'outcome': None, 'error': None}
    try:
        if prov == 'sqlite': db = orm.Database('sqlite', ':memory:')
        else: db = vlib.mock_database(prov)
        ns = {'db': db}
        for k in ('PrimaryKey', 'Required', 'Optional', 'Set', 'composite_key', 'composite_index', 'Discriminator'): ns[k] = getattr(orm, k)
        try:
            exec(compile(case['source'], '<diagram>', 'exec'), ns)
        except Exception as e:
            out['outcome'] = 'rejected-at-declaration'; out['error'] = [type(e).__name__, str(e)[:300]]
            return out
        try:
            if prov == 'sqlite': db.generate_mapping(create_tables=True)
            else: db.generate_mapping(check_tables=False)
        except Exception as e:
            name = type(e).__name__
            out['error'] = [name, str(e)[:300]]
            import traceback
            tb = [f for f in traceback.extract_tb(e.__traceback__) if '/pony/' in f.filename]
            out['where'] = '%s.%s' % (tb[-1].filename.split('/')[-1][:-3], tb[-1].name) if tb else None
            if name in PONY_REJECTIONS and not isinstance(e, AssertionError): out['outcome'] = 'rejected'
            elif isinstance(e, AssertionError) or name in ('KeyError', 'IndexError'): out['outcome'] = 'crash'
            else: out['outcome'] = 'backend-error'
            if db.schema is not None and out['outcome'] != 'rejected':
                try: out.update(schema_report(db))
                except Exception: pass
            return out
        out['outcome'] = 'ok'
        out.update(schema_report(db))
        out['attrs'] = attrs_report(db)
        out['max_name_len'] = db.provider.max_name_len
        if prov == 'sqlite':
            out['catalog'] = sqlite_catalog(db)
            try:
                db.check_tables()
                out['check_tables'] = 'ok'
            except Exception as e:
                out['check_tables'] = '%s: %s' % (type(e).__name__, str(e)[:200])
    except Exception as e:
        out['outcome'] = 'driver-error'; out['error'] = [type(e).__name__, str(e)[:300]]
    return out


_provs = {}

def provider_of(name):
    if name not in _provs:
        from pony import orm
        _provs[name] = (orm.Database('sqlite', ':memory:') if name == 'sqlite' else vlib.mock_database(name)).provider
    return _provs[name]


class _E(object):
    def __init__(self, name, pk_columns=None): self.__name__ = name; self._pk = pk_columns
    def _get_pk_columns_(self): return self._pk
class _A(object):
    pass


def run_name(req):
    p = provider_of(req['provider'])
    fn, a = req['fn'], req['args']
    try:
        if fn == 'normalize_name': return p.normalize_name(a[0])
        if fn == 'entity_table': return p.get_default_entity_table_name(_E(a[0]))
        if fn == 'm2m_table':
            at = _A(); rv = _A()
            at.symmetric = bool(a[3]); at.entity = _E(a[0]); at.name = a[2]; rv.entity = _E(a[1])
            return p.get_default_m2m_table_name(at, at if at.symmetric else rv)
        if fn == 'column_names':
            at = _A(); at.name = a[0]
            return p.get_default_column_names(at, a[1])
        if fn == 'm2m_column_names': return p.get_default_m2m_column_names(_E(a[0], a[1]))
        if fn == 'index_name': return p.get_default_index_name(a[0], a[1], is_pk=a[2], is_unique=a[3], m2m=a[4])
        if fn == 'fk_name': return p.get_default_fk_name(a[0], a[1], a[2])
        if fn == 'max_name_len': return p.max_name_len
    except Exception as e:
        return {'exc': type(e).__name__}
    raise ValueError(fn)


def catalog_names(path):
    import sqlite3
    con = sqlite3.connect(path)
    try:
        return sorted(r[0] for r in con.execute("select name from sqlite_master where type in ('table','index') and name not like 'sqlite_%'"))
    finally: con.close()


def run_history(h, workdir):
    """Evolved database on a SQLite file: create with model v1; optionally drop indexes by raw SQL; then
    generate_mapping(create_tables=True) with model v2 (v1 plus indexes) on the same file.
    h = {"source_v1", "source_v2", "drop": [positions in the sorted list of droppable indexes]}"""
    import os, sqlite3, tempfile
    from pony import orm
    out = {'outcome': None, 'error': None}
    fd, path = tempfile.mkstemp(suffix='.sqlite', dir=workdir); os.close(fd); os.remove(path)
    def open_db(source):
        db = orm.Database('sqlite', path, create_db=True)
        ns = {'db': db}
        for k in ('PrimaryKey', 'Required', 'Optional', 'Set', 'composite_key', 'composite_index', 'Discriminator'): ns[k] = getattr(orm, k)
        exec(compile(source, '<diagram>', 'exec'), ns)
        return db
    try:
        try:
            db1 = open_db(h['source_v1'])
            db1.generate_mapping(create_tables=True)
            db1.disconnect()
        except Exception as e:
            out['outcome'] = 'v1-not-created'; out['error'] = [type(e).__name__, str(e)[:200]]
            return out
        out['after_v1'] = catalog_names(path)
        con = sqlite3.connect(path)
        droppable = sorted(r[0] for r in con.execute("select name from sqlite_master where type='index' and sql is not null"))
        dropped = []
        for i in h.get('drop', []):
            if droppable:
                n = droppable[i % len(droppable)]
                if n not in dropped:
                    con.execute('DROP INDEX "%s"' % n.replace('"', '""')); dropped.append(n)
        con.commit(); con.close()
        out['dropped'] = dropped
        out['before'] = catalog_names(path)
        try:
            db2 = open_db(h['source_v2'])
            db2.generate_mapping(create_tables=True)
        except Exception as e:
            name = type(e).__name__
            out['outcome'] = 'rejected' if name in PONY_REJECTIONS else 'backend-error'
            out['error'] = [name, str(e)[:300]]
            return out
        sch = db2.schema
        created = set()
        lists = []
        for t in sch.order_tables_to_create():
            lists.append([[o.typename, o.name if isinstance(o.name, str) else '.'.join(o.name)] for o in t.get_objects_to_create(created)])
        out['object_lists'] = lists
        try:
            db2.check_tables(); out['check_tables'] = 'ok'
        except Exception as e: out['check_tables'] = '%s: %s' % (type(e).__name__, str(e)[:200])
        db2.disconnect()
        out['after'] = catalog_names(path)
        out['outcome'] = 'ok'
    except Exception as e:
        out['outcome'] = 'driver-error'; out['error'] = [type(e).__name__, str(e)[:300]]
    finally:
        try: os.remove(path)
        except OSError: pass
    return out


def main():
    import tempfile, shutil
    payload = json.load(sys.stdin)
    res = {'cases': [run_case(c) for c in payload.get('cases', [])], 'names': [run_name(r) for r in payload.get('names', [])]}
    if payload.get('histories'):
        workdir = tempfile.mkdtemp(prefix='c26-', dir='/tmp')
        try: res['histories'] = [run_history(h, workdir) for h in payload['histories']]
        finally: shutil.rmtree(workdir, ignore_errors=True)
    else: res['histories'] = []
    sys.stdout.write('\n@@JSON@@' + json.dumps(res))


if __name__ == '__main__':
    main()
