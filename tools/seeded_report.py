#!/usr/bin/env python3
"""seeded_report.py [ids...]: run each seeded change against its property's check (tools/mutcheck.sh) and write seeded/<id>/meta.json"""
import json, os, re, subprocess, sys, time
V = '/verif'
ids = sys.argv[1:] or sorted(os.listdir(os.path.join(V, 'seeded')))
for sid in ids:
    d = os.path.join(V, 'seeded', sid)
    if not os.path.isfile(os.path.join(d, 'patch.diff')): continue
    prop = sid.split('-')[0]
    if not os.path.exists(os.path.join(V, 'tools', 'props', prop.lower() + '.py')):
        print(sid, 'no check yet'); continue
    t = time.time()
    p = subprocess.run([os.path.join(V, 'tools', 'mutcheck.sh'), os.path.join(d, 'patch.diff'), prop], capture_output=True, text=True, timeout=3600)
    out = p.stdout + p.stderr
    viol = [l for l in out.split('\n') if l.startswith('VIOLATION')]
    what = [l for l in out.split('\n') if l and not l.startswith(('KNOWN-FINDING', 'VIOLATION', 'mutcheck', 'use default'))][-8:]
    meta_path = os.path.join(d, 'meta.json')
    meta = json.load(open(meta_path)) if os.path.exists(meta_path) else {}
    agent = open(os.path.join(d, 'agent_meta.txt')).read() if os.path.exists(os.path.join(d, 'agent_meta.txt')) else ''
    conf = open(os.path.join(d, 'confirm.txt')).read() if os.path.exists(os.path.join(d, 'confirm.txt')) else ''
    meta.update({
        'property': prop,
        'source': 'independent sub-agent given only the property text and a scratch worktree',
        'breaks_and_needs': agent.strip()[:1500],
        'confirmed': conf.strip()[:600],
        'ran': ['tools/confirm_seeded.sh seeded/%s' % sid, 'tools/mutcheck.sh seeded/%s/patch.diff %s' % (sid, prop)],
        'check_exit': p.returncode,
        'detected': bool(viol) and p.returncode == 1,
        'violation_lines': viol[:5],
        'check_output_tail': what,
        'check_wall_s': round(time.time() - t, 1),
    })
    hist = meta.setdefault('history', [])
    hist.append({'at': time.strftime('%Y-%m-%d %H:%M'), 'detected': meta['detected'], 'exit': p.returncode})
    json.dump(meta, open(meta_path, 'w'), indent=1)
    print(sid, 'DETECTED' if meta['detected'] else 'MISSED', 'exit', p.returncode, viol[:1])
