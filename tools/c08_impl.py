"""C08 implementation driver: runs the real Pony classes (from vlib.REPO) on generated declarations x values.

Everything here talks to the real implementation only; no model knowledge.  Outcome codes:
    0  accepted and the value read back equals the input (after the documented normalisation for str)
   -1  accepted but the value read back differs
    1  TypeError      2  ValueError      9  any other exception
"""
import math
from decimal import Decimal

ROUTES = ('create', 'assign', 'set', 'get')


def exc_code(e):
    if isinstance(e, TypeError): return 1
    if isinstance(e, ValueError): return 2
    return 9


def same(a, b):
    """Equality that treats NaN as equal to itself and distinguishes nothing else (3 == 3.0 is fine: float(3) is the documented conversion)."""
    try:
        if a != a and b != b: return True
    except Exception:
        pass
    return a == b


# ------------------------------------------------------------------------------------------------ int declarations

def int_kwargs(decl):
    """decl = {'size': None|int, 'unsigned': 'omit'|None|bool, 'min': None|int, 'max': None|int}"""
    kw = {}
    if decl['size'] is not None: kw['size'] = decl['size']
    if decl['unsigned'] != 'omit': kw['unsigned'] = decl['unsigned']
    if decl['min'] is not None: kw['min'] = decl['min']
    if decl['max'] is not None: kw['max'] = decl['max']
    return kw


_providers = {}

def provider(uint64):
    """SQLite provider (uint64_support False) or the MySQL provider through the pool mock-up (uint64_support True)."""
    if uint64 not in _providers:
        from pony import orm
        if uint64:
            import vlib
            db = vlib.mock_database('mysql')
        else:
            db = orm.Database('sqlite', ':memory:')
        assert bool(db.provider.uint64_support) == bool(uint64)
        _providers[uint64] = db.provider
    return _providers[uint64]


def int_init(decl, uint64=False):
    """Real IntConverter.init through provider.get_converter_by_attr on a real (unbound) Attribute.
    -> ('ok', min_val, max_val, size, unsigned) | ('err', code)"""
    from pony import orm
    try:
        attr = orm.Optional(int, **int_kwargs(decl))
        conv = provider(uint64).get_converter_by_attr(attr)
    except Exception as e:
        return ('err', exc_code(e)), None
    return ('ok', conv.min_val, conv.max_val, conv.size, conv.unsigned), conv


def conv_validate(conv, v):
    try:
        r = conv.validate(v)
    except Exception as e:
        return exc_code(e)
    return 0 if same(r, v) else -1


class Batch(object):
    """A real in-memory SQLite database with entities whose Optional attributes carry the given declarations."""
    def __init__(self, py_type, decl_kwargs, per_entity=120, args_list=None):
        from pony import orm
        self.orm = orm
        self.db = orm.Database('sqlite', ':memory:')
        self.where = []           # decl index -> (entity, attr name)
        self.errors = {}          # decl index -> code when the declaration is refused by generate_mapping
        n = len(decl_kwargs)
        self.entities = []
        for start in range(0, n, per_entity):
            ns = {}
            for i in range(start, min(n, start + per_entity)):
                args = args_list[i] if args_list else ()
                ns['a%d' % i] = orm.Optional(py_type, *args, **decl_kwargs[i])
            E = type('E%d' % start, (self.db.Entity,), ns)
            self.entities.append(E)
            for i in range(start, min(n, start + per_entity)): self.where.append((E, 'a%d' % i))
        self.db.generate_mapping(create_tables=True)

    def run(self, i, values, norm=lambda v: v):
        """-> {route: [code per value]} for declaration i."""
        orm = self.orm
        E, name = self.where[i]
        out = {r: [] for r in ROUTES}
        with orm.db_session:
            for v in values:
                try:
                    E.get(**{name: v}); out['get'].append(0)
                except Exception as e:
                    out['get'].append(exc_code(e))
        with orm.db_session:
            obj = E()
            for v in values:
                try:
                    setattr(obj, name, v)
                    out['assign'].append(0 if same(getattr(obj, name), norm(v)) else -1)
                except Exception as e:
                    out['assign'].append(exc_code(e))
                try:
                    obj.set(**{name: v})
                    out['set'].append(0 if same(getattr(obj, name), norm(v)) else -1)
                except Exception as e:
                    out['set'].append(exc_code(e))
                try:
                    o2 = E(**{name: v})
                    out['create'].append(0 if same(getattr(o2, name), norm(v)) else -1)
                except Exception as e:
                    out['create'].append(exc_code(e))
            orm.rollback()
        return out

    def converter(self, i):
        E, name = self.where[i]
        return getattr(E, name).converters[0]


# ------------------------------------------------------------------------------------------------ attribute level

def build_attr(kind, py_type, opts):
    """A one-attribute entity in its own database; -> (entity, attr) or ('err', code)."""
    from pony import orm
    db = orm.Database('sqlite', ':memory:')
    cls = orm.Required if kind == 'Required' else orm.Optional
    try:
        R = type('R', (db.Entity,), {'x': cls(py_type, **opts)})
        db.generate_mapping(create_tables=True)
    except Exception as e:
        return None, exc_code(e)
    return R, R.x


def attr_validate(attr, v):
    try:
        return ('ok', attr.validate(v))
    except Exception as e:
        return ('err', exc_code(e))


def attr_create(R, v):
    from pony import orm
    with orm.db_session:
        try:
            o = R(x=v)
            r = ('ok', o.x)
        except Exception as e:
            r = ('err', exc_code(e))
        orm.rollback()
    return r
