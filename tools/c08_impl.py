"""C08 implementation driver: runs the real Pony classes (from vlib.REPO) on generated declarations x values.

Everything here talks to the real implementation only; no model knowledge.  Outcome codes:
    0  accepted and the value read back equals the input (after the documented normalisation for str)
   -1  accepted but the value read back differs
    1  TypeError      2  ValueError      9  any other exception
"""
import math
from decimal import Decimal

ROUTES = ('create', 'assign', 'set', 'get')


def exc_code(e):
    if isinstance(e, TypeError): return 1
    if isinstance(e, ValueError): return 2
    return 9


def same(a, b):
    """Equality that treats NaN as equal to itself and distinguishes nothing else (3 == 3.0 is fine: float(3) is the documented conversion)."""
    try:
        if a != a and b != b: return True
    except Exception:
        pass
    return a == b


# ------------------------------------------------------------------------------------------------ int declarations

def int_kwargs(decl):
    """decl = {'size': None|int, 'unsigned': 'omit'|None|bool, 'min': None|int, 'max': None|int}"""
    kw = {}
    if decl['size'] is not None: kw['size'] = decl['size']
    if decl['unsigned'] != 'omit': kw['unsigned'] = decl['unsigned']
    if decl['min'] is not None: kw['min'] = decl['min']
    if decl['max'] is not None: kw['max'] = decl['max']
    return kw


_providers = {}

def provider(uint64):
    """SQLite provider (uint64_support False) or the MySQL provider through the pool mock-up (uint64_support True)."""
    if uint64 not in _providers:
        from pony import orm
        if uint64:
            import vlib
            db = vlib.mock_database('mysql')
        else:
            db = orm.Database('sqlite', ':memory:')
        assert bool(db.provider.uint64_support) == bool(uint64)
        _providers[uint64] = db.provider
    return _providers[uint64]


def int_init(decl, uint64=False):
    """Real IntConverter.init through provider.get_converter_by_attr on a real (unbound) Attribute.
    -> ('ok', min_val, max_val, size, unsigned) | ('err', code)"""
    from pony import orm
    try:
        attr = orm.Optional(int, **int_kwargs(decl))
        conv = provider(uint64).get_converter_by_attr(attr)
    except Exception as e:
        return ('err', exc_code(e)), None
    return ('ok', conv.min_val, conv.max_val, conv.size, conv.unsigned), conv


def conv_validate(conv, v):
    try:
        r = conv.validate(v)
    except Exception as e:
        return exc_code(e)
    return 0 if same(r, v) else -1


class Batch(object):
    """A real in-memory SQLite database with entities whose Optional attributes carry the given declarations."""
    def __init__(self, py_type, decl_kwargs, per_entity=120, args_list=None):
        from pony import orm
        self.orm = orm
        self.db = orm.Database('sqlite', ':memory:')
        self.where = []           # decl index -> (entity, attr name)
        self.errors = {}          # decl index -> code when the declaration is refused by generate_mapping
        n = len(decl_kwargs)
        self.entities = []
        for start in range(0, n, per_entity):
            ns = {}
            for i in range(start, min(n, start + per_entity)):
                args = args_list[i] if args_list else ()
                ns['a%d' % i] = orm.Optional(py_type, *args, **decl_kwargs[i])
            E = type('E%d' % start, (self.db.Entity,), ns)
            self.entities.append(E)
            for i in range(start, min(n, start + per_entity)): self.where.append((E, 'a%d' % i))
        self.db.generate_mapping(create_tables=True)

    def run(self, i, values, norm=lambda v: v):
        """-> {route: [code per value]} for declaration i."""
        orm = self.orm
        E, name = self.where[i]
        out = {r: [] for r in ROUTES}
        with orm.db_session:
            for v in values:
                try:
                    E.get(**{name: v}); out['get'].append(0)
                except Exception as e:
                    out['get'].append(exc_code(e))
        with orm.db_session:
            obj = E()
            for v in values:
                try:
                    setattr(obj, name, v)
                    out['assign'].append(0 if same(getattr(obj, name), norm(v)) else -1)
                except Exception as e:
                    out['assign'].append(exc_code(e))
                try:
                    obj.set(**{name: v})
                    out['set'].append(0 if same(getattr(obj, name), norm(v)) else -1)
                except Exception as e:
                    out['set'].append(exc_code(e))
                try:
                    o2 = E(**{name: v})
                    out['create'].append(0 if same(getattr(o2, name), norm(v)) else -1)
                except Exception as e:
                    out['create'].append(exc_code(e))
            orm.rollback()
        return out

    def converter(self, i):
        E, name = self.where[i]
        return getattr(E, name).converters[0]


# ------------------------------------------------------------------------------------------------ attribute level

def build_attr(kind, py_type, opts):
    """A one-attribute entity in its own database; -> (entity, attr) or ('err', code)."""
    from pony import orm
    db = orm.Database('sqlite', ':memory:')
    cls = orm.Required if kind == 'Required' else orm.Optional
    try:
        R = type('R', (db.Entity,), {'x': cls(py_type, **opts)})
        db.generate_mapping(create_tables=True)
    except Exception as e:
        return None, exc_code(e)
    return R, R.x


def attr_validate(attr, v):
    try:
        return ('ok', attr.validate(v))
    except Exception as e:
        return ('err', exc_code(e))


def attr_create(R, v):
    from pony import orm
    with orm.db_session:
        try:
            o = R(x=v)
            r = ('ok', o.x)
        except Exception as e:
            r = ('err', exc_code(e))
        orm.rollback()
    return r


# ------------------------------------------------------------------------------------------------ assignments against objects in different prior states

def state_scenarios():
    """attribute -> (declaration, valid held value, invalid value written past the ORM, candidates to assign)."""
    from pony import orm
    D = Decimal
    return {
        'age':   ((orm.Required, int, (), {'min': 0, 'max': 150}), 30, -5, [30, 30.0, D(30), True, '30', -5, -5.0, 151, 31, 0, None]),
        'level': ((orm.Optional, int, (), {'size': 8, 'unsigned': True}), 7, 256, [7, 7.0, 256, 256.0, 255, -1, 1, True]),
        'ratio': ((orm.Optional, float, (), {'max': 1.0}), 0.5, 1.5, [0.5, D('0.5'), 1, 1.5, D('1.5'), 2, 1.0]),
        'name':  ((orm.Required, str, (), {}), 'ann', '', ['ann', '', ' ', 'bob', 5, None]),
        'code':  ((orm.Optional, str, (3,), {}), 'abc', 'abcdef', ['abc', 'abcdef', 'abcd', 'ab', ' abc ']),
        'price': ((orm.Optional, Decimal, (10, 2), {'min': 0}), D('1.50'), D('-1'), [D('1.50'), D('1.5'), D('-1'), -1, D('-1.00'), D('0'), 3]),
    }


def outcome(fn):
    try:
        v = fn()
    except Exception as e:
        return ('err', exc_code(e))
    return ('ok', type(v).__name__, repr(v))


def run_state_assignments():
    """-> list of {attr, state, held, value, assign: outcome, validate: outcome of the stateless attr.validate(value)}.
    States: 'created' (object made in this session, holds the valid value), 'loaded' (committed, read in a new session),
    'raw-invalid' (row written by raw SQL with a value violating the declaration, then loaded), 'created-other' (holds an unrelated
    valid value: the reference state)."""
    from pony import orm
    sc = state_scenarios()
    db = orm.Database('sqlite', ':memory:')
    ns = {n: d[0](d[1], *d[2], **d[3]) for n, (d, held, bad, cands) in sc.items()}
    S = type('S', (db.Entity,), ns)
    db.generate_mapping(create_tables=True)
    valid = {n: held for n, (d, held, bad, cands) in sc.items()}
    out = []
    with orm.db_session:
        o = S(**valid); orm.commit(); oid = o.id
    # rows written past the ORM: one per attribute, only that attribute invalid
    bad_ids = {}
    with orm.db_session:
        for n, (d, held, bad, cands) in sc.items():
            cols = dict(valid); cols[n] = bad
            names = sorted(cols)
            vals = [str(cols[k]) if isinstance(cols[k], Decimal) else cols[k] for k in names]
            db.execute('insert into S (%s) values (%s)' % (', '.join(names), ', '.join('$v%d' % i for i in range(len(names)))),
                       {'v%d' % i: v for i, v in enumerate(vals)})
            bad_ids[n] = db.select('select max(id) from S')[0]
        orm.commit()
    def record(n, state, obj, held):
        attr = getattr(S, n)
        for v in sc[n][3]:
            a = outcome(lambda: (setattr(obj, n, v), getattr(obj, n))[1])
            ref = outcome(lambda: attr.validate(v))
            out.append({'attr': n, 'state': state, 'held': repr(held), 'value': repr(v), 'assign': a, 'validate': ref})
            try: setattr(obj, n, held) if state != 'raw-invalid' else obj._vals_.__setitem__(attr, held)
            except Exception: pass
    for n, (d, held, bad, cands) in sc.items():
        with orm.db_session:
            obj = S(**valid); record(n, 'created', obj, held); orm.rollback()
        with orm.db_session:
            obj = S[oid]; obj.load(); record(n, 'loaded', obj, held); orm.rollback()
        with orm.db_session:
            import warnings
            with warnings.catch_warnings():
                warnings.simplefilter('ignore')
                obj = S[bad_ids[n]]; obj.load()
                got = obj._vals_.get(getattr(S, n))
                record(n, 'raw-invalid', obj, got)
            orm.rollback()
    return out, {n: (getattr(S, n).converters[0]) for n in sc}


# ------------------------------------------------------------------------------------------------ declared type: real validate on one representative per Python type

def type_outcomes():
    """-> {convkind: {tag: ('accept', result tag) | ('reject', code)}} from the real converters of a mapped entity, and the converters."""
    import datetime as dt, uuid
    from pony import orm
    from py2coq import typedispatch as td
    kinds = {'CBool': bool, 'CStr': str, 'CInt': int, 'CReal': float, 'CDecimal': Decimal, 'CBlob': bytes, 'CDate': dt.date, 'CTime': dt.time,
             'CTimedelta': dt.timedelta, 'CDatetime': dt.datetime, 'CUuid': uuid.UUID}
    db = orm.Database('sqlite', ':memory:')
    T = type('T', (db.Entity,), {k.lower(): orm.Optional(ty) for k, ty in kinds.items()})
    db.generate_mapping(create_tables=True)
    out = {}
    for k in kinds:
        conv = getattr(T, k.lower()).converters[0]
        row = {}
        for tag, sample in td.samples():
            try:
                r = conv.validate(sample)
                row[tag] = ('accept', td.tag_of(r))
            except Exception as e:
                row[tag] = ('reject', exc_code(e))
        out[k] = row
    return out


def dec_init_real(p, s):
    from pony import orm
    try:
        conv = provider(False).get_converter_by_attr(orm.Optional(Decimal, precision=p, scale=s))
    except Exception as e:
        return ('err', exc_code(e))
    return ('ok', conv.precision, conv.scale)


def dec_precision_probe():
    """Optional(Decimal, 5, 2) given 123456.789: accepted?"""
    from pony import orm
    conv = provider(False).get_converter_by_attr(orm.Optional(Decimal, 5, 2))
    try: conv.validate(Decimal('123456.789')); return True
    except Exception: return False


# ------------------------------------------------------------------------------------------------ raw key values offered through relationship attributes

def run_relation_keys():
    """Account.id = PrimaryKey(int, min=0, max=1000); Profile.account = PrimaryKey(Account); Entry.profile = Required(Profile)  (two hops);
    Tag.code = PrimaryKey(str, 4); TagInfo.tag = PrimaryKey(Tag); Entry.taginfo = Optional(TagInfo).
    A raw key value given for Profile.account (one hop) or Entry.profile / Entry.taginfo (two hops) on creation, assignment, set(), get(), filter()
    must be judged exactly as the innermost key attribute's validate judges it.
    -> list of {hops, route, key, value, got: outcome, validate: outcome of Account.id.validate / Tag.code.validate}"""
    from pony import orm
    db = orm.Database('sqlite', ':memory:')
    class Account(db.Entity):
        id = orm.PrimaryKey(int, min=0, max=1000)
        profile = orm.Optional('Profile')
    class Profile(db.Entity):
        account = orm.PrimaryKey(Account)
        entries = orm.Set('Entry')
    class Tag(db.Entity):
        code = orm.PrimaryKey(str, 4)
        info = orm.Optional('TagInfo')
    class TagInfo(db.Entity):
        tag = orm.PrimaryKey(Tag)
        entries = orm.Set('Entry')
    class Entry(db.Entity):
        id = orm.PrimaryKey(int)
        profile = orm.Required(Profile)
        taginfo = orm.Optional(TagInfo)
    db.generate_mapping(create_tables=True)
    with orm.db_session:
        for i in (0, 7, 1000): Profile(account=Account(id=i))
        TagInfo(tag=Tag(code='ab'))
        Entry(id=1, profile=7, taginfo='ab')
    ints = [-5, -1, 0, 7, 1000, 1001, 2000, 7.9, '7', 'x', True]
    strs = ['ab', ' ab ', 'toolong', 'abcd', 'abcde', 5, '']
    out = []
    def pk_of(x):
        """innermost raw key of an entity reference"""
        while isinstance(x, db.Entity): x = x._pkval_ if not isinstance(x._pkval_, tuple) else x._pkval_[0]
        return x
    def attempt(fn):
        try:
            r = fn()
        except Exception as e:
            return ('err', exc_code(e))
        return ('ok', type(pk_of(r)).__name__, repr(pk_of(r)))
    nid = [100]
    def routes(hops, kind, v):
        if hops == 1:
            E, name = (Profile, 'account') if kind == 'int' else (TagInfo, 'tag')
            yield 'get', lambda: (E.get(**{name: v}), v)[1] if E.get(**{name: v}) is None else getattr(E.get(**{name: v}), name)
            yield 'index', lambda: getattr(E[v], name)
        else:
            name = 'profile' if kind == 'int' else 'taginfo'
            def create():
                nid[0] += 1
                kw = {'id': nid[0], 'profile': 7}; kw[name] = v
                return getattr(Entry(**kw), name)
            def assign():
                e = Entry[1]; setattr(e, name, v); return getattr(e, name)
            def do_set():
                e = Entry[1]; e.set(**{name: v}); return getattr(e, name)
            def get():
                e = Entry.get(**{name: v}); return getattr(e, name) if e is not None else None
            def filt():
                es = Entry.select().filter(**{name: v})[:]; return getattr(es[0], name) if es else None
            yield 'create', create
            yield 'assign', assign
            yield 'set', do_set
            yield 'get', get
            yield 'filter', filt
    for kind, vals, key_attr in (('int', ints, Account.id), ('str', strs, Tag.code)):
        for v in vals:
            try: ref = ('ok', type(key_attr.validate(v)).__name__, repr(key_attr.validate(v)))
            except Exception as e: ref = ('err', exc_code(e))
            for hops in (1, 2):
                for route, fn in routes(hops, kind, v):
                    with orm.db_session:
                        got = attempt(fn)
                        orm.rollback()
                    out.append({'hops': hops, 'route': route, 'key': kind, 'value': repr(v), 'got': got, 'validate': ref})
    return out
