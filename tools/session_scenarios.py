"""C09 / C10, fixed multi-step scenarios (implementation side) for two shapes the history fuzzer does not generate.

C09 "undo":   a many-to-many collection with a pending, unflushed change (remove / add / both, made from either side), then obj.delete() that empties the
              collection and then FAILS (a later Set(..., cascade_delete=False) whose reverse is Required -> ConstraintError, caught by the program), then
              commit - or flush + commit, or rollback.  The session's view (both sides), the view after the commit and the link rows read through a second
              connection must all equal the logical state: the pending change applied, the failed delete without effect.
C10 "hooks":  entity hooks that run a query while a flush is in progress (before_insert / before_update: the query runs against the state before the
              pending rows are written; after_insert: the hook queries and then modifies the objects it found, which makes the flush go round again).
              After the flush (explicit, by commit, or the auto-flush of another query) the SAME query - same code object, same parameters - must agree
              with the rows in the database and with the objects' own attributes.

C11 "pending-unique": a placeholder reached through a relationship gets a new value for a unique attribute; its row is then loaded while the write is pending
              (Entity.set / a reverse assignment of an unloaded to-one attribute load it with flushing disabled; attribute reads and queries flush first);
              every unique value must map to the object that holds it, get() must find it, a second holder must be refused, the vacated value reusable.
C12 "probe":  `x in a.coll` on a partially loaded many-to-many collection, then the link is made (or removed) from the OTHER end; the probe, the probe of the
              other end, iteration of both ends and a new session must agree.

Script protocol (vlib.run_impl): {"family": "c09"|"c10"|"c11"|"c12", "cases": [name...] | null} -> {"results": [{"case", "ok", "detail"}]}
"""
import itertools, json, os, sqlite3, sys, tempfile, shutil, warnings

warnings.simplefilter('ignore')
from pony import orm


# ---------------------------------------------------------------- C09: failed delete after a pending collection change

def c09_case(workdir, side, pending, ending, with_failed_delete=True):
    path = os.path.join(workdir, 'c09.sqlite')
    if os.path.exists(path): os.remove(path)
    db = orm.Database()
    class Author(db.Entity):
        id = orm.PrimaryKey(int)
        books = orm.Set('Book')
        contracts = orm.Set('Contract', cascade_delete=False)
    class Book(db.Entity):
        id = orm.PrimaryKey(int)
        authors = orm.Set(Author)
        reviews = orm.Set('Review', cascade_delete=False)
    class Contract(db.Entity):
        id = orm.PrimaryKey(int)
        author = orm.Required(Author)
    class Review(db.Entity):
        id = orm.PrimaryKey(int)
        book = orm.Required(Book)
    db.bind('sqlite', path, create_db=True)
    db.generate_mapping(create_tables=True)
    problems = []
    try:
        with orm.db_session:
            a1, a2 = Author(id=1), Author(id=2)
            bs = [Book(id=i) for i in (1, 2, 3, 4)]
            for b in bs[:3]: a1.books.add(b)
            a2.books.add(bs[0])
            Contract(id=1, author=a1); Review(id=1, book=bs[0])
        links0 = {(1, 1), (1, 2), (1, 3), (2, 1)}

        def stored():
            con = sqlite3.connect(path)
            try:
                tab = [r[0] for r in con.execute("select name from sqlite_master where type='table'") if r[0].lower() not in ('author', 'book', 'contract', 'review')][0]
                cols = [r[1] for r in con.execute('PRAGMA table_info("%s")' % tab)]
                ca = [c for c in cols if c.lower().startswith('author')][0]; cb = [c for c in cols if c.lower().startswith('book')][0]
                return {tuple(r) for r in con.execute('select "%s", "%s" from "%s"' % (ca, cb, tab))}
            finally: con.close()

        def views():
            va = {(a.id, b.id) for a in Author.select() for b in a.books}
            vb = {(a.id, b.id) for b in Book.select() for a in b.authors}
            return va, vb

        expected = set(links0)
        with orm.db_session:
            # the owner of the collection that is going to be deleted: author 1 (side 'a') or book 1 (side 'b')
            owner = Author[1] if side == 'a' else Book[1]
            if side == 'a':
                if 'remove' in pending: owner.books.remove(Book[1]); expected.discard((1, 1))
                if 'add' in pending: owner.books.add(Book[4]); expected.add((1, 4))
            else:
                if 'remove' in pending: owner.authors.remove(Author[2]); expected.discard((2, 1))
                if 'add' in pending: Author[2].books.add(Book[2]); expected.add((2, 2))        # a pending change made from the other side
            if with_failed_delete:
                try: owner.delete()
                except orm.ConstraintError: pass
                else: problems.append('delete() of an object with a Required dependant was expected to raise ConstraintError')
            va, vb = views()
            if va != expected or vb != expected:
                problems.append('after the failed delete the session shows %s (authors) / %s (books), expected %s' % (sorted(va), sorted(vb), sorted(expected)))
            if ending == 'rollback':
                orm.rollback(); expected = set(links0)
            else:
                if ending == 'flush-commit': orm.flush()
                orm.commit()
                va, vb = views()
                if va != expected or vb != expected:
                    problems.append('after the commit the session shows %s / %s, expected %s' % (sorted(va), sorted(vb), sorted(expected)))
        st = stored()
        if st != expected:
            problems.append('committed link rows %s differ from what the program committed %s' % (sorted(st), sorted(expected)))
        with orm.db_session:
            va, vb = views()
            if va != expected or vb != expected: problems.append('a new session reads %s / %s, expected %s' % (sorted(va), sorted(vb), sorted(expected)))
    finally:
        db.disconnect()
    return problems


C09_CASES = {}
for _side, _pend, _end in itertools.product(('a', 'b'), ('none', 'remove', 'add', 'remove+add'), ('commit', 'flush-commit', 'rollback')):
    C09_CASES['undo:%s:%s:%s' % (_side, _pend, _end)] = (_side, _pend, _end, True)
for _side, _pend in itertools.product(('a', 'b'), ('remove', 'add')):
    C09_CASES['control:%s:%s' % (_side, _pend)] = (_side, _pend, 'commit', False)


# ---------------------------------------------------------------- C10: queries run by hooks during a flush

def c10_case(workdir, hook, flush_by):
    path = os.path.join(workdir, 'c10.sqlite')
    if os.path.exists(path): os.remove(path)
    db = orm.Database()
    def all_notes(): return orm.select(n for n in Note)[:]
    def open_tasks(): return orm.select(t for t in Task if not t.done)[:]
    def notes_at_least(k): return orm.select(n for n in Note if n.id >= k)[:]
    class Note(db.Entity):
        id = orm.PrimaryKey(int)
        seq = orm.Optional(int)
        text = orm.Optional(str)
        def before_insert(self):
            if hook in ('before_insert', 'before_insert_param'):
                self.seq = len(all_notes() if hook == 'before_insert' else notes_at_least(1)) + 1
        def before_update(self):
            if hook == 'before_update': self.seq = len(all_notes()) + 100
    class Task(db.Entity):
        id = orm.PrimaryKey(int)
        done = orm.Required(bool, default=False)
    class CloseAll(db.Entity):
        id = orm.PrimaryKey(int)
        def after_insert(self):
            if hook == 'after_insert':
                for t in open_tasks(): t.done = True
    db.bind('sqlite', path, create_db=True)
    db.generate_mapping(create_tables=True)
    problems = []
    def do_flush():
        if flush_by == 'flush': orm.flush()
        elif flush_by == 'commit': orm.commit()
        else: orm.select(c for c in CloseAll)[:]       # the auto-flush of an unrelated query
    try:
        with orm.db_session:
            Task(id=1); Task(id=2); Note(id=10, text='old')
        with orm.db_session:
            if hook in ('before_insert', 'before_insert_param'):
                Note(id=1)
                do_flush()
                got = sorted(n.id for n in (all_notes() if hook == 'before_insert' else notes_at_least(1)))
                in_db = sorted(r for r in db.select('id from Note'))
                if got != in_db: problems.append('after the flush select(n for n in Note) answers %s, the database holds %s' % (got, in_db))
                cnt = orm.select(orm.count(n) for n in Note).first()
                if cnt != len(in_db): problems.append('count(n for n in Note) = %s, rows = %s' % (cnt, len(in_db)))
            elif hook == 'before_update':
                before = sorted(n.id for n in all_notes())
                Note(id=2)
                Note[10].text = 'new'
                do_flush()
                got = sorted(n.id for n in all_notes())
                in_db = sorted(r for r in db.select('id from Note'))
                if got != in_db: problems.append('after the flush select(n for n in Note) answers %s (it answered %s before), the database holds %s' % (got, before, in_db))
            else:
                CloseAll(id=1)
                do_flush()
                got = sorted(t.id for t in open_tasks())
                in_db = sorted(r for r in db.select('id from Task where not done'))
                by_attr = sorted(t.id for t in (Task[1], Task[2]) if not t.done)
                if not (got == in_db == by_attr):
                    problems.append('after the flush select(t for t in Task if not t.done) answers %s; database %s, attributes %s' % (got, in_db, by_attr))
    finally:
        db.disconnect()
    return problems


C10_CASES = {'hook:%s:%s' % (h, f): (h, f) for h, f in itertools.product(('before_insert', 'before_insert_param', 'before_update', 'after_insert'), ('flush', 'commit', 'autoflush'))}


# ---------------------------------------------------------------- C11: a row loaded over a pending write of a unique attribute

def c11_case(workdir, loader, then):
    path = os.path.join(workdir, 'c11.sqlite')
    if os.path.exists(path): os.remove(path)
    db = orm.Database()
    class Person(db.Entity):
        id = orm.PrimaryKey(int)
        name = orm.Required(str)
        email = orm.Required(str, unique=True)
        nick = orm.Optional(str, unique=True, nullable=True)
        boss = orm.Optional('Person', reverse='staff')
        staff = orm.Set('Person', reverse='boss')
        cars = orm.Set('Car')
    class Car(db.Entity):
        id = orm.PrimaryKey(int)
        owner = orm.Required(Person)
    db.bind('sqlite', path, create_db=True)
    db.generate_mapping(create_tables=True)
    problems = []
    def check_indexes(label):
        cache = db._get_cache()
        for attr in (Person.email, Person.nick):
            index = cache.indexes[attr]
            for obj in cache.objects:
                if not isinstance(obj, Person) or obj._status_ in ('deleted', 'cancelled', 'marked_to_delete'): continue
                val = obj._vals_.get(attr)
                if val is None: continue
                if index.get(val) is not obj:
                    problems.append('%s: %r holds %s %r, but the session index maps %r to %r' % (label, obj, attr.name, val, val, index.get(val)))
            for val, obj in index.items():
                if obj._vals_.get(attr) != val:
                    problems.append('%s: the session index maps %s %r to %r, whose value is %r' % (label, attr.name, val, obj, obj._vals_.get(attr)))
    try:
        with orm.db_session:
            p = Person(id=1, name='A', email='a', nick='na')
            Person(id=5, name='Boss', email='boss')
            Car(id=1, owner=p)
        with orm.db_session:
            boss = Person[5]
            p = Car[1].owner                       # placeholder: only the primary key is known
            p.email = 'b'                          # pending write of a unique attribute
            if then == 'two-keys': p.nick = 'nb'
            check_indexes('after the assignment')
            if loader == 'set-ref': p.set(boss=boss)            # loads the row with flushing disabled
            elif loader == 'set-ref-and-name': p.set(boss=boss, name='AA')
            elif loader == 'staff-add': boss.staff.add(p)       # reverse.__set__ of an unloaded to-one attribute loads the row as well
            elif loader == 'attr-read': p.name
            else: Person.select(lambda x: x.id == 1)[:]
            if p.email != 'b': problems.append('p.email reads %r after the load, the program wrote b' % p.email)
            check_indexes('after the load')
            same = Person.get(email='b')
            if same is not p: problems.append("Person.get(email='b') returned %r, not the object %r that holds 'b'" % (same, p))
            try: q = Person(id=2, name='Q', email='b')
            except orm.core.CacheIndexError: pass
            else:
                problems.append("two live objects in one session hold the unique email 'b': %r and %r" % (p, q))
                q.delete()
            try: r = Person(id=3, name='R', email='a')
            except orm.core.CacheIndexError as e: problems.append("email 'a' is held by no object in the session, yet a creation with it was refused: %s" % e)
            else:
                check_indexes('after the reuse of the vacated value')
                orm.flush()
                if Person.get(email='a') is not r or Person.get(email='b') is not p: problems.append('lookups by email do not return the holders after the flush')
            orm.commit()
        with orm.db_session:
            rows = sorted((x.id, x.email) for x in Person.select())
            if (1, 'b') not in rows or (3, 'a') not in rows: problems.append('committed rows %s: expected (1, b) and (3, a)' % rows)
    finally:
        db.disconnect()
    return problems


C11_CASES = {'pending-unique:%s:%s' % (l, t): (l, t) for l, t in itertools.product(('set-ref', 'set-ref-and-name', 'staff-add', 'attr-read', 'query'), ('one-key', 'two-keys'))}


# ---------------------------------------------------------------- C12: membership probes on partially loaded many-to-many collections

def c12_case(workdir, side, link):
    path = os.path.join(workdir, 'c12.sqlite')
    if os.path.exists(path): os.remove(path)
    db = orm.Database()
    class Student(db.Entity):
        id = orm.PrimaryKey(int)
        courses = orm.Set('Course')
    class Course(db.Entity):
        id = orm.PrimaryKey(int)
        students = orm.Set(Student)
    db.bind('sqlite', path, create_db=True)
    db.generate_mapping(create_tables=True)
    problems = []
    # side 's': probes on student.courses, links made from course.students; side 'c': the mirror image
    def own(o): return o.courses if isinstance(o, Student) else o.students
    try:
        with orm.db_session:
            s1, s2 = Student(id=1), Student(id=2)
            c1, c2 = Course(id=1), Course(id=2)
            s1.courses.add(c1)
            if side == 'c': pass
            Student(id=3); Course(id=3)
        with orm.db_session:
            S = {i: Student[i] for i in (1, 2, 3)}; C = {i: Course[i] for i in (1, 2, 3)}
            a, others = (S[1], C) if side == 's' else (C[1], S)
            x, y = others[2], others[3]
            def agree(label, o):
                p1 = o in own(a); p2 = a in own(o); p3 = a in set(own(o))
                if not (p1 == p2 == p3): problems.append('%s: %r in %r.coll is %s, %r in %r.coll is %s, by iteration of the other end %s' % (label, o, a, p1, a, o, p2, p3))
                return p1
            if x in own(a): problems.append('a membership probe is True before anything was linked')
            if link == 'add': own(x).add(a)
            elif link == 'assign': (setattr(x, 'students', [a]) if side == 's' else setattr(x, 'courses', [a]))
            elif link == 'add-remove-add': own(x).add(a); own(x).remove(a); own(x).add(a)
            elif link == 'add-flush': own(x).add(a); orm.flush()
            else:   # 'remove': probe a present member, unlink it from the other end
                if not (others[1] in own(a)): problems.append('a stored member is not found by the probe')
                own(others[1]).remove(a)
            expect_x = link != 'remove'
            if link == 'remove':
                if agree('after the removal from the other end', others[1]): problems.append('the removed member is still found by the probe')
            else:
                if not agree('after the link from the other end', x): problems.append('the member linked from the other end is not found by the probe')
            agree('an object never linked', y)
            members = {o.id for o in own(a)}
            want = ({1, 2} if link != 'remove' else set())
            if members != want: problems.append('iteration shows %s, expected %s' % (sorted(members), sorted(want)))
            for o in others.values():
                if (o in own(a)) != (o.id in want): problems.append('probe after the full load: %r in coll is %s' % (o, o in own(a)))
        with orm.db_session:
            a = Student[1] if side == 's' else Course[1]
            got = {o.id for o in own(a)}
            if got != want: problems.append('a new session reads %s, expected %s' % (sorted(got), sorted(want)))
    finally:
        db.disconnect()
    return problems


C12_CASES = {'probe:%s:%s' % (sd, l): (sd, l) for sd, l in itertools.product(('s', 'c'), ('add', 'assign', 'add-remove-add', 'add-flush', 'remove'))}


def main():
    payload = json.loads(sys.stdin.read())
    fam = payload['family']
    table, fn = {'c09': (C09_CASES, c09_case), 'c10': (C10_CASES, c10_case), 'c11': (C11_CASES, c11_case), 'c12': (C12_CASES, c12_case)}[fam]
    names = payload.get('cases') or sorted(table)
    work = tempfile.mkdtemp(prefix='scen_', dir='/tmp')
    out = []
    try:
        for name in names:
            try: problems = fn(work, *table[name])
            except Exception as e: problems = ['the scenario raised %s: %s' % (type(e).__name__, str(e)[:300])]
            out.append({'case': name, 'ok': not problems, 'detail': '; '.join(problems)})
    finally:
        shutil.rmtree(work, ignore_errors=True)
    sys.stdout.write('\n@@JSON@@' + json.dumps({'results': out}))


if __name__ == '__main__':
    main()
