"""C09 / C10, fixed multi-step scenarios (implementation side) for two shapes the history fuzzer does not generate.

C09 "undo":   a many-to-many collection with a pending, unflushed change (remove / add / both, made from either side), then obj.delete() that empties the
              collection and then FAILS (a later Set(..., cascade_delete=False) whose reverse is Required -> ConstraintError, caught by the program), then
              commit - or flush + commit, or rollback.  The session's view (both sides), the view after the commit and the link rows read through a second
              connection must all equal the logical state: the pending change applied, the failed delete without effect.
C10 "hooks":  entity hooks that run a query while a flush is in progress (before_insert / before_update: the query runs against the state before the
              pending rows are written; after_insert: the hook queries and then modifies the objects it found, which makes the flush go round again).
              After the flush (explicit, by commit, or the auto-flush of another query) the SAME query - same code object, same parameters - must agree
              with the rows in the database and with the objects' own attributes.

Script protocol (vlib.run_impl): {"family": "c09"|"c10", "cases": [name...] | null} -> {"results": [{"case", "ok", "detail"}]}
"""
import itertools, json, os, sqlite3, sys, tempfile, shutil, warnings

warnings.simplefilter('ignore')
from pony import orm


# ---------------------------------------------------------------- C09: failed delete after a pending collection change

def c09_case(workdir, side, pending, ending, with_failed_delete=True):
    path = os.path.join(workdir, 'c09.sqlite')
    if os.path.exists(path): os.remove(path)
    db = orm.Database()
    class Author(db.Entity):
        id = orm.PrimaryKey(int)
        books = orm.Set('Book')
        contracts = orm.Set('Contract', cascade_delete=False)
    class Book(db.Entity):
        id = orm.PrimaryKey(int)
        authors = orm.Set(Author)
        reviews = orm.Set('Review', cascade_delete=False)
    class Contract(db.Entity):
        id = orm.PrimaryKey(int)
        author = orm.Required(Author)
    class Review(db.Entity):
        id = orm.PrimaryKey(int)
        book = orm.Required(Book)
    db.bind('sqlite', path, create_db=True)
    db.generate_mapping(create_tables=True)
    problems = []
    try:
        with orm.db_session:
            a1, a2 = Author(id=1), Author(id=2)
            bs = [Book(id=i) for i in (1, 2, 3, 4)]
            for b in bs[:3]: a1.books.add(b)
            a2.books.add(bs[0])
            Contract(id=1, author=a1); Review(id=1, book=bs[0])
        links0 = {(1, 1), (1, 2), (1, 3), (2, 1)}

        def stored():
            con = sqlite3.connect(path)
            try:
                tab = [r[0] for r in con.execute("select name from sqlite_master where type='table'") if r[0].lower() not in ('author', 'book', 'contract', 'review')][0]
                cols = [r[1] for r in con.execute('PRAGMA table_info("%s")' % tab)]
                ca = [c for c in cols if c.lower().startswith('author')][0]; cb = [c for c in cols if c.lower().startswith('book')][0]
                return {tuple(r) for r in con.execute('select "%s", "%s" from "%s"' % (ca, cb, tab))}
            finally: con.close()

        def views():
            va = {(a.id, b.id) for a in Author.select() for b in a.books}
            vb = {(a.id, b.id) for b in Book.select() for a in b.authors}
            return va, vb

        expected = set(links0)
        with orm.db_session:
            # the owner of the collection that is going to be deleted: author 1 (side 'a') or book 1 (side 'b')
            owner = Author[1] if side == 'a' else Book[1]
            if side == 'a':
                if 'remove' in pending: owner.books.remove(Book[1]); expected.discard((1, 1))
                if 'add' in pending: owner.books.add(Book[4]); expected.add((1, 4))
            else:
                if 'remove' in pending: owner.authors.remove(Author[2]); expected.discard((2, 1))
                if 'add' in pending: Author[2].books.add(Book[2]); expected.add((2, 2))        # a pending change made from the other side
            if with_failed_delete:
                try: owner.delete()
                except orm.ConstraintError: pass
                else: problems.append('delete() of an object with a Required dependant was expected to raise ConstraintError')
            va, vb = views()
            if va != expected or vb != expected:
                problems.append('after the failed delete the session shows %s (authors) / %s (books), expected %s' % (sorted(va), sorted(vb), sorted(expected)))
            if ending == 'rollback':
                orm.rollback(); expected = set(links0)
            else:
                if ending == 'flush-commit': orm.flush()
                orm.commit()
                va, vb = views()
                if va != expected or vb != expected:
                    problems.append('after the commit the session shows %s / %s, expected %s' % (sorted(va), sorted(vb), sorted(expected)))
        st = stored()
        if st != expected:
            problems.append('committed link rows %s differ from what the program committed %s' % (sorted(st), sorted(expected)))
        with orm.db_session:
            va, vb = views()
            if va != expected or vb != expected: problems.append('a new session reads %s / %s, expected %s' % (sorted(va), sorted(vb), sorted(expected)))
    finally:
        db.disconnect()
    return problems


C09_CASES = {}
for _side, _pend, _end in itertools.product(('a', 'b'), ('none', 'remove', 'add', 'remove+add'), ('commit', 'flush-commit', 'rollback')):
    C09_CASES['undo:%s:%s:%s' % (_side, _pend, _end)] = (_side, _pend, _end, True)
for _side, _pend in itertools.product(('a', 'b'), ('remove', 'add')):
    C09_CASES['control:%s:%s' % (_side, _pend)] = (_side, _pend, 'commit', False)


# ---------------------------------------------------------------- C10: queries run by hooks during a flush

def c10_case(workdir, hook, flush_by):
    path = os.path.join(workdir, 'c10.sqlite')
    if os.path.exists(path): os.remove(path)
    db = orm.Database()
    def all_notes(): return orm.select(n for n in Note)[:]
    def open_tasks(): return orm.select(t for t in Task if not t.done)[:]
    def notes_at_least(k): return orm.select(n for n in Note if n.id >= k)[:]
    class Note(db.Entity):
        id = orm.PrimaryKey(int)
        seq = orm.Optional(int)
        text = orm.Optional(str)
        def before_insert(self):
            if hook in ('before_insert', 'before_insert_param'):
                self.seq = len(all_notes() if hook == 'before_insert' else notes_at_least(1)) + 1
        def before_update(self):
            if hook == 'before_update': self.seq = len(all_notes()) + 100
    class Task(db.Entity):
        id = orm.PrimaryKey(int)
        done = orm.Required(bool, default=False)
    class CloseAll(db.Entity):
        id = orm.PrimaryKey(int)
        def after_insert(self):
            if hook == 'after_insert':
                for t in open_tasks(): t.done = True
    db.bind('sqlite', path, create_db=True)
    db.generate_mapping(create_tables=True)
    problems = []
    def do_flush():
        if flush_by == 'flush': orm.flush()
        elif flush_by == 'commit': orm.commit()
        else: orm.select(c for c in CloseAll)[:]       # the auto-flush of an unrelated query
    try:
        with orm.db_session:
            Task(id=1); Task(id=2); Note(id=10, text='old')
        with orm.db_session:
            if hook in ('before_insert', 'before_insert_param'):
                Note(id=1)
                do_flush()
                got = sorted(n.id for n in (all_notes() if hook == 'before_insert' else notes_at_least(1)))
                in_db = sorted(r for r in db.select('id from Note'))
                if got != in_db: problems.append('after the flush select(n for n in Note) answers %s, the database holds %s' % (got, in_db))
                cnt = orm.select(orm.count(n) for n in Note).first()
                if cnt != len(in_db): problems.append('count(n for n in Note) = %s, rows = %s' % (cnt, len(in_db)))
            elif hook == 'before_update':
                before = sorted(n.id for n in all_notes())
                Note(id=2)
                Note[10].text = 'new'
                do_flush()
                got = sorted(n.id for n in all_notes())
                in_db = sorted(r for r in db.select('id from Note'))
                if got != in_db: problems.append('after the flush select(n for n in Note) answers %s (it answered %s before), the database holds %s' % (got, before, in_db))
            else:
                CloseAll(id=1)
                do_flush()
                got = sorted(t.id for t in open_tasks())
                in_db = sorted(r for r in db.select('id from Task where not done'))
                by_attr = sorted(t.id for t in (Task[1], Task[2]) if not t.done)
                if not (got == in_db == by_attr):
                    problems.append('after the flush select(t for t in Task if not t.done) answers %s; database %s, attributes %s' % (got, in_db, by_attr))
    finally:
        db.disconnect()
    return problems


C10_CASES = {'hook:%s:%s' % (h, f): (h, f) for h, f in itertools.product(('before_insert', 'before_insert_param', 'before_update', 'after_insert'), ('flush', 'commit', 'autoflush'))}


def main():
    payload = json.loads(sys.stdin.read())
    fam = payload['family']
    table, fn = (C09_CASES, c09_case) if fam == 'c09' else (C10_CASES, c10_case)
    names = payload.get('cases') or sorted(table)
    work = tempfile.mkdtemp(prefix='scen_', dir='/tmp')
    out = []
    try:
        for name in names:
            try: problems = fn(work, *table[name])
            except Exception as e: problems = ['the scenario raised %s: %s' % (type(e).__name__, str(e)[:300])]
            out.append({'case': name, 'ok': not problems, 'detail': '; '.join(problems)})
    finally:
        shutil.rmtree(work, ignore_errors=True)
    sys.stdout.write('\n@@JSON@@' + json.dumps({'results': out}))


if __name__ == '__main__':
    main()
