"""C28 implementation driver: documents, operations, and their execution against real Pony on SQLite (in-process).

An operation is a JSON-able dict:
    {'p': [path of int / str], 'm': <method>, 'a': [args]}    |    {'m': 'commit'}    |    {'m': 'newsession'}
list methods : setitem[i,v] setslice[a,b,aslist,items] delitem[i] delslice[a,b] append[v] extend[aslist,items] insert[i,v]
               pop[i|None] remove[v] reverse[] sort[rev] clear[] iadd[items] imul[n]
dict methods : dsetitem[k,v] ddelitem[k] update[form,kvs] setdefault[k,v] dpop[k,has_default,default] popitem[] dclear[] ior[kvs]
read         : read[name]        (a non-mutating name of dir(list) / dir(dict))
touch_other  : {'m': 'touch_other', 'a': [n]}   assign the object's *other* attribute (no effect on this one)
"""
import copy, json, operator

LIST_OPS = ['setitem', 'setslice', 'delitem', 'delslice', 'append', 'extend', 'insert', 'pop', 'remove', 'reverse', 'sort', 'clear', 'iadd', 'imul']
DICT_OPS = ['dsetitem', 'ddelitem', 'update', 'setdefault', 'dpop', 'popitem', 'dclear', 'ior']
PYNAME = {'setitem': '__setitem__', 'setslice': '__setitem__', 'delitem': '__delitem__', 'delslice': '__delitem__', 'append': 'append',
          'extend': 'extend', 'insert': 'insert', 'pop': 'pop', 'remove': 'remove', 'reverse': 'reverse', 'sort': 'sort', 'clear': 'clear',
          'iadd': '__iadd__', 'imul': '__imul__', 'dsetitem': '__setitem__', 'ddelitem': '__delitem__', 'update': 'update',
          'setdefault': 'setdefault', 'dpop': 'pop', 'popitem': 'popitem', 'dclear': 'clear', 'ior': '__ior__'}
EXPECTED_ERRORS = (IndexError, KeyError, ValueError, TypeError, AttributeError)

READ_ARGS = [(), (0,), ('a',), ([1],), (1, 1), ('zz', None), ({'q': 1},), (2,)]


def navigate(root, path):
    c = root
    for k in path:
        c = c[k]
    return c


def apply_op(c, m, a):
    """apply one mutator / reader to the container c (a real tracked value or a plain Python value)"""
    a = copy.deepcopy(a)
    if m == 'setitem': c[a[0]] = a[1]
    elif m == 'setslice': c[a[0]:a[1]] = a[3] if a[2] else tuple(a[3])
    elif m == 'delitem': del c[a[0]]
    elif m == 'delslice': del c[a[0]:a[1]]
    elif m == 'append': c.append(a[0])
    elif m == 'extend': c.extend(a[1] if a[0] else tuple(a[1]))
    elif m == 'insert': c.insert(a[0], a[1])
    elif m == 'pop': c.pop() if a[0] is None else c.pop(a[0])
    elif m == 'remove': c.remove(a[0])
    elif m == 'reverse': c.reverse()
    elif m == 'sort': c.sort(reverse=a[0])
    elif m == 'clear': c.clear()
    elif m == 'iadd': operator.iadd(c, a[0])
    elif m == 'imul': operator.imul(c, a[0])
    elif m == 'dsetitem': c[a[0]] = a[1]
    elif m == 'ddelitem': del c[a[0]]
    elif m == 'update':
        if a[0] == 'dict': c.update(dict(a[1]))
        elif a[0] == 'pairs': c.update([tuple(kv) for kv in a[1]])
        else: c.update(**dict(a[1]))
    elif m == 'setdefault': c.setdefault(a[0], a[1])
    elif m == 'dpop': c.pop(a[0], a[2]) if a[1] else c.pop(a[0])
    elif m == 'popitem': c.popitem()
    elif m == 'dclear': c.clear()
    elif m == 'ior': operator.ior(c, dict(a[0]))
    elif m == 'read':
        f = getattr(c, a[0])
        if callable(f):
            for args in READ_ARGS:
                try:
                    r = f(*copy.deepcopy(args))
                    try: iter(r) and list(r)
                    except TypeError: pass
                    break
                except TypeError: continue
    elif m == 'raw':                    # any method name with literal arguments (sweep over dir(list) / dir(dict))
        args = [slice(*x['slice']) if isinstance(x, dict) and 'slice' in x else x for x in a[1]]
        getattr(c, a[0])(*args)
    else:
        raise AssertionError('unknown op %r' % m)


def plain_step(value, op):
    """reference: the same operation on a plain Python value (CPython's own list / dict). Returns False if it raised."""
    try:
        apply_op(navigate(value, op['p']), op['m'], op['a'])
        return True
    except EXPECTED_ERRORS:
        return False


# ------------------------------------------------------------------------------------------------ real Pony

_env = {}

def env():
    if not _env:
        from pony import orm
        db = orm.Database('sqlite', ':memory:')
        class E(db.Entity):
            j = orm.Optional(orm.Json)
            a = orm.Optional(orm.IntArray)
        db.generate_mapping(create_tables=True)
        _env.update(db=db, E=E, orm=orm)
    return _env


def observe(obj, attr, val, sess):
    """the value as a tree with tracking tags: ['L'|'D', tag, items]; tag = session index if the container is a Tracked* bound to
    (obj, attr), -1 if it is tracked by somebody else, None for a plain list / dict"""
    from pony.orm.ormtypes import TrackedValue
    def tag(c):
        if isinstance(c, TrackedValue):
            return sess if (c.obj_ref() is obj and c.attr is attr) else -1
        return None
    def go(c):
        if isinstance(c, dict): return ['D', tag(c), [[k, go(v)] for k, v in c.items()]]
        if isinstance(c, (list, tuple)): return ['L', tag(c), [go(v) for v in c]]
        return c
    return go(val)


def untag(t):
    if isinstance(t, list) and len(t) == 3 and t[0] == 'D': return {k: untag(v) for k, v in t[2]}
    if isinstance(t, list) and len(t) == 3 and t[0] == 'L': return [untag(v) for v in t[2]]
    return t


def all_tagged(t, sess):
    if isinstance(t, list) and len(t) == 3 and t[0] in 'DL':
        if t[1] != sess: return False
        return all(all_tagged(v[1] if t[0] == 'D' else v, sess) for v in t[2])
    return True


class Session(object):
    """one object with a Json (kind='json') or IntArray (kind='array') attribute, driven through real db_sessions"""
    def __init__(self, kind, doc):
        e = env()
        self.kind, self.orm, self.E, self.db = kind, e['orm'], e['E'], e['db']
        self.attr = self.E.j if kind == 'json' else self.E.a
        self.col = 'j' if kind == 'json' else 'a'
        with self.orm.db_session:
            obj = self.E(**{self.col: copy.deepcopy(doc)})
            self.orm.commit()
            self.pk = obj.id
        self.sess = 0
        self.cm = None
        self.enter()
    def enter(self):
        self.cm = self.orm.db_session()
        self.cm.__enter__()
        self.obj = self.E[self.pk]
    def leave(self):
        if self.cm is not None:
            cm, self.cm = self.cm, None
            cm.__exit__(None, None, None)
    def abort(self):
        if self.cm is not None:
            cm, self.cm = self.cm, None
            try: self.orm.rollback()
            finally: cm.__exit__(None, None, None)
    def value(self):
        return self.attr.__get__(self.obj)
    def dirty(self):
        w = self.obj._wbits_
        return bool(w and (w & self.obj._bits_[self.attr]))
    def stored(self):
        con = self.db._get_cache().connection or self.db.get_connection()
        text = con.execute('select %s from E where id = ?' % self.col, (self.pk,)).fetchone()[0]
        return json.loads(text, object_pairs_hook=lambda kv: ['D', None, [[k, v] for k, v in kv]])
    def state(self):
        return {'root': observe(self.obj, self.attr, self.value(), self.sess), 'dirty': self.dirty(), 'db': self.stored()}
    def step(self, op):
        """-> name of the exception raised, or None"""
        m = op['m']
        if m == 'commit':
            self.orm.commit(); return None
        if m == 'newsession':
            self.leave(); self.sess += 1; self.enter(); return None
        if m == 'touch_other':            # assign the object's other attribute: the object becomes 'modified' for another column
            if self.kind == 'json': self.obj.a = [op['a'][0]]
            else: self.obj.j = {'t': op['a'][0]}
            return None
        try:
            apply_op(navigate(self.value(), op['p']), m, op['a'])
            return None
        except EXPECTED_ERRORS as e:
            return type(e).__name__
    def finish(self):
        """leave the session (commits), read the object again in a fresh session -> plain value"""
        self.leave()
        with self.orm.db_session:
            v = self.attr.__get__(self.E[self.pk])
            out = untag(observe(None, None, v, None))
        self.cleanup()
        return out
    def cleanup(self):
        self.abort()
        with self.orm.db_session:
            self.E[self.pk].delete()


def run_trace(kind, doc, ops):
    """states after every op (for the correspondence with the Coq model)"""
    s = Session(kind, doc)
    try:
        st0 = s.state()
        out = []
        for op in ops:
            err = s.step(op)
            st = s.state(); st['err'] = err
            out.append(st)
        return st0, out
    finally:
        s.cleanup()


def run_property(kind, doc, ops):
    """property-level oracle: run ops, note the value the program sees at the end, let the session commit, reload in a fresh
    session.  -> dict(seen=..., reloaded=..., lost=bool, trace=[(all_tagged, dirty, changed)])"""
    s = Session(kind, doc)
    ok = False
    try:
        trace = []
        for op in ops:
            before = untag(s.state()['root']) if op['m'] not in ('commit', 'newsession', 'touch_other') else None
            err = s.step(op)
            st = s.state()
            trace.append({'tagged': all_tagged(st['root'], s.sess), 'dirty': st['dirty'], 'err': err,
                          'changed': before is not None and untag(st['root']) != before})
        seen = untag(s.state()['root'])
        reloaded = s.finish()
        ok = True
        return {'seen': seen, 'reloaded': reloaded, 'lost': seen != reloaded, 'trace': trace}
    finally:
        if not ok: s.cleanup()
