"""C28 implementation driver: documents, operations, and their execution against real Pony on SQLite (in-process).

An operation is a JSON-able dict:
    {'p': [path of int / str], 'm': <method>, 'a': [args]}    |    {'m': 'commit'}    |    {'m': 'newsession'}
list methods : setitem[i,v] setslice[a,b,aslist,items] delitem[i] delslice[a,b] append[v] extend[aslist,items] insert[i,v]
               pop[i|None] remove[v] reverse[] sort[rev] clear[] iadd[items] imul[n]
dict methods : dsetitem[k,v] ddelitem[k] update[form,kvs] setdefault[k,v] dpop[k,has_default,default] popitem[] dclear[] ior[kvs]
read         : read[name]        (a non-mutating name of dir(list) / dir(dict))
touch_other  : {'m': 'touch_other', 'a': [n]}   assign the object's *other* attribute (no effect on this one)
"""
import copy, json, operator

LIST_OPS = ['setitem', 'setslice', 'delitem', 'delslice', 'append', 'extend', 'insert', 'pop', 'remove', 'reverse', 'sort', 'clear', 'iadd', 'imul']
DICT_OPS = ['dsetitem', 'ddelitem', 'update', 'setdefault', 'dpop', 'popitem', 'dclear', 'ior']
PYNAME = {'setitem': '__setitem__', 'setslice': '__setitem__', 'delitem': '__delitem__', 'delslice': '__delitem__', 'append': 'append',
          'extend': 'extend', 'insert': 'insert', 'pop': 'pop', 'remove': 'remove', 'reverse': 'reverse', 'sort': 'sort', 'clear': 'clear',
          'iadd': '__iadd__', 'imul': '__imul__', 'dsetitem': '__setitem__', 'ddelitem': '__delitem__', 'update': 'update',
          'setdefault': 'setdefault', 'dpop': 'pop', 'popitem': 'popitem', 'dclear': 'clear', 'ior': '__ior__'}
EXPECTED_ERRORS = (IndexError, KeyError, ValueError, TypeError, AttributeError)

READ_ARGS = [(), (0,), ('a',), ([1],), (1, 1), ('zz', None), ({'q': 1},), (2,)]


def navigate(root, path):
    c = root
    for k in path:
        c = c[k]
    return c


def apply_op(c, m, a):
    """apply one mutator / reader to the container c (a real tracked value or a plain Python value)"""
    a = copy.deepcopy(a)
    if m == 'setitem': c[a[0]] = a[1]
    elif m == 'setslice': c[a[0]:a[1]] = a[3] if a[2] else tuple(a[3])
    elif m == 'delitem': del c[a[0]]
    elif m == 'delslice': del c[a[0]:a[1]]
    elif m == 'append': c.append(a[0])
    elif m == 'extend': c.extend(a[1] if a[0] else tuple(a[1]))
    elif m == 'insert': c.insert(a[0], a[1])
    elif m == 'pop': c.pop() if a[0] is None else c.pop(a[0])
    elif m == 'remove': c.remove(a[0])
    elif m == 'reverse': c.reverse()
    elif m == 'sort': c.sort(reverse=a[0])
    elif m == 'clear': c.clear()
    elif m == 'iadd': operator.iadd(c, a[0])
    elif m == 'imul': operator.imul(c, a[0])
    elif m == 'dsetitem': c[a[0]] = a[1]
    elif m == 'ddelitem': del c[a[0]]
    elif m == 'update':
        if a[0] == 'dict': c.update(dict(a[1]))
        elif a[0] == 'pairs': c.update([tuple(kv) for kv in a[1]])
        else: c.update(**dict(a[1]))
    elif m == 'setdefault': c.setdefault(a[0], a[1])
    elif m == 'dpop': c.pop(a[0], a[2]) if a[1] else c.pop(a[0])
    elif m == 'popitem': c.popitem()
    elif m == 'dclear': c.clear()
    elif m == 'ior': operator.ior(c, dict(a[0]))
    elif m == 'read':
        f = getattr(c, a[0])
        if callable(f):
            for args in READ_ARGS:
                try:
                    r = f(*copy.deepcopy(args))
                    try: iter(r) and list(r)
                    except TypeError: pass
                    break
                except TypeError: continue
    elif m == 'raw':                    # any method name with literal arguments (sweep over dir(list) / dir(dict))
        args = [slice(*x['slice']) if isinstance(x, dict) and 'slice' in x else x for x in a[1]]
        getattr(c, a[0])(*args)
    else:
        raise AssertionError('unknown op %r' % m)


def plain_step(value, op):
    """reference: the same operation on a plain Python value (CPython's own list / dict). Returns False if it raised."""
    try:
        apply_op(navigate(value, op['p']), op['m'], op['a'])
        return True
    except EXPECTED_ERRORS:
        return False


# ------------------------------------------------------------------------------------------------ real Pony

_env = {}

def env():
    if not _env:
        from pony import orm
        db = orm.Database('sqlite', ':memory:')
        class E(db.Entity):
            j = orm.Optional(orm.Json)
            a = orm.Optional(orm.IntArray)
            sa = orm.Optional(orm.StrArray)
            fa = orm.Optional(orm.FloatArray)
        db.generate_mapping(create_tables=True)
        _env.update(db=db, E=E, orm=orm)
    return _env


def observe(obj, attr, val, sess):
    """the value as a tree with tracking tags: ['L'|'D', tag, items]; tag = session index if the container is a Tracked* bound to
    (obj, attr), -1 if it is tracked by somebody else, None for a plain list / dict"""
    from pony.orm.ormtypes import TrackedValue
    def tag(c):
        if isinstance(c, TrackedValue):
            return sess if (c.obj_ref() is obj and c.attr is attr) else -1
        return None
    def go(c):
        if isinstance(c, dict): return ['D', tag(c), [[k, go(v)] for k, v in c.items()]]
        if isinstance(c, (list, tuple)): return ['L', tag(c), [go(v) for v in c]]
        return c
    return go(val)


def untag(t):
    if isinstance(t, list) and len(t) == 3 and t[0] == 'D': return {k: untag(v) for k, v in t[2]}
    if isinstance(t, list) and len(t) == 3 and t[0] == 'L': return [untag(v) for v in t[2]]
    return t


def all_tagged(t, sess):
    if isinstance(t, list) and len(t) == 3 and t[0] in 'DL':
        if t[1] != sess: return False
        return all(all_tagged(v[1] if t[0] == 'D' else v, sess) for v in t[2])
    return True


class Session(object):
    """one object with a Json (kind='json') or IntArray (kind='array') attribute, driven through real db_sessions"""
    def __init__(self, kind, doc):
        e = env()
        self.kind, self.orm, self.E, self.db = kind, e['orm'], e['E'], e['db']
        self.col = {'json': 'j', 'array': 'a', 'sarray': 'sa', 'farray': 'fa'}[kind]
        self.attr = getattr(self.E, self.col)
        with self.orm.db_session:
            obj = self.E(**{self.col: copy.deepcopy(doc)})
            self.orm.commit()
            self.pk = obj.id
        self.sess = 0
        self.cm = None
        self.enter()
    def enter(self):
        self.cm = self.orm.db_session()
        self.cm.__enter__()
        self.obj = self.E[self.pk]
    def leave(self):
        if self.cm is not None:
            cm, self.cm = self.cm, None
            cm.__exit__(None, None, None)
    def abort(self):
        if self.cm is not None:
            cm, self.cm = self.cm, None
            try: self.orm.rollback()
            finally: cm.__exit__(None, None, None)
    def value(self):
        return self.attr.__get__(self.obj)
    def dirty(self):
        w = self.obj._wbits_
        return bool(w and (w & self.obj._bits_[self.attr]))
    def stored(self):
        con = self.db._get_cache().connection or self.db.get_connection()
        text = con.execute('select %s from E where id = ?' % self.col, (self.pk,)).fetchone()[0]
        return json.loads(text, object_pairs_hook=lambda kv: ['D', None, [[k, v] for k, v in kv]])
    def state(self):
        return {'root': observe(self.obj, self.attr, self.value(), self.sess), 'dirty': self.dirty(), 'db': self.stored()}
    def step(self, op):
        """-> name of the exception raised, or None"""
        m = op['m']
        if m == 'commit':
            self.orm.commit(); return None
        if m == 'newsession':
            self.leave(); self.sess += 1; self.enter(); return None
        if m == 'touch_other':            # assign the object's other attribute: the object becomes 'modified' for another column
            if self.kind == 'json': self.obj.a = [op['a'][0]]
            else: self.obj.j = {'t': op['a'][0]}
            return None
        try:
            apply_op(navigate(self.value(), op['p']), m, op['a'])
            return None
        except EXPECTED_ERRORS as e:
            return type(e).__name__
    def finish(self):
        """leave the session (commits), read the object again in a fresh session -> plain value"""
        self.leave()
        with self.orm.db_session:
            v = self.attr.__get__(self.E[self.pk])
            out = untag(observe(None, None, v, None))
        self.cleanup()
        return out
    def cleanup(self):
        self.abort()
        with self.orm.db_session:
            self.E[self.pk].delete()


def run_trace(kind, doc, ops):
    """states after every op (for the correspondence with the Coq model)"""
    s = Session(kind, doc)
    try:
        st0 = s.state()
        out = []
        for op in ops:
            err = s.step(op)
            st = s.state(); st['err'] = err
            out.append(st)
        return st0, out
    finally:
        s.cleanup()


def run_property(kind, doc, ops):
    """property-level oracle: run ops, note the value the program sees at the end, let the session commit, reload in a fresh
    session.  -> dict(seen=..., reloaded=..., lost=bool, trace=[(all_tagged, dirty, changed)])"""
    s = Session(kind, doc)
    ok = False
    try:
        trace = []
        for op in ops:
            before = untag(s.state()['root']) if op['m'] not in ('commit', 'newsession', 'touch_other') else None
            err = s.step(op)
            st = s.state()
            trace.append({'tagged': all_tagged(st['root'], s.sess), 'dirty': st['dirty'], 'err': err,
                          'changed': before is not None and untag(st['root']) != before})
        seen = untag(s.state()['root'])
        reloaded = s.finish()
        ok = True
        return {'seen': seen, 'reloaded': reloaded, 'lost': seen != reloaded, 'trace': trace}
    finally:
        if not ok: s.cleanup()


# ------------------------------------------------------------------------------------------------ several owners: 2 objects x 2 Json attributes
# slot i = (object i // 2, attribute j1 / j2).  Extra operations:
#   {'s': i, 'p': path, 'm': <method>, 'a': args}                              an operation inside slot i
#   {'m': 'copy', 'src': i, 'sp': path, 'dst': j, 'dp': path, 'how': [...]}    x = slot_i[sp]; slot_j[dp].<store>(x)   (x is passed as it is: a tracked value)
#   {'m': 'commit'} | {'m': 'flush'} | {'m': 'newsession'}
# how: ['setl', i] ['append'] ['insert', i] ['extend', aslist] ['iadd'] ['setd', k] ['update', k] ['setdefault', k] ['ior', k] ['embed', k, k2]

_wenv = {}

def wenv():
    if not _wenv:
        from pony import orm
        db = orm.Database('sqlite', ':memory:')
        class W(db.Entity):
            j1 = orm.Optional(orm.Json)
            j2 = orm.Optional(orm.Json)
        db.generate_mapping(create_tables=True)
        _wenv.update(db=db, W=W, orm=orm)
    return _wenv


def store(c, how, x):
    k = how[0]
    if k == 'setl': c[how[1]] = x
    elif k == 'append': c.append(x)
    elif k == 'insert': c.insert(how[1], x)
    elif k == 'extend': c.extend([x] if how[1] else (x,))
    elif k == 'iadd': operator.iadd(c, [x])
    elif k == 'setd': c[how[1]] = x
    elif k == 'update': c.update({how[1]: x})
    elif k == 'setdefault': c.setdefault(how[1], x)
    elif k == 'ior': operator.ior(c, {how[1]: x})
    elif k == 'embed': c[how[1]] = {how[2]: [x]}
    else: raise AssertionError(how)


def stored_at(dp, how):
    """path (in the receiving slot) of the value a copy stored"""
    k = how[0]
    if k in ('setl', 'insert'): return dp + [how[1]]
    if k in ('append', 'extend', 'iadd'): return dp + [-1]
    if k == 'embed': return dp + [how[1], how[2], 0]
    return dp + [how[1]]


def plain_wstep(values, op):
    """the same operation on plain Python values with copy-on-store (reference semantics of the model)"""
    try:
        if op['m'] == 'copy':
            x = copy.deepcopy(navigate(values[op['src']], op['sp']))
            store(navigate(values[op['dst']], op['dp']), op['how'], x)
        elif 's' in op:
            apply_op(navigate(values[op['s']], op['p']), op['m'], op['a'])
        return True
    except EXPECTED_ERRORS:
        return False


class World(object):
    NSLOTS = 4
    def __init__(self, docs):
        e = wenv()
        self.orm, self.W, self.db = e['orm'], e['W'], e['db']
        self.attrs = [self.W.j1, self.W.j2]
        with self.orm.db_session:
            objs = [self.W(j1=copy.deepcopy(docs[0]), j2=copy.deepcopy(docs[1])), self.W(j1=copy.deepcopy(docs[2]), j2=copy.deepcopy(docs[3]))]
            self.orm.commit()
            self.pks = [o.id for o in objs]
        self.sess = 0
        self.cm = None
        self.enter()
    def enter(self):
        self.cm = self.orm.db_session(); self.cm.__enter__()
        self.objs = [self.W[pk] for pk in self.pks]
    def leave(self):
        if self.cm is not None:
            cm, self.cm = self.cm, None
            cm.__exit__(None, None, None)
    def abort(self):
        if self.cm is not None:
            cm, self.cm = self.cm, None
            try: self.orm.rollback()
            finally: cm.__exit__(None, None, None)
    def slot(self, i): return self.objs[i // 2], self.attrs[i % 2]
    def value(self, i):
        obj, attr = self.slot(i)
        return attr.__get__(obj)
    def observe(self, i):
        from pony.orm.ormtypes import TrackedValue
        owners = {}
        for j in range(self.NSLOTS):
            o, a = self.slot(j); owners[(id(o), id(a))] = j
        def tag(c):
            if isinstance(c, TrackedValue):
                o = c.obj_ref()
                j = owners.get((id(o), id(c.attr)))
                return [self.sess, j] if j is not None else [999, 999]
            return None
        def go(c):
            if isinstance(c, dict): return ['D', tag(c), [[k, go(v)] for k, v in c.items()]]
            if isinstance(c, (list, tuple)): return ['L', tag(c), [go(v) for v in c]]
            return c
        return go(self.value(i))
    def dirty(self, i):
        obj, attr = self.slot(i)
        w = obj._wbits_
        return bool(w and (w & obj._bits_[attr]))
    def stored(self, i):
        con = self.db._get_cache().connection or self.db.get_connection()
        text = con.execute('select %s from W where id = ?' % ('j1', 'j2')[i % 2], (self.pks[i // 2],)).fetchone()[0]
        return json.loads(text, object_pairs_hook=lambda kv: ['D', None, [[k, v] for k, v in kv]])
    def state(self):
        return [{'root': self.observe(i), 'dirty': self.dirty(i), 'db': self.stored(i)} for i in range(self.NSLOTS)]
    def step(self, op):
        m = op['m']
        if m == 'commit': self.orm.commit(); return None
        if m == 'flush': self.orm.flush(); return None
        if m == 'newsession': self.leave(); self.sess += 1; self.enter(); return None
        try:
            if m == 'copy':
                x = navigate(self.value(op['src']), op['sp'])
                store(navigate(self.value(op['dst']), op['dp']), op['how'], x)
            else:
                apply_op(navigate(self.value(op['s']), op['p']), m, op['a'])
            return None
        except EXPECTED_ERRORS as e:
            return type(e).__name__
    def plain(self):
        return [untag(self.observe(i)) for i in range(self.NSLOTS)]
    def finish(self):
        self.leave()
        with self.orm.db_session:
            objs = [self.W[pk] for pk in self.pks]
            out = [untag(observe(None, None, self.attrs[i % 2].__get__(objs[i // 2]), None)) for i in range(self.NSLOTS)]
        self.cleanup()
        return out
    def cleanup(self):
        self.abort()
        with self.orm.db_session:
            for pk in self.pks: self.W[pk].delete()


def run_wtrace(docs, ops):
    w = World(docs)
    try:
        out = []
        for op in ops:
            err = w.step(op)
            out.append({'slots': w.state(), 'err': err})
        return out
    finally:
        w.cleanup()


def run_wproperty(docs, ops):
    """property oracle for several owners: (a) an operation through slot j never changes the write bit or the value of another slot;
    (b) what every slot shows at the end is what a fresh session reloads"""
    w = World(docs)
    ok = False
    try:
        foreign = None
        for n, op in enumerate(ops):
            before = w.state() if op['m'] not in ('commit', 'flush', 'newsession') else None
            w.step(op)
            if before is not None:
                after = w.state()
                mine = op['dst'] if op['m'] == 'copy' else op['s']
                for i in range(w.NSLOTS):
                    if i != mine and (after[i]['dirty'] != before[i]['dirty'] or untag(after[i]['root']) != untag(before[i]['root'])) and foreign is None:
                        foreign = {'step': n, 'slot': i, 'through': mine}
        seen = w.plain()
        reloaded = w.finish()
        ok = True
        return {'seen': seen, 'reloaded': reloaded, 'lost': seen != reloaded, 'foreign': foreign}
    finally:
        if not ok: w.cleanup()


def typed_array_case(kind, doc, method, item):
    """one mutator call with `item` on a typed array (kind: array / sarray / farray) -> dict(err, seen, reloaded, dirty)"""
    s = Session(kind, doc)
    ok = False
    try:
        v = s.value()
        try:
            if method == 'append': v.append(item)
            elif method == 'insert': v.insert(0, item)
            elif method == 'extend': v.extend([item])
            elif method == 'extend_iter': v.extend(x for x in [item])
            elif method == 'setitem': v[0] = item
            elif method == 'iadd': operator.iadd(v, [item])
            elif method == 'attr_iadd': setattr(s.obj, s.col, operator.iadd(getattr(s.obj, s.col), [item]))
            else: raise AssertionError(method)
            err = None
        except EXPECTED_ERRORS as e:
            err = type(e).__name__
        seen = list(s.value()); dirty = s.dirty()
        reloaded = s.finish(); ok = True
        return {'err': err, 'seen': seen, 'reloaded': reloaded, 'dirty': dirty}
    finally:
        if not ok: s.cleanup()


def json_wrapper_case(doc, path, m, a):
    """obj.j = Json(doc); commit(); change the value in place; leave the session; reload -> dict(seen, reloaded, wrapper)"""
    from pony.orm import Json
    s = Session('json', {'init': 0})
    ok = False
    try:
        s.obj.j = Json(copy.deepcopy(doc))
        s.orm.commit()
        v = s.value()
        wrapper = isinstance(v, Json)
        if wrapper: v = v.wrapped
        apply_op(navigate(v, path), m, a)
        v2 = s.value()
        seen = untag(observe(None, None, v2.wrapped if isinstance(v2, Json) else v2, None))
        reloaded = s.finish(); ok = True
        return {'seen': seen, 'reloaded': reloaded, 'wrapper': wrapper}
    finally:
        if not ok: s.cleanup()
