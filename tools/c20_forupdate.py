"""C20: direct checks of the exemptions from optimistic criteria on the real code (single session each):
objects locked for update, objects created in the session, non-optimistic sessions; plus a control."""
import json, os, sys, tempfile, shutil
import vlib
sys.path.insert(0, vlib.REPO)
import c20_sessions as S
from pony import orm


def main():
    json.load(sys.stdin)
    tmp = tempfile.mkdtemp(prefix='c20fu-', dir=os.environ.get('VERIF_TMP', '/tmp'))
    out = {'tests': []}
    try:
        S.install_trace()
        db = orm.Database('sqlite', os.path.join(tmp, 'fu.sqlite'), create_db=True)
        class P(db.Entity):
            a = orm.Optional(int)
            b = orm.Optional(int)
        db.generate_mapping(create_tables=True)
        with orm.db_session:
            P(id=1, a=1, b=2)

        def updates():
            ups = [S.parse_update(sql) for _, sql in S.TRACE]
            return [[list(map(list, u[1])), list(map(list, u[2]))] for u in ups if u]

        def test(name, want, body, **kw):
            del S.TRACE[:]
            locked_inside = []
            try:
                with orm.db_session(**kw):
                    body(locked_inside)
                got = updates()
            except Exception as e:
                got = 'EXC %s: %s' % (type(e).__name__, e)
            out['tests'].append({'name': name, 'got': [got, locked_inside, db.provider.transaction_lock.locked()], 'want': want})

        def control(l):
            p = P[1]; x = p.a; p.a = x + 1
        test('control: read a, write a in an optimistic session', [[[[['a', 2]], [['id', 1], ['a', 1]]]], [], False], control)

        def gfu(l):
            p = P.get_for_update(id=1); l.append(db.provider.transaction_lock.locked()); x = p.a; y = p.b; p.a = x + 1
        test('get_for_update: no criteria, write lock held from the SELECT on', [[[[['a', 3]], [['id', 1]]]], [True], False], gfu)

        def qfu(l):
            p = orm.select(p for p in P).for_update()[:][0]; l.append(db.provider.transaction_lock.locked()); x = p.a; p.b = x
        test('select().for_update(): no criteria, write lock held', [[[[['b', 3]], [['id', 1]]]], [True], False], qfu)

        def nonopt(l):
            p = P[1]; l.append(db.provider.transaction_lock.locked()); x = p.a; p.a = x + 1
        test('db_session(optimistic=False): no criteria, session is immediate (lock held from the first query)',
             [[[[['a', 4]], [['id', 1]]]], [True], False], nonopt, optimistic=False)

        def created(l):
            p = P(id=2, a=5, b=6); orm.flush(); l.append(db.provider.transaction_lock.locked()); x = p.a; p.a = x + 1
        test('object created in this session, flushed, then modified: no criteria', [[[[['a', 6]], [['id', 2]]]], [True], False], created)

        def two_flushes(l):
            p = P[1]; x = p.b; p.a = 7; orm.flush(); l.append(db.provider.transaction_lock.locked()); p.b = 8
        # second UPDATE: criteria on b (read) and on a (written by the first flush: rbits |= wbits, dbval = value written)
        test('two flushes in one session: the second UPDATE checks the value the first one wrote',
             [[[[['a', 7]], [['id', 1], ['b', 3]]], [[['b', 8]], [['id', 1], ['a', 7], ['b', 3]]]], [True], False], two_flushes)
        # outside a db_session (interactive mode): the rowcount test reads cache.db_session.optimistic although db_session is None
        import pony
        old_mode = pony.MODE
        try:
            pony.MODE = 'INTERACTIVE'
            import sqlite3
            p = P[1]; x = p.a
            con = sqlite3.connect(os.path.join(tmp, 'fu.sqlite'), timeout=5)
            con.execute('UPDATE P SET a = 500 WHERE id = 1'); con.commit(); con.close()
            p.a = x + 1
            try:
                orm.commit(); got = 'committed'
            except Exception as e:
                got = type(e).__name__
            try: orm.rollback()
            except Exception: pass
        finally:
            pony.MODE = old_mode
        out['tests'].append({'name': 'interactive mode (no db_session): a lost update is refused with OptimisticCheckError', 'got': got,
                             'want': 'OptimisticCheckError', 'as_coded': 'OptimisticCheckError', 'finding': 'interactive-mode:AttributeError-instead-of-OptimisticCheckError'})
        # DELETE carries no optimistic criteria (_save_deleted_): pinned behaviour, outside the statement ("an update of an object")
        del S.TRACE[:]
        with orm.db_session:
            P(id=5, a=1, b=1)
        with orm.db_session:
            q = P[5]; y = q.a
            con = sqlite3.connect(os.path.join(tmp, 'fu.sqlite'), timeout=5)
            con.execute('UPDATE P SET a = 99 WHERE id = 5'); con.commit(); con.close()
            q.delete()
        dels = [sql.replace('\n', ' ') for _, sql in S.TRACE if sql.startswith('DELETE')]
        out['tests'].append({'name': 'delete after read, concurrent update: DELETE carries only the pk and is applied (not an update: outside the statement)',
                             'got': dels, 'want': ['DELETE FROM "P" WHERE "id" = 5']})
    except BaseException as e:
        import traceback
        out['tests'].append({'name': 'driver error', 'got': traceback.format_exc()[-2000:], 'want': None})
    finally:
        sys.stdout.write('\n@@JSON@@' + json.dumps(out))
        sys.stdout.flush()
        shutil.rmtree(tmp, ignore_errors=True)
        os._exit(0)


if __name__ == '__main__':
    main()
