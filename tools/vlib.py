"""Shared machinery for the /verif checks (see DESIGN.md 2.4).

A property plugin is a module tools/props/cNN.py exposing:

    ID            'C25'
    LEVEL         'proof' (category written to the evidence file)
    PROPS         ['Props/C25.v']              Coq files holding the property theorems (cone roots)
    GEN           [('Gen/StringSlice.v', fn)]  optional; fn() -> Coq text translated from /repo (raise TranslateError to refuse)
    TRUSTED       [str]                        trusted-base lines for the evidence file
    ASSUMPTIONS   [str]
    RULE          str                          how cases are generated and what counts as non-trivial
    correspondence(ctx) -> Corr                model vs implementation (Tie B), or validation of reference semantics
    search(ctx, deep)   -> Search              property-level oracle against the implementation -> Failure list
    replay(ctx, data)   -> Failure | None      re-run one stored failing input against the implementation

The runner (run_check) implements the protocol: regenerate, build the proof cone, check Print
Assumptions, correspondence, search, known findings, VIOLATION lines, evidence.
"""
import fcntl, hashlib, json, os, random, re, shutil, subprocess, sys, tempfile, time, traceback

VERIF = os.path.dirname(os.path.dirname(os.path.abspath(__file__)))
REPO = os.environ.get('VERIF_REPO', '/repo')
COQ = os.path.join(VERIF, 'coq')
PY = '/venv/bin/python'
ALLOWED_AXIOMS = set()   # the goal is "Closed under the global context" everywhere
PRIMITIVE_PREFIXES = ('PrimFloat.', 'Uint63.', 'PrimInt63.', 'Float64', 'FloatOps.', 'SpecFloat.', 'Sint63.', 'PrimString.')

FORBIDDEN = re.compile(r'\b(Admitted|admit|Axiom|Axioms|Parameter|Parameters|Conjecture|Conjectures|Hypothesis|Hypotheses|'
                       r'Unset Guard Checking|bypass_check|Admit Obligations|give_up|Unset Positivity Checking|'
                       r'Unset Universe Checking|type-in-type|impredicative-set)\b')


class TranslateError(Exception):
    """Raised by a GEN function when the source no longer fits the translatable subset."""


class Failure(object):
    """A concrete input on which the implementation violates the property."""
    def __init__(self, key, what, data):
        self.key = key          # finding key: names the specific input class / call site / history
        self.what = what        # one line, human readable
        self.data = data        # JSON-able replay payload
    def to_json(self):
        return {'key': self.key, 'what': self.what, 'data': self.data}


class Corr(object):
    def __init__(self, cases=0, nontrivial=0, disagreements=None, samples=None, distribution=None, note=''):
        self.cases = cases
        self.nontrivial = nontrivial
        self.disagreements = disagreements or []     # list of dicts {what, input, model, impl}
        self.samples = samples or []
        self.distribution = distribution or {}
        self.note = note


class Search(object):
    def __init__(self, evaluations=0, failures=None, nontrivial=0, samples=None, distribution=None, exhaustive=False):
        self.evaluations = evaluations
        self.failures = failures or []
        self.nontrivial = nontrivial
        self.samples = samples or []
        self.distribution = distribution or {}
        self.exhaustive = exhaustive


import threading
_scratch_lock = threading.Lock()


class Ctx(object):
    def __init__(self, prop_id, tier, seed):
        self.prop_id = prop_id
        self.tier = tier
        self.seed = seed
        self.rng = random.Random(seed * 1000003 + int(prop_id[1:]))
        self.thorough = tier == 'thorough'
        self.scratch = None
    def scale(self, quick, thorough):
        return thorough if self.thorough else quick
    def mkscratch(self):
        with _scratch_lock:
            if self.scratch is None:
                base = os.path.join(VERIF, '.scratch')
                os.makedirs(base, exist_ok=True)
                self.scratch = tempfile.mkdtemp(prefix='%s-' % self.prop_id, dir=base)
        return self.scratch
    def cleanup(self):
        if self.scratch and os.path.isdir(self.scratch):
            shutil.rmtree(self.scratch, ignore_errors=True)


# ------------------------------------------------------------------------------------------------
# environment for implementation subprocesses

def impl_env(extra=None):
    env = dict(os.environ)
    env['PYTHONPATH'] = REPO + os.pathsep + os.path.join(VERIF, 'tools')
    env['PYTHONHASHSEED'] = '0'
    env['PONYORM_PONY_VERIF'] = '1'
    env.pop('PYTHONSTARTUP', None)
    if extra: env.update(extra)
    return env


def run_impl(script, payload, timeout=600, extra_env=None):
    """Run tools/<script> in a fresh interpreter against /repo; JSON in on stdin, JSON out on stdout."""
    path = script if os.path.isabs(script) else os.path.join(VERIF, 'tools', script)
    p = subprocess.run([PY, path], input=json.dumps(payload), capture_output=True, text=True,
                       timeout=timeout, env=impl_env(extra_env), cwd=VERIF)
    if p.returncode != 0:
        raise RuntimeError('implementation driver %s failed (exit %s):\n%s' % (script, p.returncode, p.stderr[-4000:]))
    out = p.stdout
    i = out.rfind('\n@@JSON@@')
    if i >= 0: out = out[i + len('\n@@JSON@@'):]
    return json.loads(out)


def stub_modules():
    """Register stand-ins for the DB drivers that are not installed, so that the PostgreSQL / MySQL /
    Oracle providers (SQL builders, converters) can be imported and bound through a pool mock-up."""
    import types
    def mod(name, **attrs):
        m = types.ModuleType(name)
        m.__dict__.update(attrs)
        sys.modules[name] = m
        return m
    if 'psycopg2' not in sys.modules:
        class _Exc(Exception): pass
        ext = mod('psycopg2.extensions', register_type=lambda *a, **k: None, UNICODE=object(), UNICODEARRAY=object(),
                  ISOLATION_LEVEL_AUTOCOMMIT=0, ISOLATION_LEVEL_READ_COMMITTED=1, ISOLATION_LEVEL_SERIALIZABLE=3,
                  register_adapter=lambda *a, **k: None, AsIs=str, adapt=lambda x: x)
        extras = mod('psycopg2.extras', register_uuid=lambda *a, **k: None, register_default_json=lambda *a, **k: None,
                     register_default_jsonb=lambda *a, **k: None, Json=lambda x, **k: x)
        errs = {n: type(n, (_Exc,), {}) for n in ('Warning Error InterfaceError DatabaseError DataError OperationalError '
                                                   'IntegrityError InternalError ProgrammingError NotSupportedError').split()}
        mod('psycopg2', extensions=ext, extras=extras, Binary=bytes, paramstyle='pyformat', **errs)
    if 'pymysql' not in sys.modules and 'MySQLdb' not in sys.modules:
        class _Exc2(Exception): pass
        errs = {n: type(n, (_Exc2,), {}) for n in ('Warning Error InterfaceError DatabaseError DataError OperationalError '
                                                    'IntegrityError InternalError ProgrammingError NotSupportedError').split()}
        conv = mod('pymysql.converters', encoders={}, decoders={}, conversions={}, escape_str=lambda s, *a: "'%s'" % s)
        consts_ft = mod('pymysql.constants.FIELD_TYPE', BLOB=252, TIME=11, DATE=10, TIMESTAMP=7, DATETIME=12)
        consts_flag = mod('pymysql.constants.FLAG', BINARY=128)
        consts_client = mod('pymysql.constants.CLIENT', FOUND_ROWS=2)
        consts = mod('pymysql.constants', FIELD_TYPE=consts_ft, FLAG=consts_flag, CLIENT=consts_client)
        mod('pymysql', converters=conv, constants=consts, paramstyle='format', **errs)
    if 'cx_Oracle' not in sys.modules:
        class _Exc3(Exception): pass
        errs = {n: type(n, (_Exc3,), {}) for n in ('Warning Error InterfaceError DatabaseError DataError OperationalError '
                                                    'IntegrityError InternalError ProgrammingError NotSupportedError').split()}
        mod('cx_Oracle', paramstyle='named', NUMBER=object(), STRING=object(), FIXED_CHAR=object(), CLOB=object(), BLOB=object(),
            LOB=type('LOB', (), {}), DATETIME=object(), TIMESTAMP=object(), INTERVAL=object(), NATIVE_FLOAT=object(),
            SessionPool=object, **errs)


def mock_database(provider):
    """A Database bound to `provider` ('sqlite' | 'postgres' | 'mysql' | 'oracle') through the repo's own pool mock-up
    (pony.orm.tests.testutils.TestDatabase): queries are translated and SQL is built, nothing is executed
    (db.sql / db.arguments hold the last statement)."""
    stub_modules()
    from pony.orm.tests.testutils import TestDatabase
    db = TestDatabase()
    if provider == 'sqlite': db.bind('sqlite', ':memory:')
    elif provider == 'oracle': db.bind('oracle', 'user/pwd@dsn')
    else: db.bind(provider, database='verif')
    return db


# ------------------------------------------------------------------------------------------------
# Coq build

class CoqLock(object):
    def __enter__(self):
        self.f = open(os.path.join(COQ, '.lock'), 'w')
        fcntl.flock(self.f, fcntl.LOCK_EX)
        return self
    def __exit__(self, *a):
        fcntl.flock(self.f, fcntl.LOCK_UN)
        self.f.close()


def all_v_files():
    out = []
    for d in ('Base', 'Sql', 'Gen', 'Model', 'Proofs', 'Props', 'Findings', 'Extract'):
        p = os.path.join(COQ, d)
        if not os.path.isdir(p): continue
        for root, _, files in os.walk(p):
            for f in sorted(files):
                if f.endswith('.v') and not f.startswith('.'):
                    out.append(os.path.relpath(os.path.join(root, f), COQ))
    return sorted(out)


def write_if_changed(path, text):
    try:
        with open(path) as f:
            if f.read() == text: return False
    except IOError:
        pass
    os.makedirs(os.path.dirname(path), exist_ok=True)
    with open(path, 'w') as f: f.write(text)
    return True


def refresh_coq_project():
    """(Re)write _CoqProject and Makefile.coq when the file list changed. Call under CoqLock."""
    files = all_v_files()
    text = '-Q . PonyV\n-arg -w -arg -notation-overridden,-deprecated-hint-without-locality,-deprecated-instance-without-locality\n' + '\n'.join(files) + '\n'
    changed = write_if_changed(os.path.join(COQ, '_CoqProject'), text)
    if changed or not os.path.exists(os.path.join(COQ, 'Makefile.coq')):
        subprocess.run(['coq_makefile', '-f', '_CoqProject', '-o', 'Makefile.coq'], cwd=COQ, check=True,
                       capture_output=True)


_req_re = re.compile(r'(?:From\s+PonyV\s+)?Require\s+(?:Import\s+|Export\s+)?([^.]*(?:\.[A-Za-z_][^.\s]*)*)\s*\.\s', re.S)


def require_names(src):
    """Logical names mentioned in the Require sentences of a (comment-stripped) Coq source. The source is cut into
    sentences at '.' followed by white space first, so a Require never swallows what follows it."""
    names = []
    for sent in re.split(r'\.(?:\s+|$)', src):
        m = re.match(r'\s*(?:From\s+(\S+)\s+)?Require\s+(?:Import\s+|Export\s+)?(.*)$', sent.strip(), re.S)
        if not m: continue
        prefix = m.group(1)
        for name in m.group(2).split():
            if not re.match(r'^[A-Za-z_][\w.]*$', name): continue
            if prefix and not name.startswith(prefix + '.'): name = prefix + '.' + name
            names.append(name)
    return names


def cone(roots):
    """Transitive PonyV dependencies (as relative .v paths) of the given .v files, by reading Require sentences."""
    seen, todo = [], list(roots)
    while todo:
        f = todo.pop()
        if f in seen: continue
        seen.append(f)
        try:
            src = strip_comments(open(os.path.join(COQ, f)).read())
        except IOError:
            continue
        for name in require_names(src):
            if name.startswith('PonyV.'):
                todo.append(name[len('PonyV.'):].replace('.', '/') + '.v')
    return sorted(seen)


def strip_comments(src):
    out, depth, i, n = [], 0, 0, len(src)
    in_str = False
    while i < n:
        c2 = src[i:i + 2]
        if not in_str and c2 == '(*':
            depth += 1; i += 2; continue
        if not in_str and depth and c2 == '*)':
            depth -= 1; i += 2; continue
        if depth == 0:
            if src[i] == '"': in_str = not in_str
            out.append(src[i])
        i += 1
    return ''.join(out)


_stmt_re = re.compile(r'^\s*(?:Local\s+|Global\s+|#\[[^\]]*\]\s*)*(Theorem|Lemma|Corollary|Example|Fact|Proposition|Remark)\s+([A-Za-z_][\w\']*)', re.M)


def count_obligations(files):
    names = []
    for f in files:
        try:
            src = strip_comments(open(os.path.join(COQ, f)).read())
        except IOError:
            continue
        for m in _stmt_re.finditer(src):
            names.append('%s:%s' % (f, m.group(2)))
    return names


def forbidden_scan(files):
    """Axiom/Admitted/... anywhere in the cone is a broken proof obligation. `Variable`/`Hypothesis` are only allowed
    inside a Section (checked textually: between `Section X.` and `End X.`)."""
    bad = []
    for f in files:
        try:
            src = strip_comments(open(os.path.join(COQ, f)).read())
        except IOError:
            continue
        depth = 0
        for ln, line in enumerate(src.split('\n'), 1):
            s = line.strip()
            if re.match(r'(Section|Module\s+Type)\s+\w+', s): depth += 1 if s.startswith('Section') else 0
            if re.match(r'End\s+\w+\s*\.', s) and depth > 0: depth -= 1
            for m in FORBIDDEN.finditer(line):
                w = m.group(1)
                if w in ('Hypothesis', 'Hypotheses') and depth > 0: continue
                bad.append('%s:%d: %s' % (f, ln, w))
            if re.match(r'(Variable|Variables|Context)\b', s) and depth == 0:
                bad.append('%s:%d: %s outside a Section' % (f, ln, s.split()[0]))
    return bad


def make_targets(targets, timeout=1500, jobs=8):
    """make the given .vo targets (full .vo build). Returns (ok, log)."""
    with CoqLock():
        refresh_coq_project()
        cmd = ['timeout', str(timeout), 'make', '-f', 'Makefile.coq', '-j%d' % jobs] + targets
        p = subprocess.run(cmd, cwd=COQ, capture_output=True, text=True)
        return p.returncode == 0, p.stdout + p.stderr


def parse_assumptions(log, props_files):
    """Read `Print Assumptions` output that coqc emits while compiling Props files.
    Returns {theorem: 'closed' | [axioms]} in order of appearance (keyed by position when names are unknown)."""
    res = []
    lines = log.split('\n')
    i = 0
    while i < len(lines):
        l = lines[i]
        if l.startswith('Closed under the global context'):
            res.append('closed')
        elif l.startswith('Axioms:'):
            ax = []
            i += 1
            while i < len(lines) and (lines[i].startswith(' ') or lines[i].strip() == '' or ':' in lines[i]) \
                    and not lines[i].startswith(('Closed', 'Axioms:', 'COQC', 'make', 'File ')):
                if lines[i].strip(): ax.append(lines[i].rstrip())
                i += 1
            res.append(ax)
            continue
        i += 1
    return res


def _cone_stamp(f):
    """Identity of the compiled cone of a property file: (path, size, mtime) of every .vo in it plus the .v text."""
    h = hashlib.sha1()
    for v in cone([f]):
        vo = os.path.join(COQ, v[:-2] + '.vo')
        try:
            st = os.stat(vo)
            h.update(('%s:%d:%d;' % (v, st.st_size, st.st_mtime_ns)).encode())
        except OSError:
            h.update(('%s:missing;' % v).encode())
    h.update(open(os.path.join(COQ, f), 'rb').read())
    return h.hexdigest()


def print_assumptions(props_files, timeout=600):
    """Re-run coqc on the Props files (they are tiny: `exact lemma`) to capture Print Assumptions output.
    The output is remembered per property file together with a stamp of the compiled cone (every .vo's size and
    mtime): it is re-used only while no file of the cone has been rebuilt."""
    out = {}
    cache_dir = os.path.join(COQ, '.pa_cache')
    os.makedirs(cache_dir, exist_ok=True)
    for f in props_files:
        cpath = os.path.join(cache_dir, f.replace('/', '_') + '.json')
        stamp0 = _cone_stamp(f)
        if not os.environ.get('VERIF_NO_PA_CACHE'):
            try:
                c = json.load(open(cpath))
                if c['stamp'] == stamp0:
                    out[f] = c['result']; continue
            except Exception:
                pass
        _print_assumptions_one(f, out, timeout)
        if 'error' not in out[f]:
            stamp1 = _cone_stamp(f)     # coqc rewrote the property file's own .vo
            try: json.dump({'stamp': stamp1, 'result': out[f]}, open(cpath, 'w'))
            except Exception: pass
    return out


def _print_assumptions_one(f, out, timeout):
    for f in [f]:
        src = strip_comments(open(os.path.join(COQ, f)).read())
        wanted = re.findall(r'Print\s+Assumptions\s+([\w\']+)\s*\.', src)
        with CoqLock():
            p = subprocess.run(['timeout', str(timeout), 'coqc', '-Q', '.', 'PonyV', '-w',
                                '-notation-overridden,-deprecated-hint-without-locality,-deprecated-instance-without-locality', f],
                               cwd=COQ, capture_output=True, text=True)
        if p.returncode != 0:
            out[f] = {'error': (p.stdout + p.stderr)[-3000:]}
            continue
        got = parse_assumptions(p.stdout, [f])
        d = {}
        for k, name in enumerate(wanted):
            d[name] = got[k] if k < len(got) else ['<no Print Assumptions output>']
        out[f] = d
    return out


def coq_eval(ctx, text, name='cases', timeout=900):
    """Compile a scratch .v file against the built development; return coqc's stdout (raise on failure)."""
    d = ctx.mkscratch()
    path = os.path.join(d, name + '.v')
    with open(path, 'w') as f: f.write(text)
    p = subprocess.run(['timeout', str(timeout), 'coqc', '-Q', COQ, 'PonyV', '-w', '-all', path],
                       cwd=d, capture_output=True, text=True)
    if p.returncode != 0:
        raise RuntimeError('coqc failed on %s:\n%s' % (path, (p.stdout + p.stderr)[-4000:]))
    return p.stdout


def coq_eval_many(ctx, header, chunks, name='cases', timeout=900, jobs=8):
    """Evaluate several scratch files in parallel (each = header + chunk); returns list of stdout strings."""
    from concurrent.futures import ThreadPoolExecutor
    def one(i_c):
        i, c = i_c
        return coq_eval(ctx, header + c, '%s%d' % (name, i), timeout)
    with ThreadPoolExecutor(max_workers=jobs) as ex:
        return list(ex.map(one, enumerate(chunks)))


def parse_eval_outputs(stdout):
    """Split coqc stdout of a file made of `Eval vm_compute in e.` commands into the printed values (as text)."""
    vals, cur = [], None
    for line in stdout.split('\n'):
        if line.startswith('     = '):
            if cur is not None: vals.append(cur)
            cur = line[7:]
        elif line.startswith('     : '):
            if cur is not None: vals.append(cur); cur = None
        elif cur is not None:
            cur += ' ' + line.strip()
    if cur is not None: vals.append(cur)
    return [re.sub(r'\s+', ' ', v).strip() for v in vals]


# Coq literal printers ----------------------------------------------------------------------------

def cz(n):
    return '(%d)%%Z' % n if n < 0 else '%d%%Z' % n

def cn(n):
    return '%d%%N' % n

def cnat(n):
    return '%d%%nat' % n

def cbool(b):
    return 'true' if b else 'false'

def copt(x, f):
    return 'None' if x is None else '(Some %s)' % f(x)

def clist(xs, f):
    return '[' + '; '.join(f(x) for x in xs) + ']'

def cstr(s):
    """Python str -> list Z of code points."""
    return '(' + clist([ord(c) for c in s], lambda n: '%d' % n) + '%Z : list Z)' if s else '(@nil Z)'

def cpair(a, b):
    return '(%s, %s)' % (a, b)


# OCaml extraction ------------------------------------------------------------------------------

def build_extracted(extract_v, driver_ml, exe_name, timeout=600):
    """coqc Extract/<extract_v> (which writes <name>.ml into Extract/_build) then ocamlfind ocamlopt with the driver."""
    bdir = os.path.join(COQ, 'Extract', '_build', exe_name)
    os.makedirs(bdir, exist_ok=True)
    with CoqLock():
        p = subprocess.run(['timeout', str(timeout), 'coqc', '-Q', COQ, 'PonyV', '-w', '-all', os.path.join(COQ, 'Extract', extract_v)],
                           cwd=bdir, capture_output=True, text=True)
    if p.returncode != 0:
        raise RuntimeError('extraction failed: ' + (p.stdout + p.stderr)[-3000:])
    mls = sorted(f for f in os.listdir(bdir) if f.endswith('.ml') and f != 'driver.ml')
    shutil.copy(os.path.join(COQ, 'Extract', driver_ml), os.path.join(bdir, 'driver.ml'))
    # order: mli/ml pairs as produced by Separate Extraction need dependency order; use ocamlfind ocamlopt with ocamldep sort
    dep = subprocess.run(['ocamlfind', 'ocamldep', '-sort'] + [f for f in os.listdir(bdir) if f.endswith(('.ml', '.mli'))],
                         cwd=bdir, capture_output=True, text=True)
    order = dep.stdout.split()
    p = subprocess.run(['ocamlfind', 'ocamlopt', '-w', '-a', '-o', exe_name] + order, cwd=bdir, capture_output=True, text=True)
    if p.returncode != 0:
        raise RuntimeError('ocamlopt failed: ' + (p.stdout + p.stderr)[-3000:])
    return os.path.join(bdir, exe_name)


# ------------------------------------------------------------------------------------------------
# known findings

def load_findings():
    """known_findings/<id>.json, one file per property: {"findings": [{property, key, what, replay}], "fixed": ["fixed: property=.. <commit> <what>"]}.
    (known_findings.json at top level is the merged copy written by tools/mkmanifest.py for readers.)"""
    out = {'findings': [], 'fixed': []}
    d = os.path.join(VERIF, 'known_findings')
    if os.path.isdir(d):
        for f in sorted(os.listdir(d)):
            if f.endswith('.json'):
                j = json.load(open(os.path.join(d, f)))
                out['findings'] += j.get('findings', [])
                out['fixed'] += j.get('fixed', [])
    return out


def known_for(prop_id):
    return [f for f in load_findings().get('findings', []) if f['property'] == prop_id]


# ------------------------------------------------------------------------------------------------
# evidence + protocol

def write_evidence(prop_id, data):
    os.makedirs(os.path.join(VERIF, 'evidence'), exist_ok=True)
    path = os.path.join(VERIF, 'evidence', prop_id + '.json')
    tmp = path + '.tmp%d' % os.getpid()
    with open(tmp, 'w') as f: json.dump(data, f, indent=1, sort_keys=True, default=str)
    os.replace(tmp, path)


def write_replay(prop_id, payload):
    d = os.path.join(VERIF, 'replays', prop_id)
    os.makedirs(d, exist_ok=True)
    blob = json.dumps(payload, sort_keys=True, default=str)
    h = hashlib.sha1(blob.encode()).hexdigest()[:12]
    path = os.path.join(d, h + '.json')
    with open(path, 'w') as f: f.write(json.dumps(payload, indent=1, sort_keys=True, default=str))
    return os.path.relpath(path, VERIF)


def dedup_samples(samples, k=8):
    out, seen = [], set()
    for s in samples:
        key = json.dumps(s, sort_keys=True, default=str)
        if key in seen: continue
        seen.add(key); out.append(s)
        if len(out) >= k: break
    return out


def run_check(plugin, tier, seed, replay_path=None):
    t0 = time.time()
    pid = plugin.ID
    ctx = Ctx(pid, tier, seed)
    broken = []          # list of (kind, what, detail)
    lines = []
    try:
        if replay_path:
            data = json.load(open(replay_path if os.path.isabs(replay_path) else os.path.join(VERIF, replay_path)))
            inp = data.get('failure', data).get('data', data)
            fl = plugin.replay(ctx, inp)
            if fl is None:
                print('replay: property holds on this input now')
                return 0
            print('replay: still failing: %s' % fl.what)
            print('VIOLATION property=%s replay=%s' % (pid, replay_path))
            return 1

        phase = {}
        tp = time.time()
        # 1. Tie A: regenerate the translated model
        gen_report = []
        for rel, fn in getattr(plugin, 'GEN', []):
            try:
                text = fn()
                with CoqLock():
                    ch = write_if_changed(os.path.join(COQ, rel), text)
                gen_report.append({'file': rel, 'changed_since_last_run': ch, 'sha1': hashlib.sha1(text.encode()).hexdigest()[:12]})
            except TranslateError as e:
                broken.append(('translator', rel, str(e)))
            except Exception as e:
                broken.append(('translator', rel, 'translator crashed: %s\n%s' % (e, traceback.format_exc()[-1500:])))

        phase['translate'] = round(time.time() - tp, 1); tp = time.time()
        # 2. proof cone
        props = list(plugin.PROPS)
        files = cone(props)
        obligations = count_obligations(files)
        discharged = 0
        assumptions_report = {}
        prim_note = []
        build_ok = False
        if not [b for b in broken if b[0] == 'translator']:
            bad = forbidden_scan(files)
            if bad:
                broken.append(('proof', 'forbidden construct', '; '.join(bad[:10])))
            ok, log = make_targets([p[:-2] + '.vo' for p in props], timeout=ctx.scale(1500, 3000))
            if not ok:
                m = re.search(r'File "\./([^"]+)", line (\d+)', log)
                where = '%s:%s' % (m.group(1), m.group(2)) if m else 'unknown'
                err = log[-2500:]
                broken.append(('proof', where, err))
            else:
                build_ok = True
                pa = print_assumptions(props)
                for f, d in pa.items():
                    if 'error' in d:
                        broken.append(('proof', f, d['error'])); continue
                    if not d:
                        broken.append(('proof', f, 'no Print Assumptions found in property file'))
                    for thm, a in d.items():
                        assumptions_report[thm] = a
                        if a != 'closed':
                            # kernel primitives (native 63-bit integers and binary64 floats) are listed by Print Assumptions but are
                            # not axioms of this development: they are named in the trusted base instead
                            def _prim(x):
                                n = x.split(':')[0].strip()
                                return n.startswith(PRIMITIVE_PREFIXES) or not n or x.startswith(' ')
                            extra = [x for x in a if x.split(':')[0].strip() not in ALLOWED_AXIOMS and not _prim(x)]
                            if any(_prim(x) for x in a) and 'kernel primitives' not in ' '.join(prim_note):
                                prim_note.append('kernel primitives (PrimFloat / Uint63 native operations) used by: %s' % thm)
                            if extra:
                                broken.append(('assumptions', thm, 'depends on: ' + '; '.join(extra)))
                if not [b for b in broken if b[0] in ('proof', 'assumptions')]:
                    discharged = len(obligations)
        if build_ok and ctx.thorough and getattr(plugin, 'COQCHK', True):
            chk = run_coqchk(props, files)
            if not chk['ok']:
                broken.append(('proof', 'coqchk', chk['log'][-2000:]))
        else:
            chk = None

        phase['proofs'] = round(time.time() - tp, 1); tp = time.time()
        # 3. correspondence (Tie B)
        corr = Corr()
        if build_ok or not getattr(plugin, 'CORR_NEEDS_BUILD', True):
            try:
                corr = plugin.correspondence(ctx)
            except Exception as e:
                broken.append(('correspondence', 'harness error', '%s\n%s' % (e, traceback.format_exc()[-2500:])))
            for d in corr.disagreements[:5]:
                broken.append(('correspondence', d.get('what', 'model and implementation differ'), json.dumps(d, default=str)[:3000]))

        phase['correspondence'] = round(time.time() - tp, 1); tp = time.time()
        # 4. search: property-level oracle against the implementation
        deep = bool(broken) or ctx.thorough
        try:
            srch = plugin.search(ctx, deep)
        except Exception as e:
            srch = Search()
            broken.append(('search', 'harness error', '%s\n%s' % (e, traceback.format_exc()[-2500:])))

        phase['search'] = round(time.time() - tp, 1); tp = time.time()
        # 5. known findings
        known = known_for(pid)
        known_keys = {k['key']: k for k in known}
        still = {}
        for k in known:
            if k.get('replay') is None: continue
            try:
                fl = plugin.replay(ctx, k['replay'])
            except Exception as e:
                fl = None
                broken.append(('search', 'replay of known finding %s crashed' % k['key'], '%s\n%s' % (e, traceback.format_exc()[-1500:])))
            if fl is not None:
                still[k['key']] = k
        for f in srch.failures:
            if f.key in known_keys and f.key not in still:
                still[f.key] = known_keys[f.key]
        for key in sorted(still):
            lines.append('KNOWN-FINDING: property=%s %s [%s]' % (pid, still[key]['what'], key))
        new_failures = [f for f in srch.failures if f.key not in known_keys]

        # 6. verdict
        violations = 0
        seen_keys = set()
        for f in new_failures:
            if f.key in seen_keys: continue
            seen_keys.add(f.key)
            path = write_replay(pid, {'property': pid, 'failure': f.to_json(),
                                      'broken': [{'kind': b[0], 'what': b[1]} for b in broken],
                                      'how_to_replay': './check %s --replay <this file>' % pid})
            lines.append('%s' % f.what)
            lines.append('VIOLATION property=%s replay=%s' % (pid, path))
            violations += 1
            if violations >= 5: break
        if broken and not new_failures:
            path = write_replay(pid, {'property': pid, 'no_failing_input_found': True,
                                      'broken': [{'kind': b[0], 'what': b[1], 'detail': b[2]} for b in broken],
                                      'searched': {'evaluations': srch.evaluations, 'deep': deep}})
            for b in broken[:3]:
                lines.append('BROKEN %s: %s' % (b[0], b[1]))
                lines.append('  ' + b[2].replace('\n', '\n  ')[-1800:])
            lines.append('VIOLATION property=%s replay=%s no-failing-input-found' % (pid, path))
            violations += 1

        # 7. evidence
        level = plugin.LEVEL
        cov = {
            'obligations': len(obligations),
            'discharged': discharged,
            'checker_cmd': 'cd /verif/coq && make -f Makefile.coq %s   (coqc 8.16.1, full .vo; Print Assumptions re-read from `coqc %s`%s)' % (
                ' '.join(p[:-2] + '.vo' for p in props), ' '.join(props), '; coqchk -o -silent in this run' if chk else ''),
            'trusted_base': list(getattr(plugin, 'TRUSTED', [])) + ['Coq 8.16.1 kernel incl. vm_compute (no native_compute)',
                                                                    'Print Assumptions: ' + json.dumps(assumptions_report, sort_keys=True)] + prim_note,
            'evaluations': max(1, corr.cases + srch.evaluations),
            'distinct_nontrivial': corr.nontrivial + srch.nontrivial,
            'rule': getattr(plugin, 'RULE', ''),
            'samples': dedup_samples(list(corr.samples) + list(srch.samples)) or ['<none>'],
            'theorems': sorted(assumptions_report),
            'proof_cone_files': files,
            'generated_from_source': gen_report,
            'correspondence_cases': corr.cases,
            'correspondence_disagreements': len(corr.disagreements),
            'correspondence_note': corr.note,
            'search_evaluations': srch.evaluations,
            'search_failures_known': sorted(still),
            'search_failures_new': [f.key for f in new_failures][:20],
            'input_distribution': {'correspondence': corr.distribution, 'search': srch.distribution},
            'exhaustive': bool(srch.exhaustive),
            'broken': [{'kind': b[0], 'what': b[1]} for b in broken],
            'phase_seconds': phase,
        }
        if discharged == 0:
            # a proof-level record needs discharged >= 1; a broken run is reported with the generic keys only
            cov['obligations_total'] = cov.pop('obligations'); cov.pop('discharged')
        if chk: cov['coqchk'] = chk.get('summary', '')
        if getattr(plugin, 'EXPLANATION', None): cov['explanation'] = plugin.EXPLANATION
        ev = {'property_id': pid, 'tier': tier, 'seed': seed, 'level': level, 'coverage': cov,
              'assumptions': list(getattr(plugin, 'ASSUMPTIONS', [])), 'wall_s': round(time.time() - t0, 2),
              'violations': violations}
        write_evidence(pid, ev)
        for l in lines: print(l)
        print('%s: tier=%s obligations=%d discharged=%d corr_cases=%d search_evals=%d known=%d violations=%d wall=%.1fs' % (
            pid, tier, len(obligations), discharged, corr.cases, srch.evaluations, len(still), violations, time.time() - t0))
        return 1 if violations else 0
    finally:
        ctx.cleanup()


def run_coqchk(props, files, timeout=2400):
    mods = ['PonyV.' + p[:-2].replace('/', '.') for p in props]
    p = subprocess.run(['timeout', str(timeout), 'coqchk', '-silent', '-o', '-Q', '.', 'PonyV'] + mods,
                       cwd=COQ, capture_output=True, text=True)
    log = p.stdout + p.stderr
    summary = log[log.find('CONTEXT SUMMARY'):][:3000] if 'CONTEXT SUMMARY' in log else log[-1500:]
    return {'ok': p.returncode == 0, 'log': log, 'summary': summary}
