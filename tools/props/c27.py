"""C27 - Objects keep their class and polymorphic queries are exact."""
import json
import vlib
from vlib import Corr, Search, Failure, cz, cnat
import c27_impl, c27_scan

ID = 'C27'
LEVEL = 'proof'
PROPS = ['Props/C27.v']
GEN = [('Gen/C27AttrGet.v', c27_scan.generate)]
TRUSTED = [
    'hand-written model Model/C27Inherit.v of EntityMeta.__init__ (direct bases, _all_bases_, _subclasses_, _root_, diamond rule), Discriminator.code2cls, '
    '_construct_discriminator_criteria_, _parse_row_ class choice, _get_from_identity_map_ class refinement and FuncIsinstanceMonad.call; tied on every run by '
    'vm_compute comparison with the real EntityMeta / translator on random hierarchies; also _find_in_cache_ (loaded objects and unloaded seeds, ~1000 real lookups per run) and Attribute.get / collection iteration / unpickling class rules',
    'tools/c27_scan.py: the one source fact taken from an ast scan on every run (Gen/C27AttrGet.v): in Attribute.get the value fetched by attr.load(obj) passes the seed guard before it is returned; the scan refuses a shape it does not recognise',
    'the harness tools/c27_impl.py: classes built with type(db.Entity)(name, bases, ns) on in-memory SQLite; isinstance condition read from q._translator.conditions',
    'Python issubclass / isinstance on the real classes as the specification side of the search',
    'SQL meaning of  column IN (values)  /  1 = 1  /  0 = 1  (executed on SQLite in the search; other dialects share this code and are not executed)',
]
ASSUMPTIONS = [
    'discriminator values are compared as Pony does (dict key equality); the model maps distinct values to distinct integers',
    'rows of a table were created through Pony by classes of that tree (no foreign discriminator values, no NULL discriminators)',
    'one discriminator column per tree, declared on the root (Pony rejects anything else); composite keys and per-class attribute sets do not enter the statement',
    'C27_collection_item is about iteration inside a live db_session (Set.copy refines the items only then, commit 233f906); detached objects are C32',
    'the class refinement theorem covers an object first met through a reference typed as an ancestor; the NotImplementedError branch of _get_from_identity_map_ '
    '(seed with read/write bits) is exercised by the search only',
]
RULE = ('seeded random hierarchies: 1..7 classes, 1..2 trees, single / multiple inheritance incl. diamonds (bases pairwise unrelated, same root), default names / custom str / '
        'int Discriminator column, a stream of invalid definitions (bases from different trees) and of duplicate discriminator values; correspondence = one vm_compute boolean per '
        'observable (valid, all_bases, subclasses, root, criteria, code2cls entry, isinstance condition); search = create objects of every class, then reload in fresh sessions by '
        'select over every class, get by pk through every class of the tree, relationship navigation, isinstance queries (positive / negated, foreign-tree classes); '
        'queries over a class with a condition on an attribute declared by one of its subclasses, chains Link.h.ref through unloaded placeholders (class at first access), many-to-many collections typed as the root (one owner; three owners in the session cache read one after another, which bulk-loads), references of unpickled objects, '
        'lookup by pk through every class after the object entered the identity map as an unloaded seed of a base-typed reference (falsy discriminator values 0 / \'\' on non-leaf classes included); '
        'non-trivial = hierarchies with at least one subclass (distinct specs counted)')


# ------------------------------------------------------------------------------------------------ generator

def gen_spec(rng, invalid=False, dup=False, nmax=7):
    n = rng.randint(2 if (invalid or dup) else 1, nmax)
    mode = rng.choice(['default', 'default', 'str', 'int'])
    classes, anc, root = [], [], []
    for i in range(n):
        if i == 0 or rng.random() < 0.18:
            bases = []
        else:
            k = rng.choice([1, 1, 1, 2, 2, 3])
            first = rng.randrange(i)
            bases = [first]
            cands = [j for j in range(i) if root[j] == root[first] and j != first]
            rng.shuffle(cands)
            for j in cands:
                if len(bases) >= k: break
                if all(j not in anc[b] and b not in anc[j] for b in bases): bases.append(j)
        a = set()
        for b in bases: a |= anc[b] | {b}
        anc.append(a)
        root.append(root[bases[0]] if bases else i)
        classes.append({'bases': bases, 'discr': None})
    if mode == 'int':
        for i, c in enumerate(classes): c['discr'] = 10 * i + 1
    elif mode == 'str':
        for i, c in enumerate(classes):
            if rng.random() < 0.5: c['discr'] = 'X%d' % i
    nonleaf = sorted(set(b for c in classes for b in c['bases']))
    if nonleaf and rng.random() < 0.5:
        # a falsy discriminator value on a class that has subclasses (0 / '' are values like any other)
        j = rng.choice(nonleaf + [root[nonleaf[0]]])
        if mode == 'int': classes[j]['discr'] = 0
        elif mode == 'str': classes[j]['discr'] = ''
    if invalid:
        # last class inherits from two different trees
        r0 = [i for i in range(n - 1) if root[i] != root[0]]
        if not r0:
            classes.insert(1, {'bases': [], 'discr': (11 if mode == 'int' else None)})
            for c in classes[2:]: c['bases'] = [b + 1 if b >= 1 else b for b in c['bases']]
            if mode == 'int':
                for i, c in enumerate(classes): c['discr'] = 10 * i + 1
            classes.append({'bases': [0, 1], 'discr': (10 * len(classes) + 1 if mode == 'int' else None)})
        else:
            classes[-1] = {'bases': [0, r0[0]], 'discr': classes[-1]['discr']}
    if dup:
        subs = [i for i in range(len(classes)) if classes[i]['bases']]
        if subs:
            i = rng.choice(subs)
            same = [j for j in range(len(classes)) if j != i and root[j] == root[i]] if len(root) == len(classes) else []
            if same:
                j = rng.choice(same)
                if mode == 'int': classes[i]['discr'] = classes[j]['discr']
                else: classes[i]['discr'] = classes[j]['discr'] if classes[j]['discr'] is not None else 'K%d' % j
    return {'mode': mode, 'classes': classes}


def discr_values(spec):
    return [c['discr'] if c['discr'] is not None else 'K%d' % i for i, c in enumerate(spec['classes'])]

def code_table(spec):
    vals = sorted(set(repr(v) for v in discr_values(spec)))
    return {v: k for k, v in enumerate(vals)}

def spec_roots(spec):
    root = []
    for i, c in enumerate(spec['classes']):
        root.append(root[c['bases'][0]] if c['bases'] else i)
    return root

def has_duplicates(spec):
    vals, root = discr_values(spec), spec_roots(spec)
    seen = set()
    for i, v in enumerate(vals):
        if (root[i], repr(v)) in seen: return True
        seen.add((root[i], repr(v)))
    return False


# ------------------------------------------------------------------------------------------------ Coq literals

def cschema(spec):
    tab = code_table(spec)
    vals = discr_values(spec)
    items = []
    for i, c in reversed(list(enumerate(spec['classes']))):
        items.append('{| d_bases := [%s]; d_discr := %s |}' % ('; '.join(str(b) for b in c['bases']), cz(tab[repr(vals[i])])))
    return '[' + '; '.join(items) + ']'

def cnats(xs): return '[' + '; '.join(str(x) for x in xs) + ']'
def czs(xs): return '[' + '; '.join(cz(x) for x in xs) + ']'

HEADER = ('From Coq Require Import ZArith List Bool.\nRequire Import PonyV.Base.PyBase PonyV.Model.C27Inherit.\n#[local] Open Scope nat_scope.\n')


def run_bools(ctx, exprs, defs, chunk=1800):
    """defs: list of (name, schema literal) shared by the cases"""
    chunks = []
    head = ''.join('Definition %s : schema := %s.\n' % (n, s) for n, s in defs)
    for i in range(0, len(exprs), chunk):
        part = exprs[i:i + chunk]
        chunks.append(head + 'Definition cases : list bool := [\n' + ';\n'.join(part) + '].\nEval vm_compute in (failing27 cases).\n')
    outs = vlib.coq_eval_many(ctx, HEADER, chunks, name='c27cases')
    bad = []
    for k, out in enumerate(outs):
        vals = vlib.parse_eval_outputs(out)
        assert len(vals) == 1, out[-500:]
        inner = vals[0].strip().strip('[]').strip()
        if inner:
            for tok in inner.split(';'):
                bad.append(k * chunk + int(tok.strip().replace('%nat', '')))
    return bad


def cond_literal(cond, tab):
    if cond == ['EQ', ['VALUE', 1], ['VALUE', 1]]: return 'IsTrue'
    if cond == ['EQ', ['VALUE', 0], ['VALUE', 1]]: return 'IsFalse'
    if cond[0] == 'IN' and cond[1][0] == 'COLUMN':
        return '(IsIn %s)' % czs([tab.get(repr(v[1]), -1) for v in cond[2]])
    raise ValueError('isinstance condition outside the modelled shapes: %r' % (cond,))


# ------------------------------------------------------------------------------------------------ correspondence

def correspondence(ctx):
    rng = ctx.rng
    exprs, meta, defs, disagreements, samples = [], [], [], [], []
    dist = {'hierarchies': 0, 'invalid_definitions': 0, 'duplicate_discriminators': 0, 'mro_conflicts_skipped': 0, 'diamonds': 0, 'multi_tree': 0,
            'modes': {}, 'kinds': {}}
    nontrivial = set()
    n = ctx.scale(120, 1200)
    def add(expr, kind, spec, detail):
        exprs.append(expr); meta.append((kind, spec, detail)); dist['kinds'][kind] = dist['kinds'].get(kind, 0) + 1
    for h in range(n):
        r = rng.random()
        invalid, dup = r < 0.1, 0.1 <= r < 0.2
        spec = gen_spec(rng, invalid=invalid, dup=dup)
        name = 's%d' % h
        try:
            b = c27_impl.build(spec)
            accepted, err = True, None
        except TypeError as e:
            if 'MRO' in str(e) or 'consistent method resolution' in str(e):
                dist['mro_conflicts_skipped'] += 1; continue
            accepted, err = False, '%s: %s' % (type(e).__name__, e)
        except Exception as e:
            accepted, err = False, '%s: %s' % (type(e).__name__, e)
        defs.append((name, cschema(spec)))
        dist['hierarchies'] += 1
        dist['modes'][spec['mode']] = dist['modes'].get(spec['mode'], 0) + 1
        if not accepted:
            dist['invalid_definitions'] += 1
            if 'diamond-like' not in (err or '') and 'is already used by entity' not in (err or ''):
                disagreements.append({'what': 'definition rejected for a reason outside the model', 'input': spec, 'impl': err})
                continue
            add('negb (valid %s)' % name, 'valid', spec, err)
            continue
        add('valid %s' % name, 'valid', spec, 'accepted')
        if has_duplicates(spec): dist['duplicate_discriminators'] += 1
        info = c27_impl.introspect(b)
        tab = code_table(spec)
        roots = spec_roots(spec)
        if len(set(roots)) > 1: dist['multi_tree'] += 1
        if any(len(c['bases']) > 1 for c in spec['classes']): dist['diamonds'] += 1
        if any(c['bases'] for c in spec['classes']): nontrivial.add(json.dumps(spec, sort_keys=True))
        for i, ci in enumerate(info):
            add('nset_eqb (all_bases %s %d) %s' % (name, i, cnats(ci['all_bases'])), 'all_bases', spec, [i, ci['all_bases']])
            add('nset_eqb (subclasses %s %d) %s' % (name, i, cnats(ci['subclasses'])), 'subclasses', spec, [i, ci['subclasses']])
            add('(root_of %s %d =? %d)' % (name, i, ci['root']), 'root', spec, [i, ci['root']])
            add('nlist_eqb (bases_of %s %d) %s' % (name, i, cnats(ci['direct'])), 'direct_bases', spec, [i, ci['direct']])
            if ci['has_discr_attr']:
                add('zset_eqb (criteria %s %d) %s' % (name, i, czs([tab.get(repr(v), -1) for v in ci['criteria']])), 'criteria', spec, [i, ci['criteria']])
                if roots[i] == i:
                    for v, cls in sorted(ci['code2cls'].items(), key=lambda kv: repr(kv[0])):
                        add('onat_eqb (code2cls %s %d %s) (Some %d)' % (name, i, cz(tab.get(repr(v), -1)), cls), 'code2cls', spec, [i, repr(v), cls])
            else:
                if ci['subclasses'] or ci['root'] != i:
                    disagreements.append({'what': 'a class with relatives has no discriminator attribute', 'input': spec, 'impl': ci})
        ncls = len(spec['classes'])
        for _ in range(6):
            e = rng.randrange(ncls)
            cs = [rng.randrange(ncls) for _ in range(rng.randint(1, 3))]
            try:
                cond = c27_impl.isinstance_condition(b, e, cs)
                add('isinst_eqb (isinstance_sql %s %d %s) %s' % (name, e, cnats(cs), cond_literal(cond, tab)), 'isinstance', spec, [e, cs, cond])
            except Exception as ex:
                disagreements.append({'what': 'isinstance query could not be translated / read: %s: %s' % (type(ex).__name__, ex), 'input': {'spec': spec, 'e': e, 'cs': cs}})
        if dist['hierarchies'] <= ctx.scale(45, 400) and any(c['bases'] for c in spec['classes']):
            try:
                created, _h = c27_impl.populate(b, per_class=1)
                for hpk, (c, r, pk) in sorted(b.seed_holders.items()):
                    k = created[(r, pk)]
                    pkname = b.classes[r]._pk_attrs_[0].name
                    for e in range(ncls):
                        if roots[e] != r: continue
                        got, was_seed = c27_impl.seed_lookup(b, hpk, e, pkname, pk)
                        lit = 'NotFound' if got is None else ('(Found %d)' % got if isinstance(got, int) else 'ClassChangeError')
                        add('found_eqb (find_in_cache %s %s %d %d %s %d) %s' % (name, 'true' if info[c]['has_discr_attr'] else 'false', e, c, 'true' if was_seed else 'false', k, lit),
                            'find_in_cache_seed', spec, [hpk, c, e, k, got, was_seed])
            except Exception as ex:
                disagreements.append({'what': 'seed lookups could not be run: %s: %s' % (type(ex).__name__, ex), 'input': spec})
        if len(samples) < 3 and ncls >= 4 and any(len(c['bases']) > 1 for c in spec['classes']):
            samples.append({'spec': spec, 'pony': info})
    bad = run_bools(ctx, exprs, defs)
    for i in bad[:10]:
        kind, spec, detail = meta[i]
        disagreements.append({'what': 'model and implementation differ (%s)' % kind, 'input': spec, 'impl': detail, 'coq_case': exprs[i][:600]})
    return Corr(cases=len(exprs), nontrivial=len(nontrivial), disagreements=disagreements, samples=samples, distribution=dist,
                note='one vm_compute boolean per observable of the real EntityMeta / translator: nset_eqb (subclasses s e) <Entity._subclasses_>, ... '
                     '(class ids = definition order; discriminator values mapped injectively to integers per hierarchy)')


# ------------------------------------------------------------------------------------------------ search (property oracle: Python issubclass / isinstance)

def key_for(spec, route, detail):
    if has_duplicates(spec): return 'duplicate-discriminator-value:%s' % route
    shape = 'diamond' if any(len(c['bases']) > 1 for c in spec['classes']) else 'single'
    return 'unlisted:%s:%s:%s:%s' % (route, spec['mode'], shape, detail)


def check_hierarchy(spec, rng, n_isinst=8):
    """-> (evaluations, [Failure]) ; the hierarchy must be accepted by Pony"""
    b = c27_impl.build(spec)
    orm, classes = b.orm, b.classes
    created, holders = c27_impl.populate(b)
    idx = {c: i for i, c in enumerate(classes)}
    roots = spec_roots(spec)
    evals, fails = 0, []
    def fail(route, detail, what):
        fails.append(Failure(key_for(spec, route, detail), 'C27 %s: %s (hierarchy %s)' % (route, what, json.dumps(spec)), {'spec': spec, 'route': route}))
    g = {'K%d' % i: c for i, c in enumerate(classes)}
    # R1 select over every class
    for e, E in enumerate(classes):
        want = sorted((pk, k) for (r, pk), k in created.items() if issubclass(classes[k], E))
        for form in ('select', 'genexpr'):
            with orm.db_session:
                objs = E.select()[:] if form == 'select' else orm.select('x for x in K%d' % e, g)[:]
                got = sorted((o.get_pk(), c27_impl.cname(o)) for o in objs)
            evals += 1
            if got != want:
                fail('select', form, 'query over K%d returns (pk, class) %r, stored objects of K%d and its subclasses are %r' % (e, got, e, want)); break
    # R2 get by primary key through every class of the tree
    for (r, pk), k in sorted(created.items()):
        for e, E in enumerate(classes):
            if roots[e] != r: continue
            with orm.db_session:
                try:
                    o = E.get(**{classes[r]._pk_attrs_[0].name: pk})
                    got = None if o is None else c27_impl.cname(o)
                except Exception as ex:
                    got = 'EXC ' + type(ex).__name__
            evals += 1
            want = k if issubclass(classes[k], E) else None
            if got != want:
                fail('get', 'by-pk', 'K%d.get(pk=%r) gives class %r, the object was created as K%d (expected %r)' % (e, pk, got, k, want)); break
    # R3 navigation from Holder, two access orders
    for order in ('direct', 'bulk'):
        with orm.db_session:
            root_holders = sorted(holders)
            hs = orm.select(h for h in b.Holder if h.id in root_holders)[:] if order == 'bulk' else None
            for hpk, (r, pk) in sorted(holders.items()):
                try:
                    h = b.Holder[hpk]
                    o = getattr(h, 'ref%d' % r)
                    if order == 'bulk': getattr(o, 'v%d' % r)
                    got = c27_impl.cname(o)
                except Exception as ex:
                    got = 'EXC ' + type(ex).__name__
                evals += 1
                if got != created[(r, pk)]:
                    fail('navigate', order, 'Holder[%r].ref%d has class %r, the object was created as K%d' % (hpk, r, got, created[(r, pk)])); break
    # R3b a seed met through the reference gets an attribute assigned before anything of it is read
    with orm.db_session:
        for hpk, (r, pk) in sorted(holders.items())[:4]:
            try:
                o = getattr(b.Holder[hpk], 'ref%d' % r)
                setattr(o, 'v%d' % r, 5)
                got = c27_impl.cname(o)
            except Exception as ex:
                got = 'EXC ' + type(ex).__name__
            evals += 1
            orm.rollback()              # the assignment is not kept: later routes compare stored values
            if got != created[(r, pk)]:
                fail('navigate', 'assign-first', 'assigning through Holder[%r].ref%d: class %r, created as K%d' % (hpk, r, got, created[(r, pk)])); break
    # R5 the object is first met as an unloaded seed (a row referencing it through an attribute typed as one of its ancestors is loaded),
    #    then looked up by primary key through every class of the tree
    for hpk, (c, r, pk) in sorted(b.seed_holders.items()):
        k = created[(r, pk)]
        pkname = classes[r]._pk_attrs_[0].name
        for e, E in enumerate(classes):
            if roots[e] != r: continue
            got, was_seed = c27_impl.seed_lookup(b, hpk, e, pkname, pk)
            evals += 1
            want = k if issubclass(classes[k], E) else None
            if got != want:
                sibling = (not issubclass(E, classes[c]) and not issubclass(classes[c], E) and issubclass(classes[k], E))
                falsy = not classes[c]._discriminator_
                detail = 'sibling-branch' if sibling and got is None else ('falsy-discriminator' if falsy else 'other')
                f = Failure(('seed-of-sibling-branch-hides-object' if detail == 'sibling-branch' and not has_duplicates(spec) else key_for(spec, 'seed-lookup', detail)),
                            'C27 seed-lookup: with a K%d-typed reference to the object loaded first (seed=%s), K%d.get(pk=%r) gives class %r; the object was created as K%d, expected %r (hierarchy %s)'
                            % (c, was_seed, e, pk, got, k, want, json.dumps(spec)), {'spec': spec, 'route': 'seed-lookup'})
                fails.append(f)
    # R10 a query over e with a condition on an attribute declared by a subclass c of e (or by e)
    for e, E in enumerate(classes):
        for c, C in enumerate(classes):
            if not issubclass(C, E): continue
            want = sorted(pk for (r, pk), k in created.items() if issubclass(classes[k], C) and b.vals[(r, pk)] == 0)
            with orm.db_session:
                try: got = sorted(o.get_pk() for o in orm.select('x for x in K%d if x.v%d == 0' % (e, c), g)[:])
                except Exception as ex: got = 'EXC %s: %s' % (type(ex).__name__, ex)
            evals += 1
            if got != want:
                fail('subclass-attribute', 'own' if e == c else 'subclass', 'select(x for x in K%d if x.v%d == 0) returns pks %r; the stored K%d objects (and subclasses) with v%d == 0 are %r' % (e, c, got, c, c, want)); break
    # R7 chains through unloaded placeholders: Link row loaded, link.h is a placeholder, link.h.ref<c> is fetched inside Attribute.get
    for lpk, hpk in sorted(b.links.items()):
        c, r, pk = b.seed_holders[hpk]
        first, again = c27_impl.chain_lookup(b, lpk, c)
        evals += 1
        if first != created[(r, pk)] or again != created[(r, pk)]:
            fails.append(Failure(key_for(spec, 'chain', 'first-access' if first != created[(r, pk)] else 'second-access'),
                                 'C27 chain: Link[%r].h.ref%d (the Holder is an unloaded placeholder when the reference is read) has class %r at first access, %r at the second; the object was created as K%d (hierarchy %s)'
                                 % (lpk, c, first, again, created[(r, pk)], json.dumps(spec)), {'spec': spec, 'route': 'chain'}))
            break
    # R8 items of a many-to-many collection typed as the root, class at first access
    for r in b.roots:
        try: got = c27_impl.many_iter(b, r)
        except Exception as ex: got = 'EXC %s' % type(ex).__name__
        evals += 1
        want = sorted(b.many[r][1])
        if got != want:
            fails.append(Failure('m2m-collection-item-has-base-class' if not has_duplicates(spec) and isinstance(got, list) and [g[0] for g in got] == [w[0] for w in want]
                                 and all(g[1] == r for g, w in zip(got, want) if g != w) else key_for(spec, 'm2m', 'other'),
                                 'C27 m2m: iterating Holder.many%d gives (pk, class at first access) %r, created %r (hierarchy %s)' % (r, got, want, json.dumps(spec)), {'spec': spec, 'route': 'm2m'}))
    # R8b several owners of one many-to-many attribute in the session cache, collections read one after another (the second read bulk-loads the rest)
    for r in b.roots:
        if len(created) == 0: continue
        for order in ([0, 1, 2], [2, 0, 1]):
            for pre in ('iter', 'len'):
                try: got = c27_impl.many_iter_multi(b, r, order, pre)
                except Exception as ex: got = 'EXC %s' % type(ex).__name__
                evals += 1
                want = [x for n in order for x in sorted((n, pk, k) for pk, k in b.many_multi[r][n][1])]
                if got != want:
                    fails.append(Failure(key_for(spec, 'm2m-several-owners', pre),
                                         'C27 m2m-several-owners: three Holders fetched, Holder.many%d read in owner order %r (%s): (owner, pk, class at first access) %r, created %r (hierarchy %s)'
                                         % (r, order, pre, got, want, json.dumps(spec)), {'spec': spec, 'route': 'm2m-several-owners'}))
                    break
    # R9 a reference of an unpickled object
    for hpk, (c, r, pk) in sorted(b.seed_holders.items())[:6]:
        got = c27_impl.unpickled_ref(b, hpk, c)
        evals += 1
        if got != created[(r, pk)]:
            fails.append(Failure('unpickled-reference-has-base-class' if got == c and not has_duplicates(spec) else key_for(spec, 'unpickle', 'other'),
                                 'C27 unpickle: the K%d-typed reference of an unpickled Holder has class %r, the object was created as K%d (hierarchy %s)' % (c, got, created[(r, pk)], json.dumps(spec)),
                                 {'spec': spec, 'route': 'unpickle'}))
    # R6 two rows referencing one object through attributes typed by unrelated (sibling) classes, loaded in one session
    by_obj = {}
    for hpk, (c, r, pk) in sorted(b.seed_holders.items()): by_obj.setdefault((r, pk), []).append((hpk, c))
    for (r, pk), lst in sorted(by_obj.items()):
        for i1 in range(len(lst)):
            for i2 in range(len(lst)):
                (h1, c1), (h2, c2) = lst[i1], lst[i2]
                if i1 == i2 or issubclass(classes[c1], classes[c2]) or issubclass(classes[c2], classes[c1]): continue
                with orm.db_session:
                    try:
                        b.Holder[h1]; b.Holder[h2]
                        o = getattr(b.Holder[h2], 'ref%d' % c2); got = c27_impl.cname(o)
                    except Exception as ex:
                        got = 'EXC %s' % type(ex).__name__
                evals += 1
                if got != created[(r, pk)]:
                    key = 'sibling-typed-references-unexpected-class-change' if got == 'EXC TransactionError' and not has_duplicates(spec) else key_for(spec, 'two-references', 'other')
                    fails.append(Failure(key, 'C27 two-references: loading a row with a K%d-typed reference and then a row with a K%d-typed reference to the same object (created as K%d) gives %r (hierarchy %s)'
                                         % (c1, c2, created[(r, pk)], got, json.dumps(spec)), {'spec': spec, 'route': 'two-references'}))
    # R4 isinstance inside queries
    ncls = len(classes)
    for _ in range(n_isinst):
        e = rng.randrange(ncls)
        cs = [rng.randrange(ncls) for _ in range(rng.randint(1, 3))]
        neg = rng.random() < 0.3
        src = 'x for x in K%d if %sisinstance(x, (%s,))' % (e, 'not ' if neg else '', ', '.join('K%d' % c for c in cs))
        tup = tuple(classes[c] for c in cs)
        want = sorted(pk for (r, pk), k in created.items() if issubclass(classes[k], classes[e]) and (issubclass(classes[k], tup) != neg))
        with orm.db_session:
            try: got = sorted(o.get_pk() for o in orm.select(src, g)[:])
            except Exception as ex: got = 'EXC %s: %s' % (type(ex).__name__, ex)
        evals += 1
        if got != want:
            fail('isinstance', 'negated' if neg else 'positive', '%s returns pks %r, Python isinstance selects %r' % (src, got, want))
    return evals, fails


def search(ctx, deep):
    rng = ctx.rng
    failures, evals, nontriv = [], 0, set()
    seen = {}
    dist = {'hierarchies': 0, 'duplicate_discriminators': 0, 'rejected': 0, 'failing_by_key': seen}
    def record(f):
        if seen.setdefault(f.key, 0) < 1: failures.append(f)
        seen[f.key] += 1
    specs = [
        {'mode': 'default', 'classes': [{'bases': [], 'discr': None}, {'bases': [0], 'discr': None}, {'bases': [0], 'discr': None}, {'bases': [1, 2], 'discr': None}, {'bases': [3], 'discr': None}]},
        {'mode': 'int', 'classes': [{'bases': [], 'discr': 1}, {'bases': [0], 'discr': 2}, {'bases': [1], 'discr': 3}, {'bases': [], 'discr': 4}, {'bases': [3], 'discr': 5}]},
        {'mode': 'str', 'classes': [{'bases': [], 'discr': None}, {'bases': [0], 'discr': 'K'}, {'bases': [0], 'discr': 'K'}]},          # the recorded finding
        {'mode': 'str', 'classes': [{'bases': [], 'discr': None}, {'bases': [0], 'discr': 'K2'}, {'bases': [0], 'discr': None}]},       # custom value = another class's name
    ]
    specs += [
        {'mode': 'int', 'classes': [{'bases': [], 'discr': 0}, {'bases': [0], 'discr': 1}, {'bases': [1], 'discr': 2}]},                 # falsy value on the root
        {'mode': 'int', 'classes': [{'bases': [], 'discr': 5}, {'bases': [0], 'discr': 0}, {'bases': [1], 'discr': 2}, {'bases': [0], 'discr': 3}]},   # ... on an inner class
        {'mode': 'str', 'classes': [{'bases': [], 'discr': ''}, {'bases': [0], 'discr': None}, {'bases': [0], 'discr': 'X'}]},
    ]
    n = ctx.scale(40, 400) if not deep else ctx.scale(160, 1200)
    for _ in range(n):
        specs.append(gen_spec(rng, dup=rng.random() < 0.08))
    for spec in specs:
        try:
            ev, fl = check_hierarchy(spec, rng)
        except TypeError as e:
            if 'MRO' in str(e) or 'consistent method resolution' in str(e): dist['rejected'] += 1; continue
            record(Failure('crash:%s' % type(e).__name__, 'C27 harness crashed: %s (hierarchy %s)' % (e, json.dumps(spec)), {'spec': spec, 'route': 'crash'})); continue
        except Exception as e:
            if has_duplicates(spec) and 'is already used by entity' in str(e):
                dist['duplicate_discriminators_rejected'] = dist.get('duplicate_discriminators_rejected', 0) + 1; evals += 1; continue      # refused at definition time (fix d645930)
            record(Failure('crash:%s' % type(e).__name__, 'C27 harness crashed: %s: %s (hierarchy %s)' % (type(e).__name__, e, json.dumps(spec)), {'spec': spec, 'route': 'crash'})); continue
        evals += ev; dist['hierarchies'] += 1
        if has_duplicates(spec):
            dist['duplicate_discriminators'] += 1
            record(Failure('duplicate-discriminator-accepted', 'C27: two classes of one tree with the same discriminator value are accepted (hierarchy %s)' % json.dumps(spec), {'spec': spec, 'route': 'accepted'}))
        if any(c['bases'] for c in spec['classes']): nontriv.add(json.dumps(spec, sort_keys=True))
        for f in fl: record(f)
    return Search(evaluations=evals, failures=failures, nontrivial=len(nontriv), distribution=dist, exhaustive=False, samples=[{'spec': specs[0]}])


def replay(ctx, data):
    import random
    spec = data['spec']
    try:
        ev, fl = check_hierarchy(spec, random.Random(ctx.seed), n_isinst=40)
        if data.get('route') == 'accepted' and has_duplicates(spec):
            return Failure('duplicate-discriminator-accepted', 'C27: duplicate discriminator values are accepted', data)
    except Exception as e:
        if has_duplicates(spec) and 'is already used by entity' in str(e): return None
        return Failure('crash:%s' % type(e).__name__, 'C27 harness crashed: %s' % e, data)
    want = data.get('route')
    for f in fl:
        if want is None or f.data.get('route') == want: return f
    return None


LEVEL_TEXT = ('Machine-checked proof (Coq 8.16.1) over a model of Pony\'s entity inheritance: for every schema the metaclass accepts (any number of trees, multiple '
              'inheritance with the diamond rule, no discriminator value used twice in a tree), _all_bases_ / _subclasses_ as computed class by class are exactly the transitive closure of '
              'the direct-base relation and its inverse; accepted schemas have pairwise different discriminator values per tree; the discriminator criteria of a query over e select exactly '
              'the rows created as e or a subclass, also with conditions on attributes declared by subclasses; the SQL of isinstance(x, (c1..cn)) equals Python isinstance; _parse_row_, the '
              'identity-map refinement, lookups by primary key through any class (loaded objects; unloaded seeds typed by any ancestor incl. sibling branches of a diamond since fix 8097451, any discriminator value incl. 0 / empty string) and '
              'Attribute.get (also after attr.load through a placeholder; flag read from the source on every run) give back the creation class. Items of many-to-many collections come out with their creation class (fix 50e342a). Two references typed by sibling branches of a '
              'diamond to one object no longer raise a class change (fix cb35764) and references of unpickled objects are refined (fix 3acf097): no known finding remains.')
LEVEL_NOTE = ('Trusted: Coq kernel + vm_compute; the hand-written model (one flag scanned from the source of Attribute.get, otherwise no source translation) and its correspondence harness; SQL meaning of IN lists; '
              'no known finding remains (six fixes committed: d645930, 8097451, 50e342a, 233f906, cb35764, 3acf097). Not covered by '
              'theorems: attribute/column sets of subclasses, composite keys, the NotImplementedError branch of class refinement (search only).')
TECHNIQUE = 'Coq induction over definition order (structural recursion on the newest-first schema); vm_compute correspondence with the real EntityMeta, FuncIsinstanceMonad and _find_in_cache_; ast scan of Attribute.get; end-to-end reload search on SQLite (select / get / navigation chains through placeholders / seeds / m2m / pickle / isinstance)'
DESIGN_REF = 'DESIGN.md section 5, C27'
