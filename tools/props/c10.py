"""C10 - Lookups and queries inside a session see the session's own unflushed changes."""
import session_check as chk
import session_flags

ID = 'C10'
LEVEL = 'proof'
PROPS = ['Props/C10.v', 'Findings/C10.v']
GEN = [('Gen/SessionFlags.v', session_flags.generate)]     # Tie A: which shape three repaired / repairable pieces of core.py have (read from /repo on every run)
TRUSTED = [
    'hand-written model coq/Model/Session*.v of pony/orm/core.py (SessionCache indexes / objects_to_save, Attribute.__set__/db_set, '
    'Set/SetInstance, Entity.__init__/_delete_/set/_db_set_/_save_*, EntityMeta._find_in_cache_/_fetch_objects), Stage 1 schema space',
    'logical reference state tools/session_spec.py (objects with scalar and reference values, collections derived from the references; every successful '
    'operation applies its documented effect, a failing one none; commit / rollback copy the state) - hand-written, ~300 lines, reads obj._pkval_ only',
    'history fuzzer tools/session_fuzz.py / session_impl.py / session_coq.py / session_check.py: generator, handle table, canonical results, '
    'row dumps through a separate sqlite3 connection',
    'reference semantics of the SQLite tables Pony creates (coq/Model/SessionDb.v: PRIMARY KEY, UNIQUE, NOT NULL, REFERENCES with '
    'ON DELETE CASCADE / SET NULL, AUTOINCREMENT), validated by the row dumps and error classes of every run',
    'optimistic checks / rbits, query result cache, multiple concurrent sessions are not modelled (single writer)',
]
ASSUMPTIONS = [
    'Stage 1 schemas (wf_schema): single integer primary key, int/str attributes, unique scalars, many-to-one / one-to-many with Pony\'s default cascade_delete; '
    'one-to-one and many-to-many relationships and composite keys (Stage 2) are covered by the implementation-side oracles only (half of the search histories use them; the Coq model and the '
    'correspondence do not); composite primary keys and inheritance are not generated',
    'theorems hold for histories that reach no dirty site of the model (s_dirty = 0): sites 1-8 are known findings / legitimate partial failures of the code, '
    'sites 20-28 are assertion sites believed unreachable (a hit in the correspondence run is reported as a broken tie)',
    'C10 proper is explored, not proved; the theorems listed cover assignments to scalar attributes only',
    'steps the model declines (a deleted object used as a reference value, Entity.set mixing reference and collection arguments, insertion order that depends on '
    'Python set iteration) end the comparison of that history',
]
RULE = ('seeded generator of (schema, op list): 1-3 entities, 1-3 scalar attributes each, 1-3 relationships (search: also many-to-many, one-to-one, composite_key), 10-40 ops, ~85 % valid ops; '
        'non-trivial = at least three successful mutating ops; distinct = distinct canonical (schema, ops)')


def correspondence(ctx): return chk.correspondence(ctx, ID)
def _scenarios(cases=None):
    """tools/session_scenarios.py: fixed multi-step scenarios the history fuzzer does not generate (see its docstring)."""
    import vlib
    out = vlib.run_impl('session_scenarios.py', {'family': 'c10', 'cases': cases}, timeout=600)['results']
    return [vlib.Failure('c10-scenario:' + r['case'], 'a query after the flush does not reflect the changes of the session (%s): %s' % (r['case'], r['detail'][:700]), {'scenario_case': r['case']})
            for r in out if not r['ok']], len(out)


def search(ctx, deep):
    s = chk.search(ctx, deep, ID)
    fails, n = _scenarios()
    s.failures = fails + list(s.failures)
    s.evaluations += n
    s.distribution['fixed_scenarios'] = n
    return s


def replay(ctx, data):
    if 'scenario_case' in data:
        fails, _ = _scenarios([data['scenario_case']])
        return fails[0] if fails else None
    return chk.replay(ctx, data, ID)


LEVEL_TEXT = ("PARTIAL proof (mechanism only) plus exploration, Stage 1 schema space. EXPLORED on every run: fixed multi-step scenarios with entity hooks that run a query while a flush is in progress (before_insert / before_update query the pre-flush state, after_insert queries and then modifies what it found; flush by flush(), commit() or the auto-flush of another query): the SAME query after the flush must agree with the rows in the database and the objects' attributes (tools/session_scenarios.py, 12 cases); in generated histories on real Pony + SQLite every successful read - attribute, reference, collection members, count(), is_empty(), `in`, E[pk], E.get(attr=v), E.select(attr=v), E.select() - must return what an independent logical reference state of the session says (tools/session_spec.py: all earlier successful modifications applied, flushed or not; queries by a key that two pending objects hold are not judged); reads that raise AssertionError are reported. PROVED (Coq, every well-formed schema and every history of the executable session model that reached no dirty site): after obj.a = v succeeded on a scalar attribute (int or str, unique or not) obj.a reads the stored value (loaded or new object, flushed or not). PROVED additionally for Stage 1 schemas WITHOUT Required references only (C10_scalar_read_except_known, from the cache/database coherence invariant of Proofs/SessionCoh.v): in a clean history a loaded scalar attribute of a loaded or saved object reads as its cached value, and unless the program wrote it in this transaction that value is the one in the object's row of the transaction's database (the row exists unless the object is known by key only); the remembered database value is always the row's value - so a scalar read returns the program's last write or the database value. Stage covered: both theorems Stage 1 (no many-to-many, one-to-one, composite keys); the read-after-write theorem every well-formed Stage 1 schema, the database-value theorem Stage 1 schemas without Required references. PARTIAL (C10_collection_read_partial, every Stage 1 schema): a fully loaded collection is read from the cache alone and the answer is its item list. NOT proved: that a fully loaded collection holds every referring row (statement in Proofs/SessionRefs.v), hence the general statement for references, collections, counts and queries. Defects are refuted by model witnesses stated under source-derived flags (get()/select() by an unsaved object as reference value miss the session\'s own objects - repairs proposed; reading a collection raises AssertionError after a failed auto-flush; an assignment to a seed object is not read back); count() after remove being one too low and the Set.copy assertion were repaired in /repo by 11753a1 (recorded as fixed; the witness is vacuous, a regression theorem states count() = 0); two more are consequences of C11/C12 findings.")
LEVEL_NOTE = ('Trusted: the reference state, the fuzzer harness, SQLite; for the theorem the Coq kernel and the hand-written session model tied by differential runs. Aggregates, to_dict(), exists(), many-to-many collections are outside the generator; the query result cache is exercised only by the fixed hook scenarios.')
TECHNIQUE = 'exploration of generated operation histories on real Pony+SQLite against a logical reference state (property oracle, ddmin shrinking); Coq theorems over the executable session model for the transaction structure / read-your-own-write; vm_compute correspondence model vs implementation'
DESIGN_REF = 'DESIGN.md section 5, C10 and Appendix A'
