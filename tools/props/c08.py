"""C08 - Validation enforces declared attribute constraints."""
import json, math, os
from decimal import Decimal
import vlib
from vlib import Corr, Search, Failure, cz, cbool, copt, clist
from py2coq import convvalidate
import c08_impl as impl

ID = 'C08'
LEVEL = 'proof'
PROPS = ['Props/C08.v', 'Findings/C08.v']
GEN = [('Gen/C08Conv.v', convvalidate.generate)]
TRUSTED = [
    'py2coq translator (tools/py2coq/core.py + convvalidate.py): IntConverter.init, IntConverter.validate, RealConverter.validate, DecimalConverter.validate, '
    'StrConverter.validate, the `if val is None` statement of Attribute.validate and Required.validate are re-translated from /repo on every run, and Attribute.__set__ is scanned (only the session/deleted guards may precede the validate call); the translated '
    'functions are cross-checked against the real classes on every generated case (vm_compute inside coqc)',
    'hand-written composition Model/C08Spec.v:attribute_validate/required_validate (Attribute.validate -> converter -> py_check -> Required check), tied by '
    'correspondence with the real attr.validate on generated attribute declarations',
    'value abstraction: a float/Decimal is the exact rational it denotes or +-inf/NaN (Model/C08Base.v:num, comparison by cross-multiplication); a str is its list of code points; '
    'str.strip() and str.isspace() are modelled by py_strip/is_space and validated against CPython on every run',
    'type dispatch (isinstance / int(str) / float(val) / Decimal(val) conversions of foreign input types) is outside the model: the theorems speak about values that already have the attribute type',
]
ASSUMPTIONS = [
    'values have the declared Python type (int for int attributes, float for float, Decimal for Decimal, str for str); conversion of other input types is not modelled',
    'Decimal NaN values are outside the statement (Decimal comparison raises InvalidOperation); float NaN is inside (and is a known finding)',
    'declared float/Decimal bounds are not NaN',
    'sql_default/auto/volatile are read as booleans; DEFAULT values, relationships, composite keys and Discriminator attributes are outside the modelled part of Attribute.validate',
    'PostgreSQL/MySQL/Oracle converters subclass the same validate methods; only the SQLite provider (and the MySQL provider through the pool mock-up for uint64_support) is executed',
]
RULE = ('exhaustive product: int declarations = size {omitted,8,16,24,32,64,+3 illegal} x unsigned {omitted,False,True,None} x min x max drawn from '
        '{omitted, type bound-1, type bound, type bound+1, -5,-1,0,1,5} (quick tier: pairs where one side is in a reduced set) x values at every declared/type bound and bound+-1, 0, +-1, +-5; '
        'float/Decimal declarations = bound pairs incl. +-0, +-inf x values at bound+-1ulp (float) / +-0.01 (Decimal), zeros, infinities, NaN; str = autostrip x max_len {omitted,0,1,3,5,40} x strings at '
        'length max_len-1..max_len+1 with ASCII/Unicode whitespace padding; attribute level = Required/Optional x nullable x volatile x sql_default x py_check x autostrip x {None, "", " ", "x", ...}; '
        'each (declaration, value) runs through converter.validate, Entity(...), obj.attr = v, obj.set(), Entity.get(attr=v) on an in-memory SQLite database; '
        'assignments are also run against objects in different prior states (just created / loaded / loaded from a row written by raw SQL that violates the declaration) with candidates equal to the held value '
        'but of another Python type (30 vs 30.0 vs Decimal(30) vs True) or equal to the invalid held value: the outcome must equal that of the stateless attr.validate; '
        'raw key values offered through one and two relationship hops (Entry.profile -> Profile.account -> Account.id with min/max; a str key with max_len/autostrip) on create/assign/set/get/filter are judged against the innermost key. '
        'non-trivial = the declaration is accepted and the value set contains both accepted and rejected values; distinct = distinct (declaration, value)')

P2 = lambda k: 2 ** k


# ------------------------------------------------------------------------------------------------ case spaces

def ref_type_range(size, unsigned):
    """Reference (documentation): int attributes are 32-bit signed unless size/unsigned say otherwise; unsigned=None and no size = no range."""
    if size is None:
        if unsigned is None: return None, None
        size = 32
    if unsigned is True: return 0, P2(size) - 1
    return -P2(size - 1), P2(size - 1) - 1


def bound_candidates(lo, hi, deep):
    c = [None, -5, -1, 0, 1, 5]
    if lo is None: c += [-P2(62), P2(62)]
    else: c += [lo - 1, lo, lo + 1, hi - 1, hi, hi + 1]
    if deep: c += [-P2(15), P2(15), -P2(31) - 1, P2(31), 100, -100]
    out = []
    for x in c:
        if x not in out: out.append(x)
    return out


def int_decls(ctx, deep):
    sizes = [None, 8, 16, 24, 32, 64]
    full = deep or ctx.thorough
    for size in sizes:
        for uns in ('omit', False, True, None):
            lo, hi = ref_type_range(size, False if uns == 'omit' else uns)
            cands = bound_candidates(lo, hi, full)
            both = [(-5, 5), (5, -5), (-1, 1), (1, 1)]
            if lo is not None: both += [(lo, hi), (lo + 1, hi - 1), (lo - 1, hi + 1), (lo - 1, 0), (0, hi + 1)]
            for mn in cands:
                for mx in cands:
                    if not full and not (mn in (None, 0) or mx in (None, 0) or (mn, mx) in both): continue
                    yield {'size': size, 'unsigned': uns, 'min': mn, 'max': mx}
    for size in (0, 7, 128):
        for uns in ('omit', True):
            yield {'size': size, 'unsigned': uns, 'min': None, 'max': 5}


def int_values(decl):
    uns = False if decl['unsigned'] == 'omit' else decl['unsigned']
    lo, hi = ref_type_range(decl['size'], uns)
    vs = [-5, -1, 0, 1, 5]
    for b in (decl['min'], decl['max'], lo, hi):
        if b is not None: vs += [b - 1, b, b + 1]
    if lo is None: vs += [-P2(62), P2(62)]
    out = []
    for v in vs:
        if v not in out: out.append(v)
    return out


def ref_int_ok(decl, v):
    """Property oracle (independent of model and implementation): declared and type bounds hold."""
    uns = False if decl['unsigned'] == 'omit' else decl['unsigned']
    lo, hi = ref_type_range(decl['size'], uns)
    for b in (decl['min'], lo):
        if b is not None and v < b: return False
    for b in (decl['max'], hi):
        if b is not None and v > b: return False
    return True


FLOAT_BOUNDS = [None, -1.5, -0.0, 0, 0.0, 1, 2.5, 1e308, -1e308, float('inf'), float('-inf')]

def float_values(mn, mx):
    vs = [0.0, -0.0, 5e-324, -5e-324, float('nan'), float('inf'), float('-inf'), 1e308, -1e308, 3, -3, 0.5]
    for b in (mn, mx):
        if b is not None:
            b = float(b)
            vs += [b] if math.isinf(b) else [math.nextafter(b, -math.inf), b, math.nextafter(b, math.inf)]
    return vs

def ref_num_ok(mn, mx, v):
    if v != v: return mn is None and mx is None         # NaN satisfies no bound
    if mn is not None and v < mn: return False
    if mx is not None and v > mx: return False
    return True


DEC_BOUNDS = [None, Decimal('0'), Decimal('-0'), Decimal('-1.5'), Decimal('1.50'), Decimal('10'), Decimal('1E+3'), Decimal('Infinity')]

def dec_values(mn, mx):
    vs = [Decimal('0'), Decimal('-0.00'), Decimal('1E+30'), Decimal('-1E+30'), Decimal('Infinity'), Decimal('-Infinity'), Decimal('0.001')]
    for b in (mn, mx):
        if b is not None and b.is_finite(): vs += [b - Decimal('0.01'), b, b + Decimal('0.01')]
    return vs


STR_MAXLEN = ['omit', 0, 1, 3, 5, 40]
SPACES = [' ', '\t', '\n', '\x0b', '\x0c', '\r', '\x1c', '\x1f', '\x85', '\xa0', '\u1680', '\u2000', '\u2003', '\u200a', '\u2028', '\u2029', '\u202f', '\u205f', '\u3000']
NONSPACES = ['\u200b', '\x1b', '\u180e', '\ufeff']      # look like spaces, are not stripped

def str_values(max_len, rng):
    L = 3 if max_len in ('omit', 0) else max_len
    vs = ['', ' ', 'a']
    for n in sorted({max(0, L - 1), L, L + 1, L + 2}):
        body = 'a' * n
        vs += [body, ' ' + body + ' ', body + '\t\n', '\u2003' + body + '\x1f', body + ' ' * 3, ' ' * (n + 1)]
        if n >= 2: vs += ['a' + ' ' * (n - 2) + 'b', '\u200b' + body[1:]]
    for k in range(4):
        a, b = rng.choice(SPACES), rng.choice(SPACES + NONSPACES)
        vs.append(a + 'xy' * rng.randrange(0, 3) + b)
    out = []
    for v in vs:
        if v not in out: out.append(v)
    return out

def ref_strip(s):
    """Reference for the documented normalisation: remove leading/trailing characters c with c.isspace()."""
    i, j = 0, len(s)
    while i < j and s[i].isspace(): i += 1
    while j > i and s[j - 1].isspace(): j -= 1
    return s[i:j]


# ------------------------------------------------------------------------------------------------ Coq literals

def cnum(x):
    """A float / Decimal as the exact rational it denotes: mkn base m e = m * base^e (short literal, expanded inside Coq)."""
    if isinstance(x, Decimal):
        if x.is_nan(): return 'NNan'
        if x.is_infinite(): return '(NInf %s)' % cbool(x < 0)
        sign, digits, exp = x.as_tuple()
        n = int(''.join(map(str, digits)) or '0') * (-1 if sign else 1)
        return '(mkn 10 %s %s)' % (cz(n), cz(exp))
    x = float(x)
    if x != x: return 'NNan'
    if math.isinf(x): return '(NInf %s)' % cbool(x < 0)
    m, e = math.frexp(x)
    m = int(m * 2 ** 53); e -= 53
    assert m * 2.0 ** 0 == m and (x == math.ldexp(m, e))
    return '(mkn 2 %s %s)' % (cz(m), cz(e))

def cstrz(s):
    return '[' + '; '.join('%d' % ord(c) for c in s) + ']'

def cres_str(r):
    return '(Ok %s)' % cstrz(r[1]) if r[0] == 'ok' else '(Err %d)' % r[1]

def cuns(u):
    if u == 'omit': return '(Some false)'
    return copt(u, cbool)

def caval(v):
    if v is None: return 'None'
    if isinstance(v, str): return '(Some (AStr %s))' % cstrz(v)
    return '(Some (AInt %s))' % cz(v)


HEADER = ('Require Import PonyV.Base.PyBase PonyV.Model.C08Base PonyV.Gen.C08Conv PonyV.Model.C08Spec PonyV.Model.C08Corr.\n'
          'Open Scope Z_scope.\n')


def run_bools(ctx, exprs, chunk=700):
    """exprs: Coq bool terms. Returns (indexes whose value is not true, the defect flags computed in Coq).
    One `Definition c<i> : bool` per case (cheap to elaborate), a few files in parallel; the last file also evaluates C08_flags."""
    chunks, starts, cur, size = [], [], [], 0
    def flush():
        if cur:
            chunks.append('\n'.join('Definition c%d : bool := %s.' % (k, e) for k, e in enumerate(cur)) +
                          '\nEval vm_compute in (failing [%s]).\n' % '; '.join('c%d' % k for k in range(len(cur))))
    for i, e in enumerate(exprs):
        e = e.replace('%Z', '')
        if cur and (size + len(e) > 110000 or len(cur) >= chunk):
            flush(); cur, size = [], 0
        if not cur: starts.append(i)
        cur.append(e); size += len(e)
    flush()
    chunks.append('Require Import PonyV.Findings.C08.\nEval vm_compute in C08_flags.\n')
    outs = vlib.coq_eval_many(ctx, HEADER, chunks, name='c08cases')
    bad = []
    for k, out in enumerate(outs[:-1]):
        vals = vlib.parse_eval_outputs(out)
        assert len(vals) == 1, out[-500:]
        body = vals[0].strip()
        assert body.startswith('['), body
        inner = body.strip('[]').strip()
        if inner:
            for tok in inner.split(';'):
                bad.append(starts[k] + int(tok.strip().replace('%nat', '')))
    vals = vlib.parse_eval_outputs(outs[-1])
    flags = [t.strip() == 'true' for t in vals[0].strip('() ').split(',')] if vals else None
    return bad, flags


# ------------------------------------------------------------------------------------------------ running the implementation (shared by correspondence and search)

_cache = {}

def impl_runs(ctx, deep):
    """Run the real implementation over the whole case space once per (tier, deep)."""
    key = (ctx.tier, bool(deep), ctx.seed)
    if key in _cache: return _cache[key]
    import random
    rng = random.Random(ctx.seed * 7919 + 8)
    R = {'int': [], 'int64': [], 'float': [], 'dec': [], 'str': [], 'attr': [], 'route_mismatch': []}

    # --- int: init on every declaration; routes on the accepted ones
    decls = list(int_decls(ctx, deep))
    inits = [impl.int_init(d) for d in decls]
    ok_idx = [i for i, (r, c) in enumerate(inits) if r[0] == 'ok']
    batch = impl.Batch(int, [impl.int_kwargs(decls[i]) for i in ok_idx])
    pos = {i: k for k, i in enumerate(ok_idx)}
    for i, d in enumerate(decls):
        r, conv = inits[i]
        rec = {'decl': d, 'init': r, 'values': [], 'codes': []}
        if r[0] == 'ok':
            vs = int_values(d)
            codes = [impl.conv_validate(conv, v) for v in vs]
            routes = batch.run(pos[i], vs)
            bconv = batch.converter(pos[i])
            if (bconv.min_val, bconv.max_val, bconv.size, bconv.unsigned) != tuple(r[1:]):
                R['route_mismatch'].append({'what': 'converter of the mapped attribute differs from the unbound one', 'decl': d})
            rec['values'], rec['codes'], rec['routes'] = vs, codes, routes
            for rt in impl.ROUTES:
                if routes[rt] != codes:
                    j = [a != b for a, b in zip(routes[rt], codes)].index(True)
                    R['route_mismatch'].append({'what': 'route %s disagrees with converter.validate' % rt, 'decl': d, 'value': vs[j],
                                                'route_code': routes[rt][j], 'validate_code': codes[j]})
        R['int'].append(rec)
    # --- int with uint64_support = True (MySQL provider through the pool mock-up): converter level only
    for d in decls:
        if (d['size'] == 64 and (d['unsigned'] is True or (d['min'] is None and d['max'] is None))) or d['size'] in (0, 7, 128):
            r, conv = impl.int_init(d, uint64=True)
            rec = {'decl': d, 'init': r, 'values': [], 'codes': []}
            if r[0] == 'ok':
                rec['values'] = int_values(d)
                rec['codes'] = [impl.conv_validate(conv, v) for v in rec['values']]
            R['int64'].append(rec)

    # --- float
    fdecls = [(a, b) for a in FLOAT_BOUNDS for b in FLOAT_BOUNDS]
    kw = lambda a, b: dict(([('min', a)] if a is not None else []) + ([('max', b)] if b is not None else []))
    batch = impl.Batch(float, [kw(a, b) for a, b in fdecls])
    for i, (a, b) in enumerate(fdecls):
        vs = float_values(a, b)
        conv = batch.converter(i)
        codes = [impl.conv_validate(conv, v) for v in vs]
        routes = batch.run(i, vs)
        for rt in impl.ROUTES:
            if routes[rt] != codes:
                j = [x != y for x, y in zip(routes[rt], codes)].index(True)
                R['route_mismatch'].append({'what': 'float: route %s disagrees with converter.validate' % rt, 'decl': [repr(a), repr(b)], 'value': repr(vs[j]),
                                            'route_code': routes[rt][j], 'validate_code': codes[j]})
        R['float'].append({'min': a, 'max': b, 'conv_min': conv.min_val, 'conv_max': conv.max_val, 'values': vs, 'codes': codes})

    # --- Decimal
    ddecls = [(a, b) for a in DEC_BOUNDS for b in DEC_BOUNDS]
    batch = impl.Batch(Decimal, [kw(a, b) for a, b in ddecls], args_list=[(40, 10)] * len(ddecls))
    for i, (a, b) in enumerate(ddecls):
        vs = dec_values(a, b)
        conv = batch.converter(i)
        codes = [impl.conv_validate(conv, v) for v in vs]
        routes = batch.run(i, vs)
        for rt in ('create', 'assign', 'set'):        # get(attr=Decimal) quantises the lookup value: covered by C07
            if routes[rt] != codes:
                j = [x != y for x, y in zip(routes[rt], codes)].index(True)
                R['route_mismatch'].append({'what': 'Decimal: route %s disagrees with converter.validate' % rt, 'decl': [str(a), str(b)], 'value': str(vs[j]),
                                            'route_code': routes[rt][j], 'validate_code': codes[j]})
        R['dec'].append({'min': a, 'max': b, 'values': vs, 'codes': codes})

    # --- str
    sdecls = [(st, ml) for st in ('omit', True, False) for ml in STR_MAXLEN]
    def skw(st, ml):
        k = {}
        if st != 'omit': k['autostrip'] = st
        return k
    batch = impl.Batch(str, [skw(st, ml) for st, ml in sdecls], args_list=[() if ml == 'omit' else (ml,) for st, ml in sdecls])
    for i, (st, ml) in enumerate(sdecls):
        vs = str_values(ml, rng)
        conv = batch.converter(i)
        strip = st != False
        res = []
        for v in vs:
            try: res.append(('ok', conv.validate(v)))
            except Exception as e: res.append(('err', impl.exc_code(e)))
        codes = [0 if r[0] == 'ok' else r[1] for r in res]
        norm = (lambda v: ref_strip(v)) if strip else (lambda v: v)
        routes = batch.run(i, vs, norm)
        for rt in impl.ROUTES:
            if routes[rt] != codes:
                j = [x != y for x, y in zip(routes[rt], codes)].index(True)
                R['route_mismatch'].append({'what': 'str: route %s disagrees with converter.validate' % rt, 'decl': [st, ml], 'value': vs[j],
                                            'route_code': routes[rt][j], 'validate_code': codes[j]})
        R['str'].append({'autostrip': st, 'max_len': ml, 'conv_autostrip': conv.autostrip, 'conv_max_len': conv.max_len, 'values': vs, 'results': res})

    # --- attribute level: None / '' / required / nullable / py_check
    chk = lambda v: v != 13 and v != 'bad'
    for kind in ('Required', 'Optional'):
        for ty in (str, int):
            for nullable in ('omit', True, False):
                for vol in (False, True):
                    for sqld in (False, True):
                        for with_check in (False, True):
                            for autostrip in ((True, False) if ty is str else (True,)):
                                opts = {}
                                if nullable != 'omit': opts['nullable'] = nullable
                                if vol: opts['volatile'] = True
                                if sqld: opts['sql_default'] = "'q'" if ty is str else '7'
                                if with_check: opts['py_check'] = chk
                                if ty is str and not autostrip: opts['autostrip'] = False
                                Rent, attr = impl.build_attr(kind, ty, opts)
                                desc = {'kind': kind, 'type': ty.__name__, 'nullable': nullable, 'volatile': vol, 'sql_default': sqld,
                                        'py_check': with_check, 'autostrip': autostrip}
                                if Rent is None:
                                    R['attr'].append({'decl': desc, 'refused': attr}); continue
                                vals = [None, '', ' ', 'x', ' x ', 'bad', ' bad ', '\u2003'] if ty is str else [None, 0, 5, 13, -1]
                                res = [impl.attr_validate(attr, v) for v in vals]
                                cre = [impl.attr_create(Rent, v) for v in vals]
                                for v, a, c in zip(vals, res, cre):
                                    if a != c:
                                        R['route_mismatch'].append({'what': 'attr: Entity(x=v) disagrees with attr.validate', 'decl': desc, 'value': v,
                                                                    'route_code': c, 'validate_code': a})
                                R['attr'].append({'decl': desc, 'state': {'nullable': attr.nullable, 'is_required': attr.is_required, 'auto': bool(attr.auto),
                                                                          'volatile': bool(attr.is_volatile), 'sql_default': bool(attr.sql_default)},
                                                  'values': vals, 'results': res})
    # --- assignments against objects in different prior states (created / loaded / row written past the ORM with an invalid value)
    R['assign_states'], R['assign_convs'] = impl.run_state_assignments()
    R['types'] = impl.type_outcomes()
    R['relation_keys'] = impl.run_relation_keys()
    R['dec_init'] = [((p_, s_), impl.dec_init_real(p_, s_)) for p_ in (-1, 0, 1, 2, 5, 12, 40) for s_ in (-1, 0, 1, 2, 5, 6, 12, 13)]
    R['dec_precision_accepts'] = impl.dec_precision_probe()
    _cache[key] = R
    return R


# ------------------------------------------------------------------------------------------------ correspondence (Tie B)

def correspondence(ctx):
    R = impl_runs(ctx, ctx.thorough)
    exprs, meta = [], []
    dist = {'int_decls': 0, 'int_decls_refused': 0, 'int_values': 0, 'int_uint64_decls': 0, 'float_decls': 0, 'float_values': 0, 'decimal_decls': 0,
            'decimal_values': 0, 'str_decls': 0, 'str_values': 0, 'attr_decls': 0, 'attr_values': 0, 'attr_decls_refused_by_pony': 0,
            'is_space_codepoints': 0, 'strip_strings': 0, 'route_evaluations': 0}
    disagreements = [dict(d, input=d.get('decl')) for d in R['route_mismatch'][:10]]
    nontrivial = set()
    cases = 0

    def int_expr(rec, uint64):
        d, r = rec['decl'], rec['init']
        if r[0] == 'ok':
            exp = '(Ok (mk_int_conv %s %s %s %s))' % (copt(r[1], cz), copt(r[2], cz), copt(r[3], cz), copt(r[4], cbool))
        else:
            exp = '(Err %d)' % r[1]
        pairs = clist(list(zip(rec['values'], rec['codes'])), lambda p: '(%s, %s)' % (cz(p[0]), cz(p[1])))
        # unsigned=None + an out-of-range bound: the real code raises TypeError while *formatting* the ValueError message ('%d' % None); class not compared there
        loose = d['unsigned'] is None
        return 'chk_int %s %s %s %s %s %s %s %s' % (cbool(loose), cbool(uint64), copt(d['size'], cz), cuns(d['unsigned']), copt(d['min'], cz), copt(d['max'], cz), exp, pairs)

    for rec in R['int']:
        exprs.append(int_expr(rec, False)); meta.append(('int', rec['decl'], rec['init']))
        dist['int_decls'] += 1; dist['int_values'] += len(rec['values']); cases += 1 + len(rec['values'])
        dist['route_evaluations'] += 4 * len(rec['values'])
        if rec['init'][0] != 'ok': dist['int_decls_refused'] += 1
        elif len(set(rec['codes'])) > 1:
            for v in rec['values']: nontrivial.add(('int', json.dumps(rec['decl'], sort_keys=True), v))
    for rec in R['int64']:
        exprs.append(int_expr(rec, True)); meta.append(('int-uint64', rec['decl'], rec['init']))
        dist['int_uint64_decls'] += 1; cases += 1 + len(rec['values'])
    for rec in R['float']:
        if rec['conv_min'] != (None if rec['min'] is None else float(rec['min'])) or rec['conv_max'] != (None if rec['max'] is None else float(rec['max'])):
            disagreements.append({'what': 'RealConverter.init no longer stores float(min)/float(max)', 'input': [repr(rec['min']), repr(rec['max'])],
                                  'impl': [repr(rec['conv_min']), repr(rec['conv_max'])]})
        pairs = clist(list(zip(rec['values'], rec['codes'])), lambda p: '(%s, %s)' % (cnum(p[0]), cz(p[1])))
        exprs.append('chk_real %s %s %s' % (copt(rec['min'], cnum), copt(rec['max'], cnum), pairs))
        meta.append(('float', [repr(rec['min']), repr(rec['max'])], [repr(v) for v in rec['values']]))
        dist['float_decls'] += 1; dist['float_values'] += len(rec['values']); cases += len(rec['values']); dist['route_evaluations'] += 4 * len(rec['values'])
        if len(set(rec['codes'])) > 1:
            for v in rec['values']: nontrivial.add(('float', repr(rec['min']), repr(rec['max']), repr(v)))
    for rec in R['dec']:
        pairs = clist(list(zip(rec['values'], rec['codes'])), lambda p: '(%s, %s)' % (cnum(p[0]), cz(p[1])))
        exprs.append('chk_dec %s %s %s' % (copt(rec['min'], cnum), copt(rec['max'], cnum), pairs))
        meta.append(('decimal', [str(rec['min']), str(rec['max'])], [str(v) for v in rec['values']]))
        dist['decimal_decls'] += 1; dist['decimal_values'] += len(rec['values']); cases += len(rec['values']); dist['route_evaluations'] += 3 * len(rec['values'])
        if len(set(rec['codes'])) > 1:
            for v in rec['values']: nontrivial.add(('dec', str(rec['min']), str(rec['max']), str(v)))
    for rec in R['str']:
        if rec['conv_autostrip'] != (rec['autostrip'] != False) or rec['conv_max_len'] != (None if rec['max_len'] == 'omit' else rec['max_len']):
            disagreements.append({'what': 'StrConverter.init stores something else than the declared autostrip/max_len', 'input': [rec['autostrip'], rec['max_len']],
                                  'impl': [rec['conv_autostrip'], rec['conv_max_len']]})
        pairs = clist(list(zip(rec['values'], rec['results'])), lambda p: '(%s, %s)' % (cstrz(p[0]), cres_str(p[1])))
        exprs.append('chk_str %s %s %s' % (cbool(rec['autostrip'] != False), 'None' if rec['max_len'] == 'omit' else '(Some %s)' % cz(rec['max_len']), pairs))
        meta.append(('str', [rec['autostrip'], rec['max_len']], rec['values']))
        dist['str_decls'] += 1; dist['str_values'] += len(rec['values']); cases += len(rec['values']); dist['route_evaluations'] += 4 * len(rec['values'])
        if len(set(r[0] for r in rec['results'])) > 1:
            for v in rec['values']: nontrivial.add(('str', rec['autostrip'], rec['max_len'], v))
    for rec in R['attr']:
        if 'refused' in rec:
            dist['attr_decls_refused_by_pony'] += 1; continue
        st, d = rec['state'], rec['decl']
        def cres(r):
            return '(Ok %s)' % caval(r[1]) if r[0] == 'ok' else '(Err %d)' % r[1]
        pairs = clist(list(zip(rec['values'], rec['results'])), lambda p: '(%s, %s)' % (caval(p[0]), cres(p[1])))
        exprs.append('chk_attr %s %s %s %s %s %s %s %s' % (cbool(st['is_required']), copt(st['nullable'], cbool), cbool(st['auto']), cbool(st['volatile']),
                                                         cbool(st['sql_default']), cbool(d['py_check']), cbool(d['autostrip'] and d['type'] == 'str'), pairs))
        meta.append(('attr', d, rec['results']))
        dist['attr_decls'] += 1; dist['attr_values'] += len(rec['values']); cases += len(rec['values'])
        if len(set(r[0] for r in rec['results'])) > 1:
            for v in rec['values']: nontrivial.add(('attr', json.dumps(d, sort_keys=True), v))

    # declared type: the table interpreted from source vs the real validate on the same representatives; Decimal(precision, scale) declarations
    dist['type_dispatch_cells'] = 0; dist['decimal_declarations'] = 0
    for ck, row in sorted(R['types'].items()):
        for tag, o in sorted(row.items()):
            exprs.append('chk_type %s %s %s' % (ck, tag, '(TyAccept %s)' % o[1] if o[0] == 'accept' else '(TyReject %d)' % o[1]))
            meta.append(('type', [ck, tag], o)); dist['type_dispatch_cells'] += 1; cases += 1
            nontrivial.add(('type', ck, tag))
    for (p_, s_), o in R['dec_init']:
        exprs.append('chk_dec_init %s %s %s' % (cz(p_), cz(s_), '(Ok (%s, %s))' % (cz(o[1]), cz(o[2])) if o[0] == 'ok' else '(Err %d)' % o[1]))
        meta.append(('dec_init', [p_, s_], o)); dist['decimal_declarations'] += 1; cases += 1

    # assignment in different prior states: int attributes, int candidates, compared with attr_set_outcome (scanned from Attribute.__set__)
    dist['assign_state_cases'] = 0
    for r in R['assign_states']:
        dist['assign_state_cases'] += 1; cases += 1
        conv = R['assign_convs'][r['attr']]
        try: held, v = eval(r['held']), eval(r['value'])
        except Exception: continue
        if r['attr'] in ('age', 'level') and type(held) is int and type(v) is int:
            a = r['assign']
            code = (0 if a[2] == repr(v) else -1) if a[0] == 'ok' else a[1]
            exprs.append('chk_assign_int %s %s %s %s %s' % (copt(conv.min_val, cz), copt(conv.max_val, cz), cz(held), cz(v), cz(code)))
            meta.append(('assign-int', [r['attr'], r['state'], r['held'], r['value']], a))
            nontrivial.add(('assign', r['attr'], r['state'], r['value']))

    # reference semantics: is_space vs str.isspace, py_strip vs str.strip (CPython of this run)
    spaces = [c for c in range(0x110000) if chr(c).isspace()]
    # Coq compares every code point of [0, 12289) (exhaustively, inside vm_compute); above 12288 the model is false everywhere
    # (C08_is_space_bounded) and CPython must report no whitespace there
    exprs.append('chk_space_range 0 12289 %s' % clist(spaces, lambda c: '%d' % c))
    meta.append(('is_space', 'all code points 0..12288', spaces)); dist['is_space_codepoints'] += 0x110000; cases += 12289
    if max(spaces) > 12288:
        disagreements.append({'what': 'CPython reports whitespace code points above U+3000; Model/C08Base.v:is_space has none', 'input': [c for c in spaces if c > 12288]})
    strs = []
    alpha = SPACES + NONSPACES + ['a', 'b', 'é']
    for n in range(0, 7):
        for _ in range(12): strs.append(''.join(ctx.rng.choice(alpha) for _ in range(n)))
    exprs.append('chk_strip %s' % clist(strs, lambda s: '(%s, %s)' % (cstrz(s), cstrz(s.strip()))))
    meta.append(('strip', strs[:5], None)); dist['strip_strings'] += len(strs); cases += len(strs)
    for s in strs:
        if ref_strip(s) != s.strip():
            disagreements.append({'what': 'reference strip of the search oracle differs from str.strip()', 'input': s})

    bad, flags_model = run_bools(ctx, exprs)
    for i in bad[:20]:
        kind, inp, implout = meta[i]
        disagreements.append({'what': 'model and implementation differ (%s)' % kind, 'input': inp, 'impl': implout, 'coq_case': exprs[i][:1500]})

    # the defect flags computed inside Coq from the translated code vs. the real implementation
    flags_impl = real_flags()
    dist['flags(int_zero_bound_ignored, real_zero_bound_ignored, real_nan_accepted, str_zero_max_len_ignored, bool_accepts_any_type)'] = {'model': flags_model, 'implementation': flags_impl}
    if flags_model != flags_impl:
        disagreements.append({'what': 'defect flags computed from the translated model differ from the real implementation', 'input': 'C08_flags',
                              'model': flags_model, 'impl': flags_impl})
    samples = [{'coq_case': exprs[0][:400]}, {'int_decl': R['int'][5]['decl'], 'init': R['int'][5]['init'], 'values': R['int'][5]['values'][:6], 'codes': R['int'][5]['codes'][:6]}]
    return Corr(cases=cases, nontrivial=len(nontrivial), disagreements=disagreements, samples=samples, distribution=dist,
                note='one Coq boolean per declaration (init result and every value outcome compared inside vm_compute); `cases` counts (declaration, value) pairs; '
                     'every pair also ran through Entity(...), assignment, set() and get() on in-memory SQLite and had to agree with converter.validate')


def real_flags():
    from pony import orm
    sq = impl.provider(False)
    def acc(attr, v):
        try: sq.get_converter_by_attr(attr).validate(v); return True
        except ValueError: return False
    a1 = acc(orm.Optional(int, min=0), -5) or acc(orm.Optional(int, max=0), 5)
    a2 = acc(orm.Optional(float, min=0), -1.0) or acc(orm.Optional(float, max=0), 1.0)
    a3 = acc(orm.Optional(float, min=1, max=2), float('nan'))
    a4 = acc(orm.Optional(str, 0), 'a')
    try: sq.get_converter_by_attr(orm.Optional(bool)).validate('x'); a5 = True
    except Exception: a5 = False
    return [a1, a2, a3, a4, a5]


# ------------------------------------------------------------------------------------------------ search (property oracle)

def sgn(v):
    if v is None: return 'none'
    return 'neg' if v < 0 else ('zero' if v == 0 else 'pos')


def int_key(d, v, accepted):
    if accepted:
        if d['min'] == 0 and v < 0 and (d['max'] is None or v <= d['max']): return 'int-min-0-ignored'
        if d['max'] == 0 and v > 0 and (d['min'] is None or v >= d['min']): return 'int-max-0-ignored'
    return 'unlisted:int:%s:size=%s:unsigned=%s:min=%s:max=%s:value=%s' % ('accepted-out-of-bounds' if accepted else 'rejected-in-bounds',
                                                                         d['size'], d['unsigned'], sgn(d['min']), sgn(d['max']), sgn(v))


def num_key(kind, mn, mx, v, accepted):
    if kind == 'float' and accepted:
        if v != v: return 'float-nan-accepted'
        if mn is not None and mn == 0 and v < 0 and (mx is None or v <= mx): return 'float-min-0-ignored'
        if mx is not None and mx == 0 and v > 0 and (mn is None or v >= mn): return 'float-max-0-ignored'
    return 'unlisted:%s:%s:min=%s:max=%s:value=%s' % (kind, 'accepted-out-of-bounds' if accepted else 'rejected-in-bounds', sgn(mn), sgn(mx),
                                                    'nan' if v != v else sgn(v))


def search(ctx, deep):
    R = impl_runs(ctx, deep)
    failures, evals, nontriv = [], 0, set()
    by_key = {}
    def fail(key, what, data):
        by_key[key] = by_key.get(key, 0) + 1
        if by_key[key] == 1: failures.append(Failure(key, what, data))

    for m in R['route_mismatch']:
        fail('unlisted:route:%s' % m['what'], '%s: %s' % (m['what'], json.dumps(m, default=str)[:300]),
             {'type': 'route', 'detail': json.loads(json.dumps(m, default=str))})
    for rec in R['int'] + R['int64']:
        d = rec['decl']
        for v, code in zip(rec['values'], rec['codes']):
            evals += 1
            want = ref_int_ok(d, v)
            got = code == 0
            if code not in (0, 2) or got != want:
                fail(int_key(d, v, got) if code in (0, 2) else 'unlisted:int:unexpected-outcome-%s' % code,
                     'int attribute %s: value %d is %s (outcome code %s), but it %s the declared/type bounds' % (
                         impl.int_kwargs(d), v, 'accepted' if got else 'rejected', code, 'satisfies' if want else 'violates'),
                     {'type': 'int', 'decl': d, 'value': v})
            else:
                nontriv.add(('int', json.dumps(d, sort_keys=True), v))
    for rec in R['float']:
        mn = None if rec['min'] is None else float(rec['min']); mx = None if rec['max'] is None else float(rec['max'])
        for v, code in zip(rec['values'], rec['codes']):
            evals += 1
            want = ref_num_ok(mn, mx, float(v)); got = code == 0
            if code not in (0, 2) or got != want:
                fail(num_key('float', mn, mx, float(v), got) if code in (0, 2) else 'unlisted:float:unexpected-outcome-%s' % code,
                     'float attribute min=%r max=%r: value %r is %s, but it %s the declared bounds' % (rec['min'], rec['max'], v, 'accepted' if got else 'rejected',
                                                                                                    'satisfies' if want else 'violates'),
                     {'type': 'float', 'min': repr(rec['min']), 'max': repr(rec['max']), 'value': repr(v)})
            else: nontriv.add(('float', repr(mn), repr(mx), repr(v)))
    for rec in R['dec']:
        for v, code in zip(rec['values'], rec['codes']):
            evals += 1
            want = ref_num_ok(rec['min'], rec['max'], v); got = code == 0
            if code not in (0, 2) or got != want:
                fail(num_key('decimal', rec['min'], rec['max'], v, got) if code in (0, 2) else 'unlisted:decimal:unexpected-outcome-%s' % code,
                     'Decimal attribute min=%s max=%s: value %s is %s, but it %s the declared bounds' % (rec['min'], rec['max'], v, 'accepted' if got else 'rejected',
                                                                                                      'satisfies' if want else 'violates'),
                     {'type': 'decimal', 'min': None if rec['min'] is None else str(rec['min']), 'max': None if rec['max'] is None else str(rec['max']), 'value': str(v)})
            else: nontriv.add(('dec', str(rec['min']), str(rec['max']), str(v)))
    for rec in R['str']:
        strip = rec['autostrip'] != False
        ml = None if rec['max_len'] == 'omit' else rec['max_len']
        for v, r in zip(rec['values'], rec['results']):
            evals += 1
            nv = ref_strip(v) if strip else v
            want = ml is None or len(nv) <= ml
            got = r[0] == 'ok'
            bad_value = got and r[1] != nv
            if got != want or bad_value or (not got and r[1] != 2):
                if got and not want and ml == 0: key = 'str-max_len-0-ignored'
                elif bad_value: key = 'unlisted:str:stored-value-not-normalised:autostrip=%s' % strip
                else: key = 'unlisted:str:%s:autostrip=%s:max_len=%s:len=%d' % ('accepted-too-long' if got else 'rejected-short-enough', strip, ml, len(nv))
                fail(key, 'str attribute autostrip=%s max_len=%s: %r (normalised length %d) gives %r' % (strip, ml, v, len(nv), r),
                     {'type': 'str', 'autostrip': rec['autostrip'], 'max_len': rec['max_len'], 'value': v})
            else: nontriv.add(('str', strip, ml, v))
    for rec in R['attr']:
        if 'refused' in rec: continue
        d = rec['decl']; st = rec['state']
        for v, r in zip(rec['values'], rec['results']):
            evals += 1
            want = ref_attr(d, st, v)
            if want != r:
                fail('unlisted:attr:%s:%s:nullable=%s:volatile=%s:sql_default=%s:py_check=%s:value=%s' % (
                        d['kind'], d['type'], d['nullable'], d['volatile'], d['sql_default'], d['py_check'], 'None' if v is None else ('empty' if v == '' else 'other')),
                     '%s(%s, %s): validate(%r) gives %r, expected %r' % (d['kind'], d['type'], {k: d[k] for k in ('nullable', 'volatile', 'sql_default', 'py_check', 'autostrip')}, v, r, want),
                     {'type': 'attr', 'decl': d, 'value': v})
            else: nontriv.add(('attr', json.dumps(d, sort_keys=True), v))
    # declared type (independent table of what each attribute type may take)
    for ck, row in sorted(R['types'].items()):
        for tag, o in sorted(row.items()):
            evals += 1
            allowed = tag in TYPE_ALLOWED[ck]
            if o[0] == 'accept' and not allowed:
                key = 'bool-accepts-any-value' if ck == 'CBool' else 'unlisted:type:%s:%s:accepted' % (ck, tag)
                fail(key, '%s attribute: a %s value is accepted (continues as %s)' % (ck[1:].lower(), tag[2:], o[1][2:]), {'type': 'pytype', 'conv': ck, 'tag': tag})
            elif o[0] == 'reject' and tag in TYPE_CORE[ck]:
                fail('unlisted:type:%s:%s:rejected' % (ck, tag), '%s attribute: a %s value is refused (code %s)' % (ck[1:].lower(), tag[2:], o[1]), {'type': 'pytype', 'conv': ck, 'tag': tag})
            elif o[0] == 'reject' and o[1] not in (1, 2):
                fail('unlisted:type:%s:%s:exception-class' % (ck, tag), '%s attribute: a %s value raises an exception that is neither TypeError nor ValueError' % (ck[1:].lower(), tag[2:]),
                     {'type': 'pytype', 'conv': ck, 'tag': tag})
            else: nontriv.add(('type', ck, tag))
    evals += 1
    if R['dec_precision_accepts']:
        fail('decimal-precision-not-enforced', 'Optional(Decimal, 5, 2) accepts Decimal("123456.789"): validate never compares the digits with the declared precision/scale',
             {'type': 'dec-precision'})
    for (p_, s_), o in R['dec_init']:
        evals += 1
        want = 0 < s_ <= p_ and p_ > 0
        if (o[0] == 'ok') != want:
            fail('unlisted:decimal-declaration:precision=%s:scale=%s' % (sgn(p_), sgn(s_)), 'Decimal(precision=%d, scale=%d) is %s' % (p_, s_, 'accepted' if o[0] == 'ok' else 'refused'),
                 {'type': 'dec-init', 'p': p_, 's': s_})
    # raw key values offered through one / two relationship hops: judged as the innermost key attribute's validate judges them
    for r in R['relation_keys']:
        evals += 1
        if relation_key_bad(r):
            kind = 'accepted-where-validate-rejects' if r['validate'][0] == 'err' else ('rejected-where-validate-accepts' if r['got'][0] == 'err' else 'not-normalised')
            fail('unlisted:relation-key:%s:hops=%d:%s:%s' % (r['key'], r['hops'], r['route'], kind),
                 'raw key value %s offered through %d relationship hop(s) on %s: outcome %r, but the key attribute (%s) validates it as %r' % (
                     r['value'], r['hops'], r['route'], r['got'], 'Account.id = PrimaryKey(int, min=0, max=1000)' if r['key'] == 'int' else 'Tag.code = PrimaryKey(str, 4)', r['validate']),
                 {'type': 'relation-key', 'key': r['key'], 'hops': r['hops'], 'route': r['route'], 'value': r['value']})
        else: nontriv.add(('relkey', r['key'], r['hops'], r['route'], r['value']))
    for r in R['assign_states']:
        evals += 1
        if r['assign'] != r['validate']:
            kind = 'accepted-where-validate-rejects' if r['assign'][0] == 'ok' and r['validate'][0] == 'err' else (
                   'rejected-where-validate-accepts' if r['assign'][0] == 'err' and r['validate'][0] == 'ok' else 'different-outcome')
            fail('unlisted:assign-state:%s:%s:%s' % (r['attr'], r['state'], kind),
                 'assignment depends on the held value: object (%s) holding %s=%s: `obj.%s = %s` gives %r, but validation of that value gives %r' % (
                     r['state'], r['attr'], r['held'], r['attr'], r['value'], r['assign'], r['validate']),
                 {'type': 'assign-state', 'attr': r['attr'], 'state': r['state'], 'value': r['value']})
        else: nontriv.add(('assign', r['attr'], r['state'], r['value']))
    dist = {'failing_inputs_by_key': by_key, 'evaluations_by_type': {k: sum(len(r.get('values', [])) for r in R[k]) for k in ('int', 'int64', 'float', 'dec', 'str', 'attr')}}
    return Search(evaluations=evals, failures=failures, nontrivial=len(nontriv), distribution=dist, exhaustive=True,
                  samples=[{'declaration': 'Optional(int, size=8, unsigned=True, max=200)', 'values': [-1, 0, 200, 201, 255, 256], 'oracle': 'accepted iff 0 <= v <= 200'}])


TYPE_ALLOWED = {'CBool': {'TgBool', 'TgInt'}, 'CStr': {'TgStrNum', 'TgStrText'}, 'CInt': {'TgInt', 'TgBool', 'TgStrNum'},
                'CReal': {'TgFloat', 'TgInt', 'TgBool', 'TgStrNum', 'TgDecimal'}, 'CDecimal': {'TgDecimal', 'TgInt', 'TgBool', 'TgFloat', 'TgStrNum'}, 'CBlob': {'TgBytes'},
                'CDate': {'TgDate', 'TgDatetime', 'TgStrNum', 'TgStrText'}, 'CTime': {'TgTime', 'TgStrNum', 'TgStrText'}, 'CTimedelta': {'TgTimedelta', 'TgStrNum', 'TgStrText'},
                'CDatetime': {'TgDatetime', 'TgStrNum', 'TgStrText'}, 'CUuid': {'TgUuid', 'TgBytes', 'TgInt', 'TgBool', 'TgStrNum', 'TgStrText'}}
TYPE_CORE = {'CBool': {'TgBool'}, 'CStr': {'TgStrNum', 'TgStrText'}, 'CInt': {'TgInt'}, 'CReal': {'TgFloat'}, 'CDecimal': {'TgDecimal'}, 'CBlob': {'TgBytes'}, 'CDate': {'TgDate'},
             'CTime': {'TgTime'}, 'CTimedelta': {'TgTimedelta'}, 'CDatetime': {'TgDatetime'}, 'CUuid': {'TgUuid'}}


def relation_key_bad(r):
    g, v = r['got'], r['validate']
    if v[0] == 'err': return g[0] != 'err'
    if g[0] == 'err': return g[1] in (1, 2) and r['route'] != 'index'       # a valid key may be absent (ObjectNotFound), but must not fail validation
    return g[2] not in ('None', v[2])                                          # found / stored: under the normalised key value


def ref_attr(d, st, v):
    """Property oracle for nullability / required-ness / py_check (documentation reading):
    Required: None and '' (after autostrip) are refused, unless the database supplies the value (volatile / sql_default / auto): then None passes;
    Optional: None is accepted iff the attribute is nullable; py_check is applied to every non-None value after normalisation."""
    if v is None:
        if d['kind'] == 'Required':
            return ('ok', None) if (st['volatile'] or st['sql_default'] or st['auto']) else ('err', 2)
        return ('ok', None) if st['nullable'] else ('err', 2)
    nv = ref_strip(v) if (d['type'] == 'str' and d['autostrip']) else v
    if d['py_check'] and (nv == 13 or nv == 'bad'): return ('err', 2)
    if d['kind'] == 'Required' and nv == '': return ('err', 2)
    return ('ok', nv)


# ------------------------------------------------------------------------------------------------ replay

def replay(ctx, data):
    from pony import orm
    t = data['type']
    if t == 'int':
        d, v = data['decl'], data['value']
        r, conv = impl.int_init(d)
        if r[0] != 'ok': return None
        b = impl.Batch(int, [impl.int_kwargs(d)])
        codes = set(b.run(0, [v])[rt][0] for rt in impl.ROUTES) | {impl.conv_validate(conv, v)}
        want = ref_int_ok(d, v)
        for code in sorted(codes):
            if code not in (0, 2) or (code == 0) != want:
                return Failure(int_key(d, v, code == 0), 'int attribute %s: value %d outcome code %s, bounds %s' % (impl.int_kwargs(d), v, code, 'hold' if want else 'violated'), data)
        return None
    if t in ('float', 'decimal'):
        conv_t = float if t == 'float' else Decimal
        pf = (lambda s: None if s in (None, 'None') else float(s)) if t == 'float' else (lambda s: None if s in (None, 'None') else Decimal(s))
        mn, mx, v = pf(data['min']), pf(data['max']), pf(data['value'])
        kw = {}
        if mn is not None: kw['min'] = mn
        if mx is not None: kw['max'] = mx
        b = impl.Batch(conv_t, [kw], args_list=[(40, 10)] if t == 'decimal' else None)
        codes = set(b.run(0, [v])[rt][0] for rt in ('create', 'assign', 'set')) | {impl.conv_validate(b.converter(0), v)}
        want = ref_num_ok(mn, mx, v)
        for code in sorted(codes):
            if code not in (0, 2) or (code == 0) != want:
                return Failure(num_key(t, mn, mx, v, code == 0), '%s attribute min=%s max=%s: value %s outcome code %s, bounds %s' % (t, mn, mx, v, code, 'hold' if want else 'violated'), data)
        return None
    if t == 'str':
        st, ml, v = data['autostrip'], data['max_len'], data['value']
        kw = {} if st == 'omit' else {'autostrip': st}
        b = impl.Batch(str, [kw], args_list=[() if ml == 'omit' else (ml,)])
        strip = st != False
        nv = ref_strip(v) if strip else v
        mlv = None if ml == 'omit' else ml
        want = mlv is None or len(nv) <= mlv
        try: r = ('ok', b.converter(0).validate(v))
        except Exception as e: r = ('err', impl.exc_code(e))
        codes = set(b.run(0, [v], (lambda x: ref_strip(x)) if strip else (lambda x: x))[rt][0] for rt in impl.ROUTES)
        got = r[0] == 'ok'
        if got != want or (got and r[1] != nv) or codes != {0 if got else r[1]}:
            key = 'str-max_len-0-ignored' if (got and not want and mlv == 0) else 'unlisted:str:replay'
            return Failure(key, 'str attribute autostrip=%s max_len=%s: %r gives %r (routes %s)' % (strip, mlv, v, r, sorted(codes)), data)
        return None
    if t == 'attr':
        d, v = data['decl'], data['value']
        opts = {}
        if d['nullable'] != 'omit': opts['nullable'] = d['nullable']
        if d['volatile']: opts['volatile'] = True
        if d['sql_default']: opts['sql_default'] = "'q'" if d['type'] == 'str' else '7'
        if d['py_check']: opts['py_check'] = lambda x: x != 13 and x != 'bad'
        if d['type'] == 'str' and not d['autostrip']: opts['autostrip'] = False
        Rent, attr = impl.build_attr(d['kind'], str if d['type'] == 'str' else int, opts)
        if Rent is None: return None
        st = {'nullable': attr.nullable, 'volatile': bool(attr.is_volatile), 'sql_default': bool(attr.sql_default), 'auto': bool(attr.auto)}
        r = impl.attr_validate(attr, v)
        want = ref_attr(d, st, v)
        if r != want: return Failure('unlisted:attr:replay', 'validate(%r) gives %r, expected %r' % (v, r, want), data)
        return None
    if t == 'pytype':
        o = impl.type_outcomes()[data['conv']][data['tag']]
        if o[0] == 'accept' and data['tag'] not in TYPE_ALLOWED[data['conv']]:
            return Failure('bool-accepts-any-value' if data['conv'] == 'CBool' else 'unlisted:type:%s:%s:accepted' % (data['conv'], data['tag']),
                           '%s attribute accepts a %s value' % (data['conv'][1:].lower(), data['tag'][2:]), data)
        if o[0] == 'reject' and data['tag'] in TYPE_CORE[data['conv']]:
            return Failure('unlisted:type:%s:%s:rejected' % (data['conv'], data['tag']), '%s attribute refuses a %s value' % (data['conv'][1:].lower(), data['tag'][2:]), data)
        return None
    if t == 'dec-precision':
        return Failure('decimal-precision-not-enforced', 'Optional(Decimal, 5, 2) accepts Decimal("123456.789")', data) if impl.dec_precision_probe() else None
    if t == 'dec-init':
        o = impl.dec_init_real(data['p'], data['s'])
        want = 0 < data['s'] <= data['p']
        return Failure('unlisted:decimal-declaration:replay', 'Decimal(%d, %d): %r' % (data['p'], data['s'], o), data) if (o[0] == 'ok') != want else None
    if t == 'relation-key':
        for r in impl.run_relation_keys():
            if (r['key'], r['hops'], r['route'], r['value']) == (data['key'], data['hops'], data['route'], data['value']) and relation_key_bad(r):
                return Failure('unlisted:relation-key:%s:hops=%d:%s:replay' % (r['key'], r['hops'], r['route']),
                               'raw key value %s through %d hop(s) on %s: outcome %r, key attribute validates it as %r' % (r['value'], r['hops'], r['route'], r['got'], r['validate']), data)
        return None
    if t == 'assign-state':
        out, convs = impl.run_state_assignments()
        for r in out:
            if (r['attr'], r['state'], r['value']) == (data['attr'], data['state'], data['value']) and r['assign'] != r['validate']:
                return Failure('unlisted:assign-state:%s:%s:replay' % (r['attr'], r['state']),
                               'object (%s) holding %s=%s: `obj.%s = %s` gives %r, validation gives %r' % (r['state'], r['attr'], r['held'], r['attr'], r['value'], r['assign'], r['validate']), data)
        return None
    if t == 'route':
        return Failure('unlisted:route:replay', 'route disagreement recorded: %s' % json.dumps(data.get('detail'))[:300], data)
    return None


LEVEL_TEXT = ('Machine-checked proof (Coq 8.16.1) over a model re-translated from /repo on every run: for every int declaration (size, unsigned, min, max) Pony accepts and every integer v, '
              'IntConverter.validate accepts v (unchanged) iff v satisfies the declared bounds (zero included) and the range of the declared size/signedness, else ValueError (C08_int_declaration, C08_int, C08_int_reject); '
              'float for EVERY value incl. NaN (C08_float), Decimal (C08_decimal), str (C08_str: autostrip + max_len incl. 0, with a proved characterisation of strip()); None/empty/required/nullable/py_check of '
              'Attribute.validate / Required.validate over any converter (C08_optional, C08_required, C08_required_int); the declared TYPE of all 11 converters incl. bool (C08_declared_type: a finite table interpreted from each '
              'validate on one representative value per Python type, proved equal to the documented coercions); Decimal(precision, scale) declarations; assignment in any prior state and the create/set/get/filter entry points '
              '(call sites scanned). Seven defects found by this check were repaired in /repo (2abc421, 5df2d83, d8f353a, 2d5f552): the unrestricted theorems compute the defect flags from the regenerated translation, so a '
              'regression breaks them and the search reports the concrete input. Remaining finding (witness in Findings/C08.v): Decimal precision/scale are never compared with the value.')
LEVEL_NOTE = ('Trusted: Coq kernel + vm_compute; the py2coq translator (cross-checked against the real classes on every run: ~10^4 (declaration, value) pairs, each also driven through '
              'Entity(...), assignment, set(), get() on SQLite); the hand-written composition of Attribute/Required.validate (correspondence-checked); the value abstraction '
              '(floats/Decimals as exact rationals, strings as code points). Not modelled: conversion of foreign input types (int("12"), float(Decimal) ...), DEFAULT handling, relationships, '
              'Discriminator, composite keys. The type theorem is about ONE representative per Python type (isinstance dispatch is uniform over a type; the text parsers str2date/int()/... are only sampled).')
TECHNIQUE = 'Coq proof (case analysis + lia) over a model regenerated from source by py2coq; vm_compute correspondence with the real converters; exhaustive boundary-grid differential search through four entry points'
DESIGN_REF = 'DESIGN.md section 5, C08'
