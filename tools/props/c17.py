"""C17 - A session's writes are atomic under crashes and database errors."""
import json, re
import vlib
import c19_common as cc
from vlib import Corr, Search, Failure

ID = 'C17'
LEVEL = 'proof'
PROPS = ['Props/C17.v']
TRUSTED = [
    'SQLite\'s own atomic commit and rollback journal (a crash *inside* COMMIT yields the old or the new content); process crashes are real (os._exit in a forked child), power loss is not simulated',
    'abstract SQLite connection semantics Model/C17Db.v (autocommit write = committed at once; write inside BEGIN..COMMIT pending; COMMIT publishes all; ROLLBACK / close / crash discard), '
    'validated on every run against real database files after injected errors and after real crashes',
    'hand-written model Model/C19Txn.v of the transaction machinery (see C19), tied by driver-call trace correspondence under fault injection on the write programs of this check',
    'PostgreSQL: Model/C17Pg.v is modelled from postgres.py and compared on every run with the real PGProvider.set_transaction_mode / PGPool.release / SessionCache code driven '
    'with a recording, fault-injecting stub psycopg2 connection (database errors that are not lost connections); psycopg2 / server behaviour (implicit BEGIN with autocommit off) is documentation, nothing runs against PostgreSQL',
    'fault / crash harness tools/c19_driver.py',
]
ASSUMPTIONS = [
    'one Database, file-backed SQLite; the write programs use INSERT (ORM and raw) and raw UPDATE; every ORM change is one statement',
    'a database error is an exception raised by a DB-API call instead of performing it; the body does not catch it in the C17 programs (caught errors are covered by the C19 correspondence)',
    'MySQL / Oracle transaction start is not modelled',
]
RULE = ('write programs (templates + seeded random) x session shape {optimistic, immediate, serializable}; for each: the fault-free run, an injected error at every DB-API call index '
        '(exhaustive), and a real crash before every DB-API call index and after the last one (exhaustive). non-trivial = the error or crash hits after the first write was issued; '
        'distinct = distinct (program, shape, kind, index)')

SHAPES = ['opt', 'imm', 'ser']
TEMPLATES = [
    ('orm-raw', [['new', False, 11], ['new', False, 12], ['rawwrite', False, 13]]),
    ('commit-middle', [['rawwrite', False, 21], ['commit', False, 0], ['new', False, 22], ['rawwrite', False, 23]]),
    ('flush-select-update-raise', [['new', False, 31], ['flush', False, 0], ['select', False, 0], ['rawupdate', False, 2], ['raise', False, 0]]),
    ('commit-rollback', [['new', False, 41], ['commit', False, 0], ['rawwrite', False, 42], ['rollback', False, 0], ['rawwrite', False, 43]]),
    ('dbcommit', [['rawupdate', False, 1], ['new', False, 51], ['dbcommit', False, 0], ['new', False, 52]]),
    ('read-then-write', [['select', False, 0], ['select', False, 0], ['new', False, 61], ['select', False, 0], ['rawwrite', False, 62]]),
    # raw SQL only, in an optimistic session, with commit() / rollback() called repeatedly in the middle
    ('raw-optimistic-repeated', [['rawwrite', False, 91], ['rawupdate', False, 3], ['commit', False, 0], ['commit', False, 0], ['rawwrite', False, 92], ['rollback', False, 0],
                                 ['rollback', False, 0], ['rawupdate', False, 4], ['dbcommit', False, 0], ['rawwrite', False, 93], ['dbrollback', False, 0], ['rawwrite', False, 94]]),
    # flushes that contain ONLY many-to-many link changes (executemany on the link table through _exec_sql without start_transaction)
    ('m2m-only-flush-raise', [['load', False, 2], ['loadu', False, 2], ['link', False, [2, 2]], ['flush', False, 0], ['select', False, 0], ['raise', False, 0]]),
    ('m2m-only-unlink-link', [['load', False, 1], ['loadu', False, 1], ['unlink', False, [1, 1]], ['loadu', False, 3], ['link', False, [1, 3]], ['flush', False, 0], ['rollback', False, 0],
                              ['load', False, 4], ['loadu', False, 2], ['link', False, [4, 2]]]),
    ('m2m-implicit-flush', [['load', False, 3], ['loadu', False, 1], ['link', False, [3, 1]], ['select', False, 0], ['rawwrite', False, 71], ['raise', False, 0]]),
    ('m2m-mixed-commit', [['load', False, 5], ['loadu', False, 2], ['link', False, [5, 2]], ['new', False, 81], ['commit', False, 0], ['load', False, 6], ['loadu', False, 3],
                          ['link', False, [6, 3]], ['rawwrite', False, 82]]),
]


def random_program(rng, tag):
    ops, v, upd = [], tag * 100, [1, 2, 3, 4, 5, 6]
    rng.shuffle(upd)
    pairs = [(t, u) for t in (2, 3, 4, 5, 6) for u in (1, 2, 3)]
    rng.shuffle(pairs)
    tl, ul = set(), set()
    for _ in range(rng.randrange(2, 7)):
        r = rng.random()
        if r < 0.25 and pairs:
            t, u = pairs.pop()
            if t in tl: continue                      # one link per T object and cache (the collection's own SELECT happens once)
            if t not in tl: ops.append(['load', False, t]); tl.add(t)
            if u not in ul: ops.append(['loadu', False, u]); ul.add(u)
            ops.append(['link', False, [t, u]])
            continue
        if r < 0.3: v += 1; ops.append(['new', False, v])
        elif r < 0.55: v += 1; ops.append(['rawwrite', False, v])
        elif r < 0.65 and upd: ops.append(['rawupdate', False, upd.pop()])
        elif r < 0.75: ops.append(['select', False, 0])
        elif r < 0.82: ops.append(['flush', False, 0])
        elif r < 0.92: ops.append(['commit' if rng.random() < 0.7 else 'dbcommit', False, 0])
        elif r < 0.97: ops.append(['rollback', False, 0]); tl.clear(); ul.clear()
        else:
            ops.append(['raise', False, 0]); break
    return ops


def programs(ctx, deep):
    progs = list(TEMPLATES)
    for k in range(ctx.scale(3, 20) if not deep else 25):
        progs.append(('random%d' % k, random_program(ctx.rng, k + 1)))
    return progs


# ---- specification-level oracle (independent of the model): commit units of a program ----

def commit_units(ops, fails_at_end):
    """the writes of the program grouped into the units that must appear together; returns the list of units that get committed
    if nothing goes wrong (in order)."""
    units, cur = [], []
    for op, _c, arg in ops:
        if op == 'new' or op == 'rawwrite': cur.append(('ins', arg))
        elif op == 'rawupdate': cur.append(('upd', arg))
        elif op == 'link': cur.append(('link', arg[0], arg[1]))
        elif op == 'unlink': cur.append(('unlink', arg[0], arg[1]))
        elif op in ('commit', 'dbcommit'): units.append(cur); cur = []
        elif op in ('rollback', 'dbrollback'): cur = []
        elif op == 'raise': return units
    if not fails_at_end: units.append(cur)
    return units


def applied_writes(rows_before, rows_after, links_before=None, links_after=None):
    """set of write descriptors visible in the file"""
    before = {r[0]: r[1] for r in rows_before}
    out, unknown = set(), []
    lb = set(map(tuple, links_before or [])); la = set(map(tuple, links_after or []))
    for t, u in la - lb: out.add(('link', t, u))
    for t, u in lb - la: out.add(('unlink', t, u))
    for rid, v in rows_after:
        if rid not in before: out.add(('ins', v))
        elif before[rid] != v:
            if v == before[rid] + 1000: out.add(('upd', rid))
            else: unknown.append([rid, v])
    for rid in before:
        if rid not in {r[0] for r in rows_after}: unknown.append([rid, None])
    return out, unknown


def allowed_states(ops):
    units = commit_units(ops, False)
    states, acc = [frozenset()], set()
    for u in units:
        acc = acc | set(u)
        states.append(frozenset(acc))
    return states


def descriptor(sqlinfo):
    sql, args = sqlinfo
    m = re.match(r'(?i)insert into "?T"? \("?v"?\) values \((\?|\d+)\)', sql)
    if m: return ('ins', args[0] if m.group(1) == '?' else int(m.group(1)))
    m = re.match(r'(?i)update T set v = v \+ 1000 where id = (\d+)', sql)
    if m: return ('upd', int(m.group(1)))
    if sql.upper().startswith('INSERT INTO "T_U"') and args and len(args) == 1: return ('link', args[0][0], args[0][1])
    if sql.upper().startswith('DELETE FROM "T_U"') and args and len(args) == 1: return ('unlink', args[0][0], args[0][1])
    return None


ROWS0 = [[i, 0] for i in range(1, 7)]
LINKS0 = [[1, 1]]
_cache = {}


def runs(ctx, deep=False):
    key = (id(ctx), bool(deep))
    if key in _cache: return _cache[key]
    progs = programs(ctx, deep)
    full = deep or ctx.thorough
    base = [{'shape': sh, 'start': 'none', 'ops': ops, 'faults': [], 'name': name} for pi, (name, ops) in enumerate(progs) for sh in SHAPES
            if full or pi < len(TEMPLATES) or SHAPES[pi % 3] == sh]      # quick tier: seeded random programs in one (rotating) shape
    outs0 = cc.run_driver({'mode': 'sessions', 'cases': base})
    fcases, ccases = [], []
    for c, o in zip(base, outs0):
        if 'harness_error' in o: continue
        n = o['sessions'][-1]['calls']
        for k in range(n):
            fcases.append(dict(c, faults=[k]))
        # real crashes: every call index; in the quick tier every shape for the first templates, one shape (rotating) for the other programs
        pi = [p[0] for p in progs].index(c['name'])
        is_tpl = pi < len(TEMPLATES)
        if (full and (is_tpl or SHAPES[pi % 3] == c['shape'])) or pi == 0 or (pi in (1, 3, 6, 7, 9) and SHAPES[pi % 3] == c['shape']) or (pi == 7 and c['shape'] == 'opt'):
            for k in range(n + 1):
                # a crash before a cursor() call leaves the same file as a crash before the statement that follows it: those indexes are
                # run for the templates in the thorough tier only
                if not (full and is_tpl) and k < n and o['trace'][k][0] == 'cursor': continue
                ccases.append({'shape': c['shape'], 'ops': c['ops'], 'crash_at': k, 'name': c['name'], 'ncalls': n})
    outs1 = cc.run_driver({'mode': 'sessions', 'cases': fcases})
    couts = cc.run_driver({'mode': 'crash_batch', 'cases': ccases})
    pgc = cc.pg_random_cases(ctx.rng, ctx.scale(150, 1500))
    pgo = cc.run_driver({'mode': 'pg', 'cases': pgc})
    r = {'base': base, 'outs0': outs0, 'fcases': fcases, 'outs1': outs1, 'ccases': ccases, 'couts': couts, 'pgc': pgc, 'pgo': pgo}
    _cache[key] = r
    return r


def positions_of(applied, writes):
    """positions (call indexes) of the write events whose effect is visible; None if some visible effect has no write event"""
    pos = []
    byd = {}
    for i, info in writes:
        d = descriptor(info)
        if d is not None: byd.setdefault(d, []).append(i)
    for d in applied:
        if d not in byd: return None
        pos.append(byd[d][-1])
    return sorted(pos)


C17_HEADER = cc.HEADER + 'Require Import PonyV.Model.C17Db.\n'


def correspondence(ctx):
    r = runs(ctx, ctx.thorough)
    exprs, meta, disagreements = [], [], []
    nontrivial = set()
    dist = {'trace_cases': 0, 'db_after_error': 0, 'db_after_crash': 0, 'crash_children_exit9': 0, 'crash_children_exit0': 0, 'postgres_stub_cases': 0, 'by_shape': {}}
    base_writes = {}
    # (i) + (ii): model trace = real trace, and the abstract database semantics applied to the real trace = the real file content
    for c, o in list(zip(r['base'], r['outs0'])) + list(zip(r['fcases'], r['outs1'])):
        if o.get('skipped'): continue
        if 'harness_error' in o:
            disagreements.append({'what': 'implementation driver failed', 'input': c, 'impl': o['harness_error'][-600:]}); continue
        try:
            exprs.append(cc.coq_case(c, o)); meta.append(('trace', c, o)); dist['trace_cases'] += 1
        except cc.Unmodelled as e:
            disagreements.append({'what': 'observation outside the modelled vocabulary: %s' % e, 'input': c}); continue
        if not c['faults']: base_writes[(c['name'], c['shape'])] = (o['writes'], [e[:6] for e in o['trace']])
        applied, unknown = applied_writes(o['rows_before'], o['rows_after'], o['links_before'], o['links_after'])
        pos = positions_of(applied, o['writes'])
        if unknown or pos is None:
            disagreements.append({'what': 'database content after the session is not explained by the write statements of the trace', 'input': c,
                                  'impl': {'rows_after': o['rows_after'], 'writes': o['writes']}}); continue
        tr = '[' + '; '.join(cc.coq_event(e) for e in o['trace']) + ']'
        exprs.append('list_eqb Nat.eqb (crash_db (rev %s)) [%s]' % (tr, '; '.join(str(p) for p in pos)))
        meta.append(('db_after_error', c, {'rows_after': o['rows_after'], 'positions': pos})); dist['db_after_error'] += 1
        dist['by_shape'][c['shape']] = dist['by_shape'].get(c['shape'], 0) + 1
        if c['faults'] and any(i < c['faults'][0] for i, _ in o['writes']): nontrivial.add(json.dumps([c['name'], c['shape'], 'error', c['faults']]))
    # (iii) real crashes: the file content = crash_db of the first k calls of the model's fault-free trace
    for c, o in zip(r['ccases'], r['couts']):
        if 'harness_error' in o:
            disagreements.append({'what': 'crash run failed', 'input': c, 'impl': o['harness_error'][-400:]}); continue
        k, n = c['crash_at'], c['ncalls']
        want_status = 9 if k < n else 0
        if o['status'] != want_status:
            disagreements.append({'what': 'crash child exited with status %s, expected %s' % (o['status'], want_status), 'input': c}); continue
        dist['crash_children_exit9' if want_status == 9 else 'crash_children_exit0'] += 1
        bw = base_writes.get((c['name'], c['shape']))
        if bw is None: continue
        applied, unknown = applied_writes(ROWS0, o['rows'], LINKS0, o['links'])
        pos = positions_of(applied, bw[0])
        if unknown or pos is None:
            disagreements.append({'what': 'database content after the crash is not explained by the write statements of the program', 'input': c, 'impl': o['rows']}); continue
        case = {'shape': c['shape'], 'start': 'none', 'ops': c['ops'], 'faults': []}
        exprs.append('(let tr := trace (snd (run_sessions (faults_oracle []) %s st_disconnected)) in list_eqb Nat.eqb (crash_db (skipn (length tr - %d) tr)) [%s])'
                     % (cc.coq_sessions(case), k, '; '.join(str(p) for p in pos)))
        meta.append(('db_after_crash', c, {'rows': o['rows'], 'positions': pos})); dist['db_after_crash'] += 1
        if any(i < k for i, _ in bw[0]): nontrivial.add(json.dumps([c['name'], c['shape'], 'crash', k]))
    bad = cc.run_bools(ctx, exprs, chunk=300, name='c17', header=C17_HEADER)
    for i in bad[:10]:
        kind, c, o = meta[i]
        disagreements.append({'what': 'model and implementation differ (%s)' % kind, 'input': c, 'impl': o if kind != 'trace' else cc.coq_observation(o)[:1200], 'coq_case': exprs[i][:800]})
    # PostgreSQL autocommit switching: real PGProvider / PGPool on a recording stub connection
    pex = []
    for c, o in zip(r['pgc'], r['pgo']):
        try: pex.append(cc.coq_pg_case(c, o)); dist['postgres_stub_cases'] += 1
        except cc.Unmodelled as e:
            disagreements.append({'what': 'postgres stub observation outside the modelled vocabulary: %s' % e, 'input': c})
    pbad = cc.run_bools(ctx, pex, chunk=150, name='pg', header=cc.PG_HEADER)
    for i in pbad[:5]:
        disagreements.append({'what': 'PostgreSQL autocommit model and the real PGProvider code differ (or a write ran with autocommit on)', 'input': r['pgc'][i], 'impl': r['pgo'][i]['events']})
    samples = []
    for kind, c, o in meta:
        if kind == 'db_after_crash' and o['positions']:
            samples.append({'crash_case': {k: c[k] for k in ('shape', 'ops', 'crash_at')}, 'rows_after_crash': o['rows'], 'committed_write_calls': o['positions']}); break
    for kind, c, o in meta:
        if kind == 'db_after_error' and c['faults'] and o['positions']:
            samples.append({'error_case': {k: c[k] for k in ('shape', 'ops', 'faults')}, 'rows_after': o['rows_after'], 'committed_write_calls': o['positions']}); break
    if r['pgc']: samples.append({'postgres_sessions': r['pgc'][0]['sessions'], 'stub_driver_calls': r['pgo'][0]['events'][:12]})
    return Corr(cases=len(exprs) + len(pex), nontrivial=len(nontrivial), disagreements=disagreements, samples=samples, distribution=dist,
                note='booleans computed by vm_compute inside coqc: trace/end-state equality (as C19), crash_db of the real trace = the real file content after an injected error, '
                     'crash_db of the first k calls of the model trace = the real file content after a crash before call k, PostgreSQL stub call sequence = pg_run')


def oracle_failures(r):
    """all-or-nothing at the specification level: the visible writes are exactly the union of a prefix of the program's commit units"""
    fl, seen = [], set()
    evals, nontriv = 0, set()
    kinds = {}
    for c, o in zip(r['base'], r['outs0']):
        if 'harness_error' not in o: kinds[(c['name'], c['shape'])] = [e[0] + (':' + e[1] if e[1] else '') for e in o['trace']]
    def judge(kind, c, rows_before, rows_after, idx, payload, lb=None, la=None):
        applied, unknown = applied_writes(rows_before, rows_after, lb, la)
        ok = not unknown and frozenset(applied) in allowed_states(c['ops'])
        if ok: return
        names = kinds.get((c['name'], c['shape']), [])
        where = names[idx] if idx is not None and idx < len(names) else 'end'
        key = 'partial-or-lost-transaction:%s:%s-at-%s' % (c['shape'], kind, where)
        if key in seen: return
        seen.add(key)
        fl.append(Failure(key, '%s session %r, %s at DB-API call %s (%s): the file shows the writes %s, which is not a union of whole commit units %s'
                          % (c['shape'], c['ops'], kind, idx, where, sorted(applied), [sorted(s) for s in allowed_states(c['ops'])]), payload))
    for c, o in list(zip(r['base'], r['outs0'])) + list(zip(r['fcases'], r['outs1'])):
        if 'harness_error' in o or o.get('skipped'): continue
        evals += 1
        idx = c['faults'][0] if c['faults'] else None
        judge('error', c, o['rows_before'], o['rows_after'], idx, {'kind': 'error', 'case': {k: c[k] for k in ('shape', 'start', 'ops', 'faults', 'name')}}, o['links_before'], o['links_after'])
        if c['faults']: nontriv.add(json.dumps([c['name'], c['shape'], 'error', c['faults']]))
    for c, o in zip(r['ccases'], r['couts']):
        if 'harness_error' in o:
            key = 'crash-run-failed'
            if key not in seen:
                seen.add(key); fl.append(Failure(key, 'crash run failed: %s' % o['harness_error'][-300:], {'kind': 'crash', 'case': c}))
            continue
        evals += 1
        judge('crash', c, ROWS0, o['rows'], c['crash_at'], {'kind': 'crash', 'case': c}, LINKS0, o['links'])
        nontriv.add(json.dumps([c['name'], c['shape'], 'crash', c['crash_at']]))
    return fl, evals, len(nontriv)


def search(ctx, deep):
    r = runs(ctx, deep or ctx.thorough)
    fl, evals, nontriv = oracle_failures(r)
    return Search(evaluations=evals, failures=fl, nontrivial=nontriv, exhaustive=True,
                  distribution={'error_runs': len(r['outs0']) + len(r['outs1']), 'crash_runs': len(r['couts'])},
                  samples=[{'oracle': 'visible writes after the error / crash = union of a prefix of the commit units of the program (specification level, independent of the model)'}])


def replay(ctx, data):
    c = data['case']
    if data.get('kind') == 'crash':
        o = cc.run_driver({'mode': 'crash_batch', 'cases': [c]})[0]
        r = {'base': [], 'outs0': [], 'fcases': [], 'outs1': [], 'ccases': [c], 'couts': [o]}
    else:
        o = cc.run_driver({'mode': 'sessions', 'cases': [c]})[0]
        r = {'base': [], 'outs0': [], 'fcases': [c], 'outs1': [o], 'ccases': [], 'couts': []}
    fl, _, _ = oracle_failures(r)
    return fl[0] if fl else None


LEVEL_TEXT = ('Machine-checked proof (Coq 8.16.1) over the model of the SQLite transaction machinery: for every sequence of sessions (optimistic, immediate, serializable, ddl; ORM writes, '
              'raw db.execute writes, explicit commits/rollbacks) and every fault oracle, every write statement is issued inside an open BEGIN IMMEDIATE..COMMIT/ROLLBACK bracket of its '
              'connection and every COMMIT comes after all pending changes were flushed (C17_bracket); over the abstract SQLite semantics the committed content changes only at a successful '
              'COMMIT and then by the whole transaction (C17_commit_only, C17_commit_all), hence after a crash or error at any call the file holds the content of a commit point '
              '(C17_all_or_nothing). PostgreSQL: under any database errors every successful write and every COMMIT runs with autocommit off and autocommit is never switched inside a transaction (C17_postgres_autocommit).')
LEVEL_NOTE = ('Partial: SQLite\'s atomic commit itself is trusted; the abstract database semantics and the transaction model are tied to /repo by correspondence (traces, file contents after '
              'every injected error and after every real process crash point), not derived from source; the PostgreSQL model is compared with the real provider code on a stub driver only.')
TECHNIQUE = ('Coq proof over the C19 state-machine model (trace invariant) plus a semantic lemma over an abstract database; vm_compute correspondence of traces and of file contents; '
             'exhaustive error injection and exhaustive real crashes (forked child, os._exit at call k) with a specification-level all-or-nothing oracle')
DESIGN_REF = 'DESIGN.md section 5, C17'
