"""C01 - Declarative queries return what Python evaluation of the same expression returns."""
import json
import vlib, c01_lib as L, c01_harness as H, c01_join as J, c01_coll as C, c01_aggr as A, c01_order as O
from vlib import Corr, Search, Failure

ID = 'C01'
LEVEL = 'proof'
PROPS = ['Props/C01.v', 'Findings/C01.v']
GEN = []
TRUSTED = [
    'hand-written model Model/C01Translate.v of the monad translation (sqltranslation.py: coerce_monads, make_numeric_binop, NumericMixin / StringMixin '
    'negate / nonzero, CmpMonad, LogicalBinOpMonad, NotMonad, BoolExprMonad.negate, ListMonad.contains, postIfExp, coalesce, minmax, the `ifs` loop of '
    'SQLTranslator.init); tied on every run by node-for-node comparison (vm_compute) with translator.conditions / expr_columns of the real translator on the '
    'sqlite, postgres, mysql and oracle providers (pool mock-up) for enumerated (depth <= 2, sampled depth 3) and random (depth <= 5) expressions',
    'SQL semantics Model/C01Sql.v: the SQLite reading is validated on every run against the linked SQLite executing the SQL text the real builder produced '
    '(so operator precedence / parenthesisation of the builder is inside this tie); the PostgreSQL and MySQL readings are documentation models (no server here)',
    'reference semantics Model/C01Expr.v [reval false]: validated against tools/c01_lib.ref (real Python operators plus the None rules of the statement) and, on '
    'None-free rows, against CPython eval of the query source',
    'the wf side condition of the tie (every operator node mentions the loop variable; a sub-expression without it is evaluated by Python and arrives as ONE '
    'parameter: that evaluation is property C04) is enforced by the generators, not by the theorem',
    'hand-written models Model/C01Join.v (FROM / LEFT JOIN section, relational join semantics, object-graph reading of paths) and Model/C01Coll.v (subquery shapes of '
    'QuerySetMonad / AttrSetMonad contains, nonzero, negate, count; EXISTS / IN / NOT IN / COUNT(DISTINCT) semantics; object-graph reading of the atoms): tied on every run '
    'structurally on four providers (FROM section, subquery join condition, inner conditions, IS NOT NULL checks, columns) and semantically by comparing whole result lists '
    'of real SQLite on a fixed object graph with sql_join_rows / sql_coll_rows of the model',
    'hand-written model Model/C01Aggr.v (the aggregate column Monad.count / Monad.aggregate emit, SQL aggregate semantics incl. the builder\'s coalesce(SUM(x), 0), the '
    'result converter, Pony\'s documented aggregate semantics): aggregate column and conditions tied node for node on four providers, the value real SQLite returns for the '
    'statement vs sql_aggr over the same table on every run',
    'hand-written models Model/C01Len.v (LEFT JOIN + GROUP BY + HAVING statement of len(g.members), the WHERE / HAVING partition), Model/C01Form.v (subquery conditions and scalar '
    'subqueries as columns 40.. of g\'s row; the harness reads NOT EXISTS s as NOT (EXISTS s) and x NOT IN s as NOT (x IN s), identities of SQL\'s three-valued logic, and replaces '
    'subquery nodes by pseudo columns in pre-order), Model/C01Group.v (select list, GROUP BY list, partition by key values) and Model/C01Order.v (ORDER BY list, comparison of stored values, '
    'NULL placement per dialect): each tied on every run structurally on four providers and semantically against the rows real SQLite returns (multisets for GROUP BY, ordered lists '
    'for ORDER BY); the NULL placement of PostgreSQL / MySQL is from their documentation',
]
ASSUMPTIONS = [
    'None rules: None operand of arithmetic / string op / len / abs / min / max -> None; comparison (incl. in / not in) with a None operand -> unknown; '
    '`== None` / `is None` written in the query (or a parameter whose value is None) are two-valued; and/or/not are Kleene; a value used as a truth value is '
    'tested like Python (None, 0, \'\', False are false; `not None` is True); a filter keeps a row iff the condition is TRUE',
    'integers are unbounded (no 64-bit overflow), strings are code point lists compared by code point (binary collation), no floats',
    'division or modulo by zero is outside the statement (Python raises)',
    'attribute paths through to-one relationships (p.group.number, p.group.dept.name; schema P -> G -> D with Optional references): primary keys unique; the '
    'reference follows references over the object graph with None propagation (strict Python raises AttributeError on None.attr unless short-circuited); the primary key '
    'column of a joined table and the foreign key column it is joined on are identified by the harness (the translator uses either, pk-only joins)',
    'conditions over a to-many collection (g.members = Set(P), queries over G; Model/C01Coll.v): the atoms exists(m for m in g.members if c) / g.members / their negations, '
    'v [not] in (m.a for m in g.members if c), v [not] in g.members.a, not (v in (...)), scalar conditions mentioning count(m for m in g.members if c), joined by `and`; '
    'reference: the members are the P objects whose group is g; a None element of the collection never matches, a None left operand makes the comparisons unknown; primary '
    'keys of P are distinct integers; one count-subquery per condition; len(g.members) / count(g.members) in conditions have their own model (Model/C01Len.v: LEFT JOIN + GROUP BY g.id + '
    'HAVING; primary keys of G distinct integers; WHERE conditions over g\'s own columns); subquery conditions and the scalar subqueries count / sum / min / max(<item> for m in g.members if c) '
    'combine freely with and / or / not and may be selected (Model/C01Form.v; the SQL of an item must mention a column of m outside IS NULL tests - otherwise SQL scopes the aggregate to the outer query, a recorded defect; avg and the attribute-lifting forms sum(g.members.a) are not modelled)',
    'aggregates as whole-query results without GROUP BY (Model/C01Aggr.v): select(count() | count(p) | count(e) | sum(e) | sum(distinct(e)) | min(e) | max(e) | avg(e) | '
    'avg(distinct(e)) for p in P [if c]); reference = Pony\'s documented aggregates over the comprehension: None values skipped, sum of nothing 0, min / max / avg of nothing None, '
    'count(e) = number of different non-None values (strict Python would raise on None operands and has no count); the average is the exact quotient (float rounding outside); '
    'e of type int / str (count, min, max) or int / bool (sum, avg); count(<bool>) (counts the rows where it is true), min / max of booleans (search only), HAVING, q.sum() etc. (C24) are outside; '
    'several aggregates in one query and GROUP BY by the non-aggregate items have their own model (Model/C01Group.v; SQL leaves the order of the groups open: compared as multisets)',
    'ordering (Model/C01Order.v): order_by(k1, desc(k2), ...) with scalar expression keys over one entity; strings compare by code point (binary collation), false < true; '
    'Python cannot order None against a value: the reference is parameterised by where the None keys go and the theorem says they go where the dialect sorts NULL (first on '
    'SQLite / MySQL, last on PostgreSQL; DESC reverses); rows with equal keys keep the table order in the model, SQL leaves it open (the tie ends every key list with the '
    'primary key); order_by by position, by attribute objects or lambdas over the result, limit / page with ordering (C24) are outside',
    'and / or results are read as truth values (Python returns an operand; Pony a boolean): a selected `a and b` over non-boolean operands is outside the fragment',
    'startswith / endswith / `in` / `not in` on strings have their own model, theorem (C01_like: any string needle - literal, parameter, attribute, expression - '
    'and haystack, non-NULL) and ties (Model/C01Like.v); outside the theorems, covered by the differential search only: upper / lower, between, comparison of '
    'conditions, NULL operands of the LIKE family; slices: C25; not covered at all here: several `for` clauses, HAVING conditions written by the user, aggregates inside larger selected expressions, dates, Decimal, float, JSON, '
    'arrays, hybrid methods, lambdas / generators (decompiler: C03), row decoding of entities',
]
RULE = ('structural: all 1330 depth<=2 expressions over a 14-leaf alphabet (sampled in the quick tier) + sampled depth-3 combinations + seeded random typed '
        'expressions of depth 2..5 + hand-made shapes, each on 4 providers, as filter and/or projection; semantic: the same expressions on real SQLite over a fixed '
        'table (None / negative / zero / positive, empty / non-empty); non-trivial = an expression with at least one operator whose translation was compared; '
        'distinct = distinct (provider, mode, query text); join and collection queries: hand-made shapes + seeded random queries (1-2 atoms, inner conditions of depth <= 3) '
        'on 4 providers and on real SQLite over fixed object graphs (groups with 0..4 members, None among member values and among g\'s own); len / formula / aggregate / GROUP BY / ORDER BY queries: hand-made shapes + 20-30 seeded random '
        'queries each in the quick tier (300-400 in the thorough tier) on 4 providers and on real SQLite over the fixed table; search also: six query texts with external string '
        'slice / index bounds each executed six times on one Database with different values (warm translator cache) against Python\'s evaluation')

QUICK = dict(order_queries=25, order_search=150, group_queries=25, group_search=150, form_queries=25, form_search=150, len_queries=20, len_search=120, aggr_queries=30, aggr_search=200, coll_queries=30, coll_search=150, join_queries=40, join_search=150, like_random=60, n_random=240, n_enum=300, n_depth3=60, sem_random=90, sem_enum=110, sem_depth3=30, rows=6, search_random=260, search_ext=160)
THOROUGH = dict(order_queries=300, order_search=3000, group_queries=300, group_search=3000, form_queries=300, form_search=3000, len_queries=300, len_search=3000, aggr_queries=400, aggr_search=4000, coll_queries=400, coll_search=3000, join_queries=500, join_search=3000, like_random=600, n_random=2500, n_enum=1330, n_depth3=500, sem_random=600, sem_enum=700, sem_depth3=200, rows=14, search_random=4000, search_ext=3000)


def sizes(ctx, deep=False):
    return THOROUGH if (ctx.thorough or deep) else QUICK


def table_rows(ctx, n):
    rows = L.standard_rows()
    step = max(1, len(rows) // n)
    picked = rows[::step][:n]
    # make sure the interesting corners are always there
    corners = [
        {'a': -7, 'b': 2, 'r': 2, 's': 'ab', 'u': 'a', 'f': True, 'g': False},
        {'a': None, 'b': 2, 'r': -3, 's': None, 'u': 'ab', 'f': None, 'g': True},
        {'a': 7, 'b': -2, 'r': 7, 's': '', 'u': 'b', 'f': False, 'g': True},
        {'a': 0, 'b': None, 'r': 0, 's': 'a', 'u': 'abc', 'f': None, 'g': False},
    ]
    return corners + picked


def correspondence(ctx):
    z = sizes(ctx)
    disagreements, samples = [], []
    dist = {}
    # (1) structural
    inputs = H.generated_exprs(ctx, z['n_random'], z['n_enum'], z['n_depth3'])
    inputs += [(e, p, 'handmade') for e, p in H.HANDMADE + H.HANDMADE_UNTYPED]
    s_exprs, s_meta, s_dis, s_nontriv, s_dist = H.structural_cases(ctx, inputs)
    disagreements += s_dis
    dist['structural'] = s_dist
    # (2) semantic: SQLite
    sem_inputs = H.generated_exprs(ctx, z['sem_random'], z['sem_enum'], z['sem_depth3'])
    rows = table_rows(ctx, z['rows'])
    real = H.RealDb(rows)
    m_exprs, m_meta, m_dis, m_nontriv, m_dist = H.semantic_cases(ctx, real, sem_inputs)
    disagreements += m_dis
    dist['semantic_sqlite'] = m_dist
    # (3) reference semantics
    ref_inputs = sem_inputs[::3]
    r_exprs, r_meta, r_dis, r_dist = H.reference_cases(ctx, real, sorted(real.rows)[:6], ref_inputs)
    disagreements += r_dis
    dist['reference'] = r_dist
    dist['sqlite_version'] = __import__('sqlite3').sqlite_version
    # the Coq evaluations of the sections run in the background while the next section's cases are generated
    from concurrent.futures import ThreadPoolExecutor
    pool = ThreadPoolExecutor(max_workers=4)
    exprs = s_exprs + m_exprs + r_exprs
    meta = s_meta + m_meta + r_meta
    main_fut = pool.submit(H.run_bools, ctx, exprs, prelude=real.prelude(), jobs=6)

    # (4) the LIKE family: structural tie of StringMixin._like, matcher vs real SQLite, py_like vs Python
    like_real = H.RealDb(L.like_rows())
    k_exprs, k_meta, k_dis, k_nontriv, k_dist = H.like_cases(ctx, H.like_inputs(ctx, z.get('like_random', 60)), like_real)
    disagreements += k_dis
    dist['like'] = k_dist
    k_fut = pool.submit(H.run_bools, ctx, k_exprs, name='like', prelude=like_real.prelude(), jobs=3)
    def like_report(k_bad):
        for i in k_bad[:10]:
            m = k_meta[i]
            disagreements.append({'what': 'model and implementation differ (%s): %s' % (m['mode'], m.get('query')), 'input': {k: v for k, v in m.items() if k not in ('impl',)},
                                  'impl': m.get('impl', m.get('impl_kept')), 'coq_case': k_exprs[i][:1500]})

    # (5) attribute paths through to-one relationships: FROM / conditions / columns on four providers, result lists on real SQLite
    graph = J.standard_graph()
    jreal = J.RealGraph(graph)
    j_exprs, j_meta, j_dis, j_nontriv, j_dist = J.join_cases(ctx, J.gen_queries(ctx, z.get('join_queries', 40)), jreal)
    disagreements += j_dis
    dist['join'] = j_dist
    j_fut = pool.submit(H.run_bools, ctx, j_exprs, name='join', header=J.JOIN_HEADER, prelude='Definition DB := %s.\n' % J.coq_db(graph), jobs=3)
    def join_report(j_bad):
        for i in j_bad[:10]:
            m = j_meta[i]
            disagreements.append({'what': 'model and implementation differ (%s): %s' % (m['mode'], m['query']), 'input': {k: v for k, v in m.items() if k != 'impl'},
                                  'impl': m['impl'], 'coq_case': j_exprs[i][:1500]})

    # (6) conditions over a to-many collection: subquery shapes on four providers, result lists on real SQLite
    cgraph = C.coll_graph()
    creal = J.RealGraph(cgraph)
    c_exprs, c_meta, c_dis, c_nontriv, c_dist = C.coll_cases(ctx, C.gen_queries(ctx, z.get('coll_queries', 30)), creal)
    disagreements += c_dis
    dist['collection'] = c_dist
    c_bad = H.run_bools(ctx, c_exprs, name='coll', header=C.COLL_HEADER, prelude='Definition DB := %s.\n' % C.coq_db(cgraph), jobs=2)
    for i in c_bad[:10]:
        m = c_meta[i]
        disagreements.append({'what': 'model and implementation differ (%s): %s' % (m['mode'], m['query']), 'input': {k: v for k, v in m.items() if k != 'impl'},
                              'impl': m['impl'], 'coq_case': c_exprs[i][:1500]})

    # (6b) len(g.members) / count(g.members): LEFT JOIN / WHERE / HAVING partition on four providers (incl. the statements with the aggregate in
    #      WHERE, which the model predicts to be rejected), result lists on real SQLite
    l_exprs, l_meta, l_dis, l_nontriv, l_dist = C.len_cases(ctx, C.gen_len_queries(ctx, z.get('len_queries', 20)), creal)
    disagreements += l_dis
    dist['collection_len'] = l_dist
    l_bad = H.run_bools(ctx, l_exprs, name='len', header=C.LEN_HEADER, prelude='Definition DB := %s.\n' % C.coq_db(cgraph), jobs=2)
    for i in l_bad[:10]:
        m = l_meta[i]
        disagreements.append({'what': 'model and implementation differ (%s): %s' % (m['mode'], m['query']), 'input': {k: v for k, v in m.items() if k != 'impl'},
                              'impl': m.get('impl'), 'coq_case': l_exprs[i][:1500]})

    # (6c) subquery conditions under and / or / not: subquery list + conditions (subqueries as pseudo columns) on four providers, result lists on SQLite
    f_exprs, f_meta, f_dis, f_nontriv, f_dist = C.form_cases(ctx, C.gen_form_queries(ctx, z.get('form_queries', 25)), creal)
    disagreements += f_dis
    dist['collection_formula'] = f_dist
    f_bad = H.run_bools(ctx, f_exprs, name='form', header=C.FORM_HEADER, prelude='Definition DB := %s.\n' % C.coq_db(cgraph), jobs=2)
    for i in f_bad[:10]:
        m = f_meta[i]
        disagreements.append({'what': 'model and implementation differ (%s): %s' % (m['mode'], m['query']), 'input': {k: v for k, v in m.items() if k != 'impl'},
                              'impl': m.get('impl'), 'coq_case': f_exprs[i][:1500]})

    # (7) aggregates as whole-query results: aggregate column + conditions on four providers, the value on real SQLite
    a_exprs, a_meta, a_dis, a_nontriv, a_dist = A.aggr_cases(ctx, A.gen_queries(ctx, z.get('aggr_queries', 30)), real)
    disagreements += a_dis
    dist['aggregate'] = a_dist
    a_bad = H.run_bools(ctx, a_exprs, name='aggr', header=A.AGGR_HEADER, prelude=real.prelude(), jobs=2)
    for i in a_bad[:10]:
        m = a_meta[i]
        disagreements.append({'what': 'model and implementation differ (%s): %s' % (m['mode'], m['query']), 'input': {k: v for k, v in m.items() if k != 'impl'},
                              'impl': m['impl'], 'coq_case': a_exprs[i][:1500]})

    # (7b) GROUP BY with selected aggregates / several aggregates: select list + GROUP BY + conditions on four providers, result lists on SQLite
    g_exprs, g_meta, g_dis, g_nontriv, g_dist = A.group_cases(ctx, A.gen_group_queries(ctx, z.get('group_queries', 25)), real)
    disagreements += g_dis
    dist['group_by'] = g_dist
    g_bad = H.run_bools(ctx, g_exprs, name='group', header=A.GROUP_HEADER, prelude=real.prelude(), jobs=2)
    for i in g_bad[:10]:
        m = g_meta[i]
        disagreements.append({'what': 'model and implementation differ (%s): %s' % (m['mode'], m['query']), 'input': {k: v for k, v in m.items() if k != 'impl'},
                              'impl': m['impl'], 'coq_case': g_exprs[i][:1500]})

    # (8) ordering: ORDER BY list + conditions + column on four providers, the ordered rows of real SQLite
    o_exprs, o_meta, o_dis, o_nontriv, o_dist = O.order_cases(ctx, O.gen_queries(ctx, z.get('order_queries', 25)), real)
    disagreements += o_dis
    dist['order_by'] = o_dist
    o_bad = H.run_bools(ctx, o_exprs, name='order', header=O.ORDER_HEADER, prelude=real.prelude(), jobs=2)
    for i in o_bad[:10]:
        m = o_meta[i]
        disagreements.append({'what': 'model and implementation differ (%s): %s' % (m['mode'], m['query']), 'input': {k: v for k, v in m.items() if k != 'impl'},
                              'impl': m['impl'], 'coq_case': o_exprs[i][:1500]})

    like_report(k_fut.result())
    join_report(j_fut.result())
    bad = main_fut.result()
    pool.shutdown()
    for i in bad[:20]:
        m = meta[i]
        kind = 'structural' if i < len(s_exprs) else ('semantic (real SQLite vs qeval DSqlite)' if i < len(s_exprs) + len(m_exprs) else 'reference semantics')
        disagreements.append({'what': 'model and implementation differ (%s): %s' % (kind, m.get('query')), 'input': {k: v for k, v in m.items() if k != 'impl'},
                              'impl': m.get('impl', m.get('impl_value', m.get('impl_kept'))), 'coq_case': exprs[i][:1500]})
    if s_meta: samples.append({'structural': s_meta[len(s_meta) // 2]})
    if m_meta: samples.append({'semantic': m_meta[len(m_meta) // 2]})
    samples.append({'coq_case': exprs[len(exprs) // 3][:600]})
    dist['cases'] = {'structural': len(s_exprs), 'semantic': len(m_exprs), 'reference': len(r_exprs), 'like': len(k_exprs), 'join': len(j_exprs), 'collection': len(c_exprs), 'collection_len': len(l_exprs), 'collection_formula': len(f_exprs), 'aggregate': len(a_exprs), 'group_by': len(g_exprs), 'order_by': len(o_exprs)}
    return Corr(cases=len(exprs) + len(k_exprs) + len(j_exprs) + len(c_exprs) + len(l_exprs) + len(f_exprs) + len(a_exprs) + len(g_exprs) + len(o_exprs), nontrivial=len(s_nontriv) + len(m_nontriv) + len(k_nontriv) + len(j_nontriv) + len(c_nontriv) + len(l_nontriv) + len(f_nontriv) + len(a_nontriv) + len(g_nontriv) + len(o_nontriv), disagreements=disagreements, samples=samples, distribution=dist,
                note='every case is a boolean computed by vm_compute inside Coq from the model and the serialised implementation output')


# ------------------------------------------------------------------------------------------------ search

CORPUS_DIR = 'corpus/C01'


def corpus_inputs():
    import os
    out = []
    d = os.path.join(vlib.VERIF, CORPUS_DIR)
    if os.path.isdir(d):
        for f in sorted(os.listdir(d)):
            if f.endswith('.json'):
                j = json.load(open(os.path.join(d, f)))
                out.append((L.from_json(j['expr']), {int(k): v for k, v in j.get('params', {}).items()}, 'corpus'))
    return out


def search(ctx, deep):
    z = sizes(ctx, deep)
    rows = table_rows(ctx, z['rows'] if deep else 10) + L.like_rows()
    inputs = corpus_inputs()
    inputs += [(e, p, 'like-sweep') for e, p in L.like_sweep()]
    inputs += H.generated_exprs(ctx, z['search_random'], 400 if not deep else 1330, 60 if not deep else 600)
    # the search-only node kinds (LIKE family, upper / lower, slices, between, comparisons of conditions)
    g = L.Gen(ctx.rng, ext=True)
    for _ in range(z['search_ext']):
        g.reset()
        d = ctx.rng.choice((2, 3, 3, 4))
        e = g.filter_expr(d) if ctx.rng.random() < 0.7 else g.value('str', d, True)
        inputs.append((e, dict(g.params), 'random-ext'))
    evals, failures, nontriv, dist = H.search_sqlite(ctx, inputs, rows, deep)
    jreal = J.RealGraph(J.standard_graph())
    j_evals, j_fail, j_nontriv, j_dist = J.join_search(ctx, J.gen_queries(ctx, z.get('join_search', 150)), jreal)
    evals += j_evals; failures += j_fail; nontriv |= j_nontriv; dist['join'] = j_dist
    creal = J.RealGraph(C.coll_graph())
    c_evals, c_fail, c_nontriv, c_dist = C.coll_search(ctx, C.gen_queries(ctx, z.get('coll_search', 150), search=True), creal)
    evals += c_evals; failures += c_fail; nontriv |= c_nontriv; dist['collection'] = c_dist
    l_evals, l_fail, l_nontriv, l_dist = C.len_search(ctx, C.gen_len_queries(ctx, z.get('len_search', 120)), creal)
    evals += l_evals; failures += l_fail; nontriv |= l_nontriv; dist['collection_len'] = l_dist
    f_evals, f_fail, f_nontriv, f_dist = C.form_search(ctx, C.gen_form_queries(ctx, z.get('form_search', 150), search=True), creal)
    evals += f_evals; failures += f_fail; nontriv |= f_nontriv; dist['collection_formula'] = f_dist
    areal = H.RealDb(table_rows(ctx, 8))
    a_evals, a_fail, a_nontriv, a_dist = A.aggr_search(ctx, A.gen_queries(ctx, z.get('aggr_search', 200), search=True), areal, H.RealDb)
    evals += a_evals; failures += a_fail; nontriv |= a_nontriv; dist['aggregate'] = a_dist
    g_evals, g_fail, g_nontriv, g_dist = A.group_search(ctx, A.gen_group_queries(ctx, z.get('group_search', 150)), areal, H.RealDb)
    evals += g_evals; failures += g_fail; nontriv |= g_nontriv; dist['group_by'] = g_dist
    o_evals, o_fail, o_nontriv, o_dist = O.order_search(ctx, O.gen_queries(ctx, z.get('order_search', 150)), areal, H.RealDb)
    evals += o_evals; failures += o_fail; nontriv |= o_nontriv; dist['order_by'] = o_dist
    x_evals, x_fail = H.reexec_search(ctx)
    evals += x_evals; failures += x_fail; dist['reexecution'] = {'forms': len(H.REEXEC_FORMS), 'executions_each': len(H.REEXEC_VALUES), 'failing': len(x_fail)}
    dist['inputs'] = {'corpus': len([1 for i in inputs if i[2] == 'corpus']), 'total': len(inputs)}
    samples = [{'query': 'select(p for p in P if %s)' % L.src(inputs[len(inputs) // 2][0]), 'params': inputs[len(inputs) // 2][1]}]
    return Search(evaluations=evals, failures=failures, nontrivial=len(nontriv), samples=samples, distribution=dist, exhaustive=False)


def replay(ctx, data):
    if 'join' in data: return J.replay_join(data['join'])
    if 'coll' in data: return C.replay_coll(data['coll'])
    if 'len' in data: return C.replay_len(data['len'])
    if 'form' in data: return C.replay_form(data['form'])
    if 'aggr' in data: return A.replay_aggr(data['aggr'], H.RealDb)
    if 'group' in data: return A.replay_group(data['group'], H.RealDb)
    if 'order' in data: return O.replay_order(data['order'], H.RealDb)
    if 'reexec' in data: return H.replay_reexec(data['reexec'])
    return H.replay_sqlite(data)


LEVEL_TEXT = ('Machine-checked proof (Coq 8.16.1, structural induction on the expression, unbounded depth) that for the scalar filter / projection grammar over one '
              'entity (int / str / bool attributes, optional or required; literals; external parameters; + - * // % / unary minus abs; string + and len; comparisons; '
              'is (not) None; and / or / not; in / not in literal lists; if-else with a condition or any value as test; coalesce; min / max of several arguments) the SQL produced by the model of the monad '
              'translation evaluates, under the SQL semantics of SQLite, PostgreSQL and MySQL, to Python\'s result: WHERE keeps exactly the rows of the comprehension, '
              'selected expressions have Python\'s values, lifted to result lists with DISTINCT = set semantics; on the explicit complement of the recorded defect classes '
              '(floor division / modulo / true division of integers, a None value tested for truth below `not`, conditions as comparison operands; see known_findings/C01.json) that are refuted by '
              'witnesses. The model is compared node for node with the real translator on four providers on every run; the SQLite semantics is validated against the '
              'linked SQLite; an end-to-end differential search on real SQLite also covers LIKE / upper / lower / slices / between. Further theorems with their own models, ties '
              'and searches: the LIKE family (C01_like), attribute paths through Optional to-one references with the FROM / LEFT JOIN section (C01_left_join_rows, '
              'C01_select_join_rows), and conditions over a to-many collection - EXISTS / NOT EXISTS, IN / NOT IN subqueries with the IS NOT NULL checks, COUNT(DISTINCT pk) '
              'scalar subqueries, correlated inner conditions (C01_collection_atom, C01_collection_rows), the same subquery conditions combined freely with and / or / not '
              'and with sum / min / max / count of an item expression over the collection, also as selected values (C01_collection_formula_rows: every subquery has the stored form of its three-valued Python value), len(g.members) / count(g.members) in conditions with the LEFT JOIN + '
              'GROUP BY + HAVING statement the translator emits (C01_collection_len_rows), and aggregates as whole-query results without GROUP BY - count / sum / '
              'min / max / avg of a scalar expression over the filtered rows with the DISTINCT forms, NULL skipping and sum of nothing = 0 (C01_aggregate), several aggregates and GROUP BY by '
              'the non-aggregate items of the select list incl. NULL keys (C01_group_rows), order_by with expression keys and the NULL placement of each dialect (C01_order_rows) - each stated except '
              'for recorded, refuted defects (Optional paths under the inner join of select(), Required / primary-key attributes reached through a None reference, an aggregate over a collection whose item has no column of the member); '
              'six further defects found with these models were repaired in /repo during the work and are listed as fixed.')
LEVEL_NOTE = ('Partial: joins over several loop variables, collection conditions other than the exists / in / count / len atoms (avg over a collection, sum(g.members.a)-style attribute lifting with GROUP BY, nested collections), aggregates in HAVING or inside larger selected expressions, order_by by position / attribute objects / lambdas over the result, ordering combined with limit / page (C24), dates, Decimal / float, JSON, arrays, hybrid methods, lambdas and generator '
              'objects (decompiler), entity row decoding are outside the theorem and outside this check. Trusted: Coq kernel + vm_compute; the hand-written translation '
              'model (tied structurally on every run); documentation models of PostgreSQL / MySQL (nothing executes there); the reference reading of None written from '
              'the property statement.')
TECHNIQUE = 'Coq proof by induction over a deep embedding (expression grammar -> monad model -> SQL AST -> per-dialect evaluator); vm_compute structural + semantic correspondence; differential search with shrinking on real SQLite'
DESIGN_REF = 'DESIGN.md section 5, C01'
