"""C33 - Lifecycle hooks run once per saved change and their edits are saved."""
import json, random
import vlib
from vlib import Corr, Search, Failure

ID = 'C33'
LEVEL = 'proof'
PROPS = ['Props/C33.v']
GEN = []
TRUSTED = [
    'hand-written model Model/C33Flush.v of SessionCache.flush (rounds, growing objects_to_save), Entity._save_/_save_principal_objects_, '
    'call_after_save_hooks and Entity.flush; tied on every run by correspondence: the complete interleaved log of hook calls and '
    'INSERT/UPDATE/DELETE statements of generated histories must equal the model log (vm_compute inside coqc), and the database values the '
    'model\'s o_dbval',
    'hooks are an arbitrary function of the whole model state returning a list of actions (modify any object / create an object); hooks that '
    'delete objects, run queries (an after-hook query starts a nested flush) or raise are outside the model',
    'implementation driver tools/c33_driver.py: statements are recorded by wrapping provider.execute of the driver\'s Database instance',
    'many-to-many link rows (remove_m2m/add_m2m) are not part of the model: they have no hooks',
]
ASSUMPTIONS = [
    'the session state before the flush satisfies the implementation invariant "objects_to_save holds exactly the objects with status '
    'created/modified/marked_to_delete, once each" (checked on every generated history against the real cache)',
    'hook bodies only read, assign attributes (of any object) and create objects',
    'SQLite only',
]
RULE = ('seeded random histories over one self-referencing entity: 0-3 committed objects, 1-4 session operations (modify, create with/without '
        'a reference to an existing or new object, delete, re-point a reference), 0-4 table-driven hook bodies (modify self/other/new objects, '
        'create objects with or without a principal) keyed by (before/after, kind, object, nth call), trigger = flush() or obj.flush(); plus a '
        'fixed corpus (incl. obj.flush() on the leaf of chains of two and three new principals); non-trivial = at least one statement was executed; distinct = distinct canonical case JSON')

KINDS = {'I': 'KIns', 'U': 'KUpd', 'D': 'KDel'}
STATUS = {'loaded': 'SLoaded', 'created': 'SCreated', 'modified': 'SModified', 'marked_to_delete': 'SMarked', 'inserted': 'SInserted',
          'updated': 'SUpdated', 'deleted': 'SDeleted', 'cancelled': 'SCancelled'}

CORPUS = [
    # obj.flush() on the leaf of a chain of NEW objects (Line -> Order -> Customer), with a hook on the root that edits it
    {'init': [], 'ops': [['create', None], ['create', 0], ['create', 1]], 'hooks': [[True, 'I', 0, 0, [['modify', 0]]]], 'trigger': ['obj_flush', 2]},
    {'init': [], 'ops': [['create', None], ['create', 0], ['create', 1], ['create', 2]], 'hooks': [[True, 'I', 0, 0, [['modify', 0], ['modify', 1]]], [True, 'I', 1, 0, [['modify', 1]]]], 'trigger': ['obj_flush', 3]},
    {'init': [None], 'ops': [['create', None], ['create', 1], ['set_ref', 0, 2]], 'hooks': [[True, 'I', 1, 0, [['modify', 1]]], [False, 'I', 1, 1, [['modify', 1]]]], 'trigger': ['obj_flush', 0]},
    # the recorded defect: S created with a created principal G; S.flush()
    {'init': [], 'ops': [['create', None], ['create', 0]], 'hooks': [], 'trigger': ['obj_flush', 1]},
    {'init': [], 'ops': [['create', None], ['create', 0]], 'hooks': [], 'trigger': ['flush']},
    {'init': [None], 'ops': [['create', None], ['set_ref', 0, 1]], 'hooks': [], 'trigger': ['obj_flush', 0]},
    {'init': [None, 0], 'ops': [['modify', 1]], 'hooks': [[True, 'U', 1, 0, [['modify', 1], ['modify', 0], ['create', None]]],
                                                             [False, 'U', 1, 1, [['modify', 1]]]], 'trigger': ['flush']},
    {'init': [None], 'ops': [['delete', 0]], 'hooks': [[True, 'D', 0, 0, [['create', None]]], [False, 'D', 0, 1, [['create', None]]]],
     'trigger': ['flush']},
    {'init': [None, None], 'ops': [['modify', 0]], 'hooks': [[True, 'U', 0, 0, [['modify', 1]]], [True, 'U', 1, 0, [['modify', 0]]],
                                                                [False, 'U', 1, 1, [['modify', 0], ['modify', 1]]]], 'trigger': ['obj_flush', 0]},
    {'init': [], 'ops': [['create', None]], 'hooks': [[True, 'I', 0, 0, [['create', 0]]], [True, 'I', 1, 0, [['create', 1]]]],
     'trigger': ['obj_flush', 0]},
]


def gen_case(rng):
    n0 = rng.randint(0, 3)
    init = [None if i == 0 or rng.random() < 0.5 else rng.randrange(i) for i in range(n0)]
    status = {i: 'loaded' for i in range(n0)}
    referred = set(r for r in init if r is not None)
    dead = set()
    ops = []
    n = n0
    for _ in range(rng.randint(1, 4)):
        live = [o for o in range(n) if o not in dead]
        choice = rng.random()
        if choice < 0.35 or not live:
            created = [o for o in live if status.get(o) == 'created']
            ref = (created[-1] if created and rng.random() < 0.5 else rng.choice(live)) if live and rng.random() < 0.7 else None
            ops.append(['create', ref]); status[n] = 'created'
            if ref is not None: referred.add(ref)
            n += 1
        elif choice < 0.65:
            ops.append(['modify', rng.choice(live)])
        elif choice < 0.8:
            cand = [o for o in live if o not in referred]
            if cand:
                o = rng.choice(cand); ops.append(['delete', o]); dead.add(o)
        else:
            o = rng.choice(live)
            cand = [p for p in live if p < o]
            if cand:
                p = rng.choice(cand); ops.append(['set_ref', o, p]); referred.add(p)
    if not ops: ops.append(['create', None]); n += 1
    never_dead = [o for o in range(n) if o not in dead]
    hooks, seen = [], set()
    for _ in range(rng.randint(0, 4)):
        before = rng.random() < 0.6
        o = rng.randrange(n + 2)
        kind = rng.choice('IUD') if rng.random() < 0.3 else ('D' if o in dead else ('I' if o >= n0 else 'U'))
        nth = rng.choice([0, 0, 2] if before else [1, 1, 3])
        key = (before, kind, o, nth)
        if key in seen: continue
        seen.add(key)
        acts = []
        for _ in range(rng.randint(1, 2)):
            if rng.random() < 0.6: acts.append(['modify', o if rng.random() < 0.4 else rng.randrange(n + 2)])
            else: acts.append(['create', rng.choice(never_dead) if never_dead and rng.random() < 0.5 else None])
        hooks.append([before, kind, o, nth, acts])
    pend = [o for o in range(n) if o not in dead]
    newest = [o for o in pend if status.get(o) == 'created']
    trigger = ['flush'] if rng.random() < 0.6 or not pend else ['obj_flush', newest[-1] if newest and rng.random() < 0.6 else rng.choice(pend)]
    return {'init': init, 'ops': ops, 'hooks': hooks, 'trigger': trigger}


def cases_for(ctx, count):
    rng = random.Random(ctx.seed * 7919 + 33)
    out, seen = [], set()
    for c in CORPUS + load_corpus():
        k = json.dumps(c, sort_keys=True)
        if k not in seen: seen.add(k); out.append(c)
    while len(out) < count:
        c = gen_case(rng)
        k = json.dumps(c, sort_keys=True)
        if k in seen: continue
        seen.add(k); out.append(c)
    return out


def load_corpus():
    import os
    d = os.path.join(vlib.VERIF, 'corpus', 'C33')
    out = []
    if os.path.isdir(d):
        for f in sorted(os.listdir(d)):
            if f.endswith('.json'):
                j = json.load(open(os.path.join(d, f)))
                out.append(j.get('case', j))
    return out


_runs = {}

def run_cases(cases):
    key = json.dumps(cases, sort_keys=True)
    if key not in _runs:
        _runs[key] = vlib.run_impl('c33_driver.py', {'cases': cases}, timeout=900)
    return _runs[key]


# ------------------------------------------------------------------------------------------------ Coq serialisation

def clist(xs): return '[' + '; '.join(xs) + ']'

def coq_action(a):
    if a[0] == 'modify': return '(AModify %d)' % a[1]
    return '(ACreate %s)' % clist([str(a[1])] if a[1] is not None else [])

def coq_state(case, obs):
    pre = obs['pre']
    objs = []
    for o, st in enumerate(pre['status']):
        val = pre['vals'][o]
        db = 'None' if st in ('created', 'cancelled') else '(Some 1)'
        objs.append('(mkobj %s %d %s %s)' % (STATUS[st], val, db, clist([str(p) for p in pre['princ'][o]])))
    return '(mkst (fun i => nth i %s no_obj) %d %s [] %s [])' % (clist(objs), len(objs), clist([str(x) for x in pre['ots']]),
                                                                 'true' if pre['modified'] else 'false')

def coq_hooks(case):
    rows = ['(%s, %s, %d, %d, %s)' % ('true' if h[0] else 'false', KINDS[h[1]], h[2], h[3], clist([coq_action(a) for a in h[4]])) for h in case['hooks']]
    return '(table_hooks %s)' % clist(rows)

def coq_log(log):
    return clist(['(E%s %s %d)' % (e[0], KINDS[e[1]], e[2]) for e in log])

HEADER = 'Require Import PonyV.Base.PyBase PonyV.Model.C33Flush.\nOpen Scope nat_scope.\n'

def repaired():
    """True when /repo's Entity.flush passes call_before_hooks (proposed_fixes/C33-obj-flush-principal-before-hooks.diff applied):
    the single-object flush is then compared with the model obj_flush_h instead of obj_flush."""
    import os
    try: return 'call_before_hooks' in open(os.path.join(vlib.REPO, 'pony/orm/core.py')).read()
    except IOError: return False


def coq_case(case, obs):
    h = coq_hooks(case)
    st = coq_state(case, obs)
    if case['trigger'][0] == 'flush':
        run = '(match flush %s 50 200 %s with Ok s1 => flush %s 50 200 s1 | r => r end)' % (h, st, h)
    else:
        run = '(match ' + ('obj_flush_h' if repaired() else 'obj_flush') + ' %s 200 %d %s with Some s1 => flush %s 50 200 s1 | None => ErrFuel end)' % (h, case['trigger'][1], st, h)
    dbl = [obs['db'].get(str(o)) for o in range(obs['n'])]
    db = clist(['None' if v is None else '(Some %d)' % v for v in dbl])
    return ('(let r := %s in log_eqb (result_log r) %s && match r with Ok s => dbvals_eqb (objs s) 0 %s && Nat.eqb (next s) %d | _ => false end)'
            % (run, coq_log(obs['log']), db, obs['n']))


def run_bools(ctx, exprs, chunk=150):
    chunks = []
    for i in range(0, len(exprs), chunk):
        part = exprs[i:i + chunk]
        chunks.append('Definition cases : list bool := [\n' + ';\n'.join(part) + '].\nEval vm_compute in (failing cases).\n')
    outs = vlib.coq_eval_many(ctx, HEADER, chunks)
    bad = []
    for k, out in enumerate(outs):
        vals = vlib.parse_eval_outputs(out)
        assert len(vals) == 1, out[-500:]
        inner = vals[0].strip().strip('[]').strip()
        if inner:
            for tok in inner.split(';'):
                bad.append(k * chunk + int(tok.strip().replace('%nat', '')))
    return bad


def invariant_ok(obs):
    """ASSUMPTION check: objects_to_save = the pending objects, once each (on the real cache, before the trigger)."""
    pre = obs['pre']
    pend = [o for o, s in enumerate(pre['status']) if s in ('created', 'modified', 'marked_to_delete')]
    return sorted(pre['ots']) == pend and len(set(pre['ots'])) == len(pre['ots'])


def correspondence(ctx):
    cases = cases_for(ctx, ctx.scale(600, 6000))
    obs = run_cases(cases)
    exprs, meta, disagreements = [], [], []
    nontrivial = set()
    dist = {'trigger_flush': 0, 'trigger_obj_flush': 0, 'with_hooks': 0, 'hook_actions_create': 0, 'hook_actions_modify': 0,
            'log_length_total': 0, 'impl_errors': 0, 'rounds_gt_1': 0}
    for c, o in zip(cases, obs):
        if o.get('error'):
            dist['impl_errors'] += 1
            disagreements.append({'what': 'implementation raised on a generated history', 'input': c, 'impl': o['error']})
            continue
        if not invariant_ok(o):
            disagreements.append({'what': 'objects_to_save is not exactly the pending objects before the flush (model precondition)', 'input': c, 'impl': o['pre']})
            continue
        dist['trigger_' + c['trigger'][0]] += 1
        if c['hooks']: dist['with_hooks'] += 1
        for h in c['hooks']:
            for a in h[4]: dist['hook_actions_' + a[0]] += 1
        dist['log_length_total'] += len(o['log'])
        if sum(1 for e in o['log'] if e[0] == 'S') > 0: nontrivial.add(json.dumps(c, sort_keys=True))
        exprs.append(coq_case(c, o)); meta.append((c, o))
    bad = run_bools(ctx, exprs)
    for i in bad[:20]:
        c, o = meta[i]
        disagreements.append({'what': 'model log / database values differ from the implementation', 'input': c, 'impl': {'log': o['log'], 'db': o['db']},
                              'coq_case': exprs[i][:1500]})
    samples = [{'case': cases[0], 'impl_log': obs[0]['log']}, {'case': cases[len(cases) // 2], 'impl_log': obs[len(cases) // 2].get('log')}]
    return Corr(cases=len(exprs), nontrivial=len(nontrivial), disagreements=disagreements, samples=samples, distribution=dist,
                note='log_eqb (log (model run)) (implementation log) && database values && number of objects, by vm_compute')


# ------------------------------------------------------------------------------------------------ property oracle

NAMES = {'I': 'insert', 'U': 'update', 'D': 'delete'}

def judge(case, o):
    """Specification side (no model): per object, events must form (before_k, statement_k, after_k)*; the database must hold
    the values the program (incl. hook bodies) assigned."""
    if o.get('error'): return ('implementation-error:' + o['error'].split(':')[0], o['error'])
    state = {}
    first_bad = None
    for i, (t, k, ob) in enumerate(o['log']):
        p = state.get(ob, ('idle', None))
        if t == 'B': nxt = ('B', k) if p[0] == 'idle' else None
        elif t == 'S': nxt = ('S', k) if p == ('B', k) else None
        else: nxt = ('idle', None) if p == ('S', k) else None
        if nxt is None:
            first_bad = (i, t, k, ob, p); break
        state[ob] = nxt
    if first_bad is None:
        for ob, p in state.items():
            if p[0] != 'idle':
                first_bad = (len(o['log']), 'end', p[1], ob, p); break
    if first_bad is not None:
        i, t, k, ob, p = first_bad
        trig = case['trigger'][0]
        princ = trig == 'obj_flush' and t == 'S' and p[0] == 'idle' and ob != case['trigger'][1]
        if t == 'S' and p[0] == 'idle': what = 'statement-without-before_%s' % NAMES[k]
        elif t == 'B': what = 'before_%s-called-twice-or-out-of-order' % NAMES[k]
        elif t == 'A': what = 'after_%s-without-statement-or-twice' % NAMES[k]
        elif t == 'end': what = ('missing-after_%s' % NAMES[k]) if p[0] == 'S' else ('before_%s-without-statement' % NAMES[k])
        else: what = 'statement-%s-out-of-order' % NAMES[k]
        key = '%s:%s%s' % (trig, what, ':principal-of-flushed-object' if princ else '')
        return (key, 'object %d: %s (event %d of log %s)' % (ob, what, i, json.dumps(o['log'])))
    for ob, v in o['expected_val'].items():
        got = o['db'].get(ob)
        deleted = any(e[0] == 'S' and e[1] == 'D' and str(e[2]) == ob for e in o['log'])
        cancelled = got is None and not any(e[0] == 'S' and str(e[2]) == ob for e in o['log'])
        if deleted or cancelled: continue
        if got != v:
            return ('%s:edit-not-saved' % case['trigger'][0], 'object %s: database val %r, program assigned %r (log %s)' % (ob, got, v, json.dumps(o['log'])))
    return None


def search(ctx, deep):
    cases = cases_for(ctx, ctx.scale(600, 6000) if not deep else 6000)
    obs = run_cases(cases)
    failures, seen, nontriv = [], {}, set()
    for c, o in zip(cases, obs):
        if any(e[0] == 'S' for e in o.get('log', [])): nontriv.add(json.dumps(c, sort_keys=True))
        j = judge(c, o)
        if j is None: continue
        key, what = j
        if key not in seen or len(json.dumps(c)) < seen[key][1]:
            seen[key] = (Failure(key, what, {'case': c}), len(json.dumps(c)))
    failures = [v[0] for v in seen.values()]
    return Search(evaluations=len(cases), failures=failures, nontrivial=len(nontriv),
                  distribution={'failing_keys': sorted(seen)}, samples=[cases[-1]])


def replay(ctx, data):
    c = data['case']
    o = vlib.run_impl('c33_driver.py', {'cases': [c]}, timeout=300)[0]
    j = judge(c, o)
    if j is None: return None
    return Failure(j[0], j[1], data)


LEVEL_TEXT = ('Machine-checked proof (Coq 8.16.1) over a hand-written model of SessionCache.flush / Entity._save_ / call_after_save_hooks with hooks as '
              'arbitrary oracle functions that may modify any object or create objects: for every well-formed session state, every hook behaviour and '
              'any number of rounds, a flush that terminates leaves every object\'s event sequence a concatenation of (before_k, statement_k, after_k) '
              'triples (C33_once), nothing pending and every live object\'s database value equal to its in-memory value (C33_edits_saved). '
              'Entity.flush(obj) (with the principals\' before hooks, /repo b6b47ea) is proved unconditionally (C33_obj_flush_once). The model is tied to the implementation by log equality on generated histories (vm_compute).')
LEVEL_NOTE = ('Hooks that delete, query or raise, m2m link rows and the 50-round limit error path are outside the theorems. Model is hand-written; '
              'correspondence is differential testing on SQLite.')
TECHNIQUE = 'Coq invariant proof (per-object phase automaton over the event log) over a hand model; vm_compute log correspondence; seeded history search'
DESIGN_REF = 'DESIGN.md section 5, C33'
