"""C02 - The same query over the same data gives the same answer on every dialect."""
import json, re
import vlib, c01_lib as L, c01_harness as H, c01_aggr as A, c01_order as O
from vlib import Corr, Search, Failure

ID = 'C02'
LEVEL = 'proof'
PROPS = ['Props/C02.v', 'Findings/C02.v']
GEN = []
TRUSTED = [
    'the C01 translation model (Model/C01Translate.v) incl. its dialect-dependent branches (coerce_monads / minmax TO_INT casts, NumericMixin.negate / nonzero '
    'pg_bool branches, Oracle string truthiness), compared node for node with the real translator on the sqlite, postgres, mysql and oracle providers on every run',
    'Model/C02Render.v: the SQL text of each provider\'s builder for the fragment (operators, casts, concat, least / greatest, boolean literals, %% escaping, '
    'identifier quoting, the "no limit" LIMIT forms), compared with the real builders\' text on every run',
    'dialect semantics Model/C01Sql.v: SQLite validated against the linked SQLite (check C01 and the LIMIT / OFFSET sweep here); PostgreSQL and MySQL are '
    'DOCUMENTATION MODELS - no PostgreSQL / MySQL / MariaDB / Oracle server exists in this sandbox, nothing is executed there',
]
ASSUMPTIONS = [
    'only SQLite executes; "the answer on PostgreSQL / MySQL" means the value of the generated SQL under the documented semantics modelled in Model/C01Sql.v '
    '(integer / and %, NULL handling of least / greatest, length(), boolean type rules, CASE / coalesce type rule, x / 0)',
    'binary collation for string comparison on every backend (the MySQL default collations are case-insensitive: a server configuration, outside the model)',
    'integers are unbounded; division by zero is outside the statement (SQLite / MySQL give NULL, PostgreSQL raises, Python raises)',
    'Oracle: structure and text only (its semantics, \'\' = NULL, is not modelled); CockroachDB: not covered',
    'string slices / indexes are outside the C02 theorems (proved in C25); the search compares them across dialects with C25\'s machinery (tools/props/c25.py, tools/sqlsem.py)',
    'ordering: NULL sorts first in ascending order on SQLite and MySQL, last on PostgreSQL (documentation); GROUP BY result order is unspecified (multisets)',
    'JSON / array operators, date arithmetic, row values per dialect: not covered',
]
RULE = ('structural + text: enumerated depth<=2 (sampled in the quick tier), sampled depth-3 and seeded random typed expressions, each translated and rendered on 4 '
        'providers; LIMIT: query[k:] for k in 0..n+1 on 4 providers (text) and on real SQLite (rows); search: each expression on a fixed table evaluated under the '
        'PostgreSQL / MySQL models from the AST the real translator produced for that provider, compared with the SQLite reading; plus 40 aggregate and 40 ordered queries (400 each when something broke / thorough) whose decoded value / ordered id list under the PostgreSQL and MySQL '
        'models is compared with the SQLite reading; plus three query texts executed three times in ONE db_session with different parameter values on the SQLite provider and on the PostgreSQL / MySQL / Oracle pipelines '
        '(statements + arguments handed to the driver recorded and replayed on SQLite); non-trivial = expression with an '
        'operator; distinct = distinct (provider, query text)')

QUICK = dict(n_random=160, n_enum=200, n_depth3=40, text_random=120, text_enum=160, search_random=150, search_enum=150, search_rows=6)
THOROUGH = dict(n_random=1500, n_enum=1330, n_depth3=300, text_random=1200, text_enum=1330, search_random=1000, search_enum=1330, search_rows=10)

PREFIX = {'sqlite': 'SELECT "p"."id", ', 'postgres': 'SELECT "p"."id", ', 'mysql': 'SELECT `p`.`id`, ', 'oracle': 'SELECT "p"."ID", '}
RENDER_HEADER = 'From Coq Require Import String.\nRequire Import PonyV.Model.C02Render.\n'


DEEP = dict(QUICK, search_random=450, search_enum=500, search_rows=8)      # something broke in the quick tier: look harder, still minutes


def sizes(ctx, deep=False):
    return THOROUGH if ctx.thorough else (DEEP if deep else QUICK)


def coq_string(s):
    assert all(ord(c) < 128 for c in s), s
    return '"%s"%%string' % s.replace('"', '""')


def norm_params(sql, prov):
    if prov == 'postgres': return re.sub(r'%\(p\d+\)s', '?', sql)
    if prov == 'mysql': return re.sub(r'(?<!%)%s', '?', sql)
    if prov == 'oracle': return re.sub(r':p\d+', '?', sql)
    return sql


def expr_text(prov, e, params):
    """Text the provider's builder produced for the selected expression, and its AST."""
    from pony import orm
    db, P = L.get_db(prov)
    with orm.db_session:
        q = orm.select('(p.id, %s) for p in P' % L.src(e), L.query_globals(P, params))
        ast = q._translator.expr_columns[1]
        sql = q.get_sql()
    assert sql.startswith(PREFIX[prov]), sql
    body = sql[len(PREFIX[prov]):]
    body = body[:body.index('\nFROM ')]
    return norm_params(body, prov), ast


def text_cases(ctx, inputs):
    exprs, meta, dis = [], [], []
    dist = {p: 0 for p in H.PROVIDERS}
    nontriv = set()
    for e, params, origin in inputs:
        if any(isinstance(v, str) and not v.isascii() for v in params.values()): continue
        for prov in H.PROVIDERS:
            if prov == 'oracle' and H.oracle_skips(e, params): continue
            try:
                text, ast = expr_text(prov, e, params)
                exprs.append('String.eqb (render %s %s) %s' % (L.DN[prov], L.qx(ast), coq_string(text)))
                meta.append({'provider': prov, 'query': L.src(e), 'params': params, 'impl': text})
                dist[prov] += 1
                if L.depth(e) >= 2: nontriv.add((prov, L.src(e)))
            except L.Unmodelled as ex:
                dis.append({'what': 'AST node outside the modelled fragment: %s' % ex, 'input': {'provider': prov, 'query': L.src(e)}})
            except Exception as ex:
                dis.append({'what': 'the real translator / builder raised on a typed expression', 'input': {'provider': prov, 'query': L.src(e), 'params': params},
                            'impl': '%s: %s' % (type(ex).__name__, str(ex)[:200])})
    return exprs, meta, dis, nontriv, dist


def limit_cases(ctx):
    """query[k:] on the four providers: the LIMIT node of construct_sql_ast and the builder's text; and the rows on real SQLite."""
    from pony import orm
    exprs, meta, dis = [], [], []
    dist = {'ast': 0, 'text': 0, 'sqlite_rows': 0}
    for prov in H.PROVIDERS:
        db, P = L.get_db(prov)
        for k in (1, 2, 7):
            with orm.db_session:
                q = orm.select('p.r for p in P if p.r > 0', {'P': P})
                ast, _ = q._translator.construct_sql_ast(None, k)
                sql, _, _, _ = q._construct_sql_and_arguments(None, k)
            lim = [s for s in ast if isinstance(s, list) and s and s[0] == 'LIMIT']
            if prov == 'oracle':
                # OraBuilder.SELECT rewrites LIMIT into ROWNUM subqueries: only record that no LIMIT keyword is emitted
                if ' LIMIT ' in sql or sql.rstrip().split('\n')[-1].startswith('LIMIT'):
                    dis.append({'what': 'Oracle text contains a LIMIT clause', 'input': {'offset': k}, 'impl': sql})
                continue
            if len(lim) != 1 or len(lim[0]) != 3 or lim[0][2] != k:
                dis.append({'what': 'unexpected LIMIT section for query[%d:]' % k, 'input': {'provider': prov}, 'impl': L.strip_ast(lim)}); continue
            lv = lim[0][1]
            want = 'None' if lv is None else '(Some %s)' % vlib.cz(lv)
            exprs.append('match unbounded_limit %s, %s with Some a, Some b => (a =? b)%%Z | None, None => true | _, _ => false end' % (L.DN[prov], want))
            meta.append({'provider': prov, 'what': 'LIMIT node for query[%d:]' % k, 'impl': L.strip_ast(lim[0])}); dist['ast'] += 1
            last = sql.rstrip().split('\n')[-1]
            exprs.append('match render_offset_only %s %s with Some s => String.eqb s %s | None => false end' % (L.DN[prov], vlib.cz(k), coq_string(last)))
            meta.append({'provider': prov, 'what': 'LIMIT text for query[%d:]' % k, 'impl': last}); dist['text'] += 1
    # rows on real SQLite: LIMIT -1 OFFSET k returns exactly the rows after the first k
    rows = [{'a': i, 'b': None, 'r': i, 's': None, 'u': 'a', 'f': None, 'g': True} for i in range(1, 8)]
    real = H.RealDb(rows)
    ids = sorted(real.rows)
    for k in range(0, len(ids) + 2):
        with real.orm.db_session:
            got = list(real.orm.select('p.id for p in P', {'P': real.P}).order_by(1)[k:]) if k else list(real.orm.select('p.id for p in P', {'P': real.P}).order_by(1)[:])
        lst = '[%s]' % '; '.join('%d' % i for i in ids)
        exprs.append('(fix eq (a b : list Z) := match a, b with [], [] => true | x :: a\', y :: b\' => (x =? y)%%Z && eq a\' b\' | _, _ => false end) '
                     '(offset_only DSqlite %d %s) %s' % (k, lst, '[%s]' % '; '.join('%d' % i for i in got)))
        meta.append({'provider': 'sqlite (real)', 'what': 'rows of query[%d:]' % k, 'impl': got}); dist['sqlite_rows'] += 1
        if got != ids[k:]:
            dis.append({'what': 'real SQLite: query[%d:] is not the Python slice' % k, 'input': ids, 'impl': got})
    return exprs, meta, dis, dist


def correspondence(ctx):
    z = sizes(ctx)
    disagreements, samples, dist = [], [], {}
    inputs = H.generated_exprs(ctx, z['n_random'], z['n_enum'], z['n_depth3'])
    inputs += [(e, p, 'handmade') for e, p in H.HANDMADE + H.HANDMADE_UNTYPED + EXTRA]
    s_exprs, s_meta, s_dis, s_nontriv, s_dist = H.structural_cases(ctx, inputs)
    disagreements += s_dis; dist['structural'] = s_dist
    t_inputs = H.generated_exprs(ctx, z['text_random'], z['text_enum'], 30)
    t_inputs += [(e, p, 'handmade') for e, p in H.HANDMADE + H.HANDMADE_UNTYPED + EXTRA]
    t_exprs, t_meta, t_dis, t_nontriv, t_dist = text_cases(ctx, t_inputs)
    disagreements += t_dis; dist['text'] = t_dist
    l_exprs, l_meta, l_dis, l_dist = limit_cases(ctx)
    disagreements += l_dis; dist['limit'] = l_dist

    bad1 = H.run_bools(ctx, s_exprs, name='struct')
    for i in bad1[:10]:
        disagreements.append({'what': 'model and real translator differ (structural): %s on %s' % (s_meta[i]['query'], s_meta[i]['provider']),
                              'input': {k: v for k, v in s_meta[i].items() if k != 'impl'}, 'impl': s_meta[i]['impl'], 'coq_case': s_exprs[i][:1200]})
    tl = t_exprs + l_exprs; tm = t_meta + l_meta
    bad2 = H.run_bools(ctx, tl, name='text', prelude=RENDER_HEADER)
    for i in bad2[:10]:
        disagreements.append({'what': 'model and real builder differ (%s): %s' % ('text' if i < len(t_exprs) else 'LIMIT / OFFSET', tm[i].get('query', tm[i].get('what'))),
                              'input': {k: v for k, v in tm[i].items() if k != 'impl'}, 'impl': tm[i]['impl'], 'coq_case': tl[i][:1200]})
    if t_meta: samples.append({'text': t_meta[len(t_meta) // 2]})
    if l_meta: samples.append({'limit': l_meta[1]})
    if s_meta: samples.append({'structural': s_meta[len(s_meta) // 3]})
    dist['cases'] = {'structural': len(s_exprs), 'text': len(t_exprs), 'limit': len(l_exprs)}
    return Corr(cases=len(s_exprs) + len(tl), nontrivial=len(s_nontriv) + len(t_nontriv), disagreements=disagreements, samples=samples, distribution=dist,
                note='every case is a boolean computed by vm_compute inside Coq; PostgreSQL / MySQL / Oracle are compared at AST and text level only (no server)')


# expressions behind the C02 findings: always part of the structural / text ties and of the search
EXTRA = [
    (('minmax', False, (('attr', 'a'), ('attr', 'b'))), {}),
    (('len', ('attr', 's')), {}),
    (('arith', '//', ('attr', 'a'), ('int', 2)), {}),
    (('not', ('coalesce', (('attr', 'f'), ('attr', 'f')))), {}),
    (('not', ('if', ('attr', 's'), ('attr', 'f'), ('attr', 'f'))), {}),
]


# ------------------------------------------------------------------------------------------------ search

def search_rows(ctx, n):
    rows = [
        {'a': 7, 'b': 2, 'r': 2, 's': 'ab', 'u': 'a', 'f': True, 'g': False},
        {'a': 1, 'b': None, 'r': -3, 's': 'é', 'u': 'ab', 'f': None, 'g': True},
        {'a': -7, 'b': -2, 'r': 7, 's': '', 'u': 'b', 'f': False, 'g': True},
        {'a': None, 'b': 3, 'r': 0, 's': None, 'u': 'abc', 'f': None, 'g': False},
        {'a': 8, 'b': 2, 'r': 4, 's': 'a', 'u': 'ab', 'f': True, 'g': True},
        {'a': 0, 'b': 0, 'r': 1, 's': 'b', 'u': 'a', 'f': False, 'g': False},
    ]
    extra = L.standard_rows()
    return (rows + extra[:: max(1, len(extra) // max(1, n - len(rows)))])[:max(n, len(rows))]


def dialect_key(e, row, params, prov):
    """The specific per-dialect defect class responsible for a disagreement with the SQLite reading."""
    hz = L.hazards(e, row, params, prov)
    if 'mysql-floordiv-is-decimal-division' in hz: return 'mysql-floordiv-is-exact-division'
    if 'truediv-of-ints-is-integer-division' in hz and prov == 'mysql': return 'mysql-truediv-is-exact-where-sqlite-truncates'
    found = set()
    def walk(x):
        for c in L.children(x): walk(c)
        try:
            if x[0] == 'minmax' and prov == 'postgres':
                vs = [L.ref(a, row, params, True) for a in x[2]]
                if any(v is None for v in vs) and not all(v is None for v in vs): found.add('postgres-least-greatest-ignore-null')
            if x[0] == 'len' and prov == 'mysql':
                v = L.ref(x[1], row, params, True)
                if isinstance(v, str) and not v.isascii(): found.add('mysql-length-counts-bytes')
            if x[0] == 'not' and prov == 'postgres' and L.ty_of(x[1]) == 'bool' and x[1][0] != 'attr' and L.ref(x[1], row, params, True) is None:
                found.add('postgres-not-of-nullable-bool-expression')
            if x[0] in ('neg', 'abs') and prov == 'postgres' and L.ty_of(x[1]) == 'bool': found.add('postgres-bool-arithmetic-without-cast')
            if x[0] in ('if', 'coalesce') and prov == 'postgres':
                ts = {L.ty_of(a) for a in (x[2:4] if x[0] == 'if' else x[1])}
                if ts == {'bool', 'int'}: found.add('postgres-mixed-bool-int-branches')
        except L.RefError:
            pass
    walk(e)
    for k in ('postgres-mixed-bool-int-branches', 'postgres-bool-arithmetic-without-cast', 'postgres-least-greatest-ignore-null', 'mysql-length-counts-bytes', 'postgres-not-of-nullable-bool-expression'):
        if k in found: return k
    kinds = sorted(k for k in L.kinds_of(e) if k.split(':')[0] not in ('attr', 'int', 'str', 'bool', 'param', 'none'))
    return 'unlisted:%s:%s' % (prov, '+'.join(kinds)[:80])


def dialect_case(prov, e, params, row, mode, rowname=None):
    """Coq bool: the provider's AST under its dialect model gives the same decoded answer as the SQLite AST under SQLite's."""
    t = L.ty_of(e) or 'int'
    T = {'int': '(TV TInt)', 'str': '(TV TStr)', 'bool': '(TV TBool)', 'cond': 'TCond'}[t]
    env = L.coq_env(row, params, rowname)
    if mode == 'filter':
        a = '[%s]' % '; '.join(L.qx(c) for c in L.translate_filter(prov, e, params))
        b = '[%s]' % '; '.join(L.qx(c) for c in L.translate_filter('sqlite', e, params))
        return 'Bool.eqb (where_truth %s (encenv %s %s) %s) (where_truth DSqlite (encenv DSqlite %s) %s)' % (L.DN[prov], L.DN[prov], env, a, env, b)
    a = L.qx(L.translate_project(prov, e, params))
    b = L.qx(L.translate_project('sqlite', e, params))
    return 'pyv_eqb (dec %s (qeval %s (encenv %s %s) %s)) (dec %s (qeval DSqlite (encenv DSqlite %s) %s))' % (T, L.DN[prov], L.DN[prov], env, a, T, env, b)


def zero_div(e, row, params):
    return 'zero-division' in L.hazards(e, row, params)


def make_failure(prov, e, params, row, mode, key):
    what = '%s (documented semantics, not executed) and SQLite disagree on %s %s with %s on row %s' % (
        prov, 'the filter' if mode == 'filter' else 'the value of', L.src(e), {('x%d' % i): v for i, v in sorted(params.items())}, row)
    return Failure(key, what, {'provider': prov, 'expr': L.to_json(e), 'params': {str(i): v for i, v in params.items()}, 'row': row, 'mode': mode})


# ---- string slices / indexes: the machinery of check C25 (tools/props/c25.py, tools/sqlsem.py) judged the C02 way: the value
#      under the PostgreSQL / MySQL reading of the SQL the real builder produced vs the value on SQLite (py_string_slice)

def slice_agreement(ctx, deep):
    import props.c25 as c25
    vals = list(range(-3, 4)) if not deep else list(range(-5, 6))
    lens = list(range(0, 5))
    shapes = [('omit', None)] + [('const', z) for z in vals] + [('param', z) for z in vals] + [('expr', None)]
    cases = [{'form': 'slice', 'start': list(st), 'stop': list(sp)} for st in shapes for sp in shapes]
    cases += [{'form': 'index', 'start': list(st), 'stop': None} for st in shapes if st[0] != 'omit']
    failures, seen, evals = [], {}, 0
    for case in cases:
        ua = case['start'][0] == 'expr'; ub = bool(case['stop']) and case['stop'][0] == 'expr'
        for n in lens:
            for a in (vals if ua else [0]):
                for b in (vals if ub else [0]):
                    try:
                        base, _ = c25.eval_case('sqlite', dict(case, provider='sqlite'), n, a, b)
                    except Exception:
                        continue
                    for prov in ('postgres', 'mysql'):
                        evals += 1
                        try:
                            got, _ = c25.eval_case(prov, dict(case, provider=prov), n, a, b)
                        except Exception as ex:
                            got = 'EXC %s' % type(ex).__name__
                        if got != base:
                            st, sp = case['start'], case['stop']
                            av = st[1] if st[0] in ('const', 'param') else (a if ua else None)
                            bv = None if not sp else (sp[1] if sp[0] in ('const', 'param') else (b if ub else None))
                            key = 'slice:' + c25.classify(prov, case['form'], st, sp, av, bv, n)
                            seen[key] = seen.get(key, 0) + 1
                            if seen[key] <= 1:
                                what = '%s (documented substr semantics, not executed) gives %r, SQLite gives %r for %s with x=%r y=%r on name=%r a=%r b=%r' % (
                                    prov, got, base, c25.query_text(case), st[1], sp[1] if sp else None, c25.ALPHA[:n], a, b)
                                failures.append(Failure(key, what, {'slice': {'provider': prov, 'case': case, 'n': n, 'a': a, 'b': b}}))
    return evals, failures, seen


# ---- aggregates as whole-query results (Model/C01Aggr.v): the decoded value of the aggregate under the PostgreSQL / MySQL reading of the
#      AST the real translator produced for that provider vs the SQLite reading of the SQLite AST, over a fixed table

def aggr_table(rows):
    return [dict(r, id=i + 1) for i, r in enumerate(rows)]


def aggr_case(prov, g, filt, params, table):
    qa, conds, _, _ = A.translate(prov, g, filt, params)
    qb, condsb, _, _ = A.translate('sqlite', g, filt, params)
    tab = '[%s]' % '; '.join('mkenv %s PARAMS' % L.coq_rowfn(r) for r in table)
    return '(let PARAMS := %s in let TAB := %s in aval_eqb (deca_g %s (sql_aggr %s %s %s TAB)) (deca_g %s (sql_aggr DSqlite %s %s TAB)))' % (
        L._coq_fn(list(params.items())), tab, A.agg_coq(g), L.DN[prov], qa, conds, A.agg_coq(g), qb, condsb)


def aggr_key(prov, g, filt, params, table):
    if prov == 'postgres' and g[0] == 'agg' and g[1] in ('sum', 'avg') and L.ty_of(g[3]) == 'bool': return 'postgres-sum-avg-of-boolean'
    for e in (filt, g[3] if g[0] == 'agg' else None):
        if e is None: continue
        for row in table:
            k = dialect_key(e, row, params, prov)
            if not k.startswith('unlisted'): return k
    return 'unlisted:%s:aggregate:%s' % (prov, g[1] if g[0] == 'agg' else g[0])


def aggr_failure(prov, g, filt, params, table):
    what = '%s (documented semantics, not executed) and SQLite disagree on %s with %s over %d rows' % (
        prov, A.qsrc(g, filt), {('x%d' % i): v for i, v in sorted(params.items())}, len(table))
    return Failure(aggr_key(prov, g, filt, params, table), what, {'aggr': {'provider': prov, 'agg': A.to_json(g), 'filt': L.to_json(filt) if filt is not None else None,
                                                                            'params': {str(i): v for i, v in params.items()}, 'rows': table}})


def aggr_agreement(ctx, deep):
    table = aggr_table(search_rows(ctx, 8))
    queries = A.gen_queries(ctx, 40 if not deep else 400)
    exprs, meta = [], []
    for g, filt, params in queries:
        if any(e is not None and zero_div(e, row, params) for e in (filt, g[3] if g[0] == 'agg' else None) for row in table): continue
        for prov in ('postgres', 'mysql'):
            try: exprs.append(aggr_case(prov, g, filt, params, table)); meta.append((prov, g, filt, params))
            except Exception: continue
    bad = H.run_bools(ctx, exprs, name='aggr', header=A.AGGR_HEADER, jobs=4)
    failures, seen = [], {}
    for i in bad:
        prov, g, filt, params = meta[i]
        f = aggr_failure(prov, g, filt, params, table)
        seen[f.key] = seen.get(f.key, 0) + 1
        if seen[f.key] <= 1: failures.append(f)
    return len(exprs), failures, seen


def replay_aggr(ctx, d):
    g = A.from_json(d['agg']); filt = L.from_json(d['filt']) if d['filt'] is not None else None
    params = {int(k): v for k, v in d['params'].items()}
    try: case = aggr_case(d['provider'], g, filt, params, d['rows'])
    except Exception: return None
    if not H.run_bools(ctx, [case], name='replay_aggr', header=A.AGGR_HEADER): return None
    return aggr_failure(d['provider'], g, filt, params, d['rows'])


# ---- ordering (Model/C01Order.v): the ordered ids under the PostgreSQL / MySQL reading of that provider's ORDER BY / WHERE AST vs the SQLite reading

def order_case(prov, filt, keys, params, table):
    ka, ca, _, _, _ = O.translate(prov, filt, keys, None, params)
    kb, cb, _, _, _ = O.translate('sqlite', filt, keys, None, params)
    tab = '[%s]' % '; '.join('mkenv %s PARAMS' % L.coq_rowfn(r) for r in table)
    return '(let PARAMS := %s in let TAB := %s in %s (sql_order_rows %s %s %s (QCol 0) TAB) (sql_order_rows DSqlite %s %s (QCol 0) TAB))' % (
        L._coq_fn(list(params.items())), tab, O.QVS_EQB, L.DN[prov], ka, ca, kb, cb)


def order_key(prov, filt, keys, params, table):
    for e in [filt] + [k for k, _ in keys]:
        if e is None: continue
        for row in table:
            k = dialect_key(e, row, params, prov)
            if not k.startswith('unlisted'): return k
    if prov == 'postgres':
        for row in table:
            try:
                if filt is not None and not L.keeps(filt, row, params, True): continue
                if any(L.ref(k, row, params, True) is None for k, _ in keys): return 'order-by-null-placement-differs'
            except L.RefError:
                pass
    return 'unlisted:%s:order' % prov


def order_failure(prov, filt, keys, params, table):
    what = '%s (documented semantics, not executed) and SQLite return different orders for %s with %s over %d rows' % (
        prov, O.qsrc(filt, keys, None), {('x%d' % i): v for i, v in sorted(params.items())}, len(table))
    return Failure(order_key(prov, filt, keys, params, table), what, {'order': {'provider': prov, 'filt': L.to_json(filt) if filt is not None else None,
                   'keys': [[L.to_json(e), d] for e, d in keys], 'params': {str(i): v for i, v in params.items()}, 'rows': table}})


def order_agreement(ctx, deep):
    table = aggr_table(search_rows(ctx, 8))
    queries = O.gen_queries(ctx, 40 if not deep else 400)
    exprs, meta = [], []
    for filt, keys, proj, params in queries:
        if any(e is not None and zero_div(e, row, params) for e in [filt] + [k for k, _ in keys] for row in table): continue
        for prov in ('postgres', 'mysql'):
            try: exprs.append(order_case(prov, filt, keys, params, table)); meta.append((prov, filt, keys, params))
            except Exception: continue
    bad = H.run_bools(ctx, exprs, name='order', header=O.ORDER_HEADER, jobs=4)
    failures, seen = [], {}
    for i in bad:
        prov, filt, keys, params = meta[i]
        f = order_failure(prov, filt, keys, params, table)
        seen[f.key] = seen.get(f.key, 0) + 1
        if seen[f.key] <= 1: failures.append(f)
    return len(exprs), failures, seen


def replay_order(ctx, d):
    filt = L.from_json(d['filt']) if d['filt'] is not None else None
    keys = [(L.from_json(e), bool(s)) for e, s in d['keys']]
    params = {int(k): v for k, v in d['params'].items()}
    try: case = order_case(d['provider'], filt, keys, params, d['rows'])
    except Exception: return None
    if not H.run_bools(ctx, [case], name='replay_order', header=O.ORDER_HEADER): return None
    return order_failure(d['provider'], filt, keys, params, d['rows'])


# ---- the same query executed several times inside ONE db_session with different parameter values, on every dialect pipeline: the real
#      provider / builder / translator of PostgreSQL (pyformat, dict arguments), MySQL (format, tuple) and Oracle (named, dict) bound through the
#      repo's pool mock-up; the statement and the arguments Pony hands to the driver are recorded and replayed on an in-memory SQLite with
#      the same rows. Every execution must send a statement with the current values and return the Python answer (as SQLite does).

SESSION_ROWS = [(1, 'a', 1), (2, 'b', 2), (3, 'c', 3), (4, 'd', 4), (5, 'e', 5)]
SESSION_QUERIES = [
    ('s.name for s in S if s.n > x0', lambda x0, x1: sorted(name for _, name, n in SESSION_ROWS if n > x0)),
    ('(s.id, s.name) for s in S if s.name == x1 or s.n == x0', lambda x0, x1: sorted((i, name) for i, name, n in SESSION_ROWS if name == x1 or n == x0)),
    ('s.n for s in S if s.n in (x0, 5) and s.name != x1', lambda x0, x1: sorted(n for _, name, n in SESSION_ROWS if n in (x0, 5) and name != x1)),
]
SESSION_VALUES = [(1, 'a'), (3, 'c'), (2, 'e')]


def _session_db(prov):
    import sqlite3
    from pony import orm
    if prov == 'sqlite':
        db = orm.Database()
    else:
        vlib.stub_modules()
        from pony.orm.tests.testutils import TestDatabase
        class ReplayDatabase(TestDatabase):
            def __init__(self, *a, **k):
                TestDatabase.__init__(self, *a, **k)
                self.backend = sqlite3.connect(':memory:')
                self.backend.execute('CREATE TABLE s (id INTEGER PRIMARY KEY, name TEXT NOT NULL, n INTEGER NOT NULL)')
                self.backend.executemany('INSERT INTO s VALUES (?, ?, ?)', SESSION_ROWS)
                self.sent = []
            def _exec_sql(self, sql, arguments=None, returning_id=False):
                self.sent.append((sql, arguments))
                if isinstance(arguments, dict): replay = re.sub(r'%\((\w+)\)s', r':\1', sql).replace('%%', '%')
                else: replay = sql.replace('%s', '?').replace('%%', '%')
                return self.backend.execute(replay, arguments if arguments is not None else ())
        db = ReplayDatabase()
    class S(db.Entity):
        _table_ = 's'
        name = orm.Required(str)
        n = orm.Required(int)
    if prov == 'sqlite':
        db.bind('sqlite', ':memory:'); db.generate_mapping(create_tables=True)
        with orm.db_session:
            for i, name, n in SESSION_ROWS: S(id=i, name=name, n=n)
    else:
        if prov == 'oracle': db.bind('oracle', 'user/pwd@dsn')
        else: db.bind(prov, database='verif')
        db.generate_mapping()
    return db, S


def session_run(prov, qi, values):
    """-> None or a description of the first execution that does not return the Python answer / does not reach the driver."""
    from pony import orm
    db, S = _session_db(prov)
    src, want = SESSION_QUERIES[qi]
    with orm.db_session:
        for step, (x0, x1) in enumerate(values):
            before = len(getattr(db, 'sent', []))
            got = sorted(orm.select(src, {'S': S, 'x0': x0, 'x1': x1})[:])
            w = want(x0, x1)
            if got != w: return 'execution %d (x0=%r, x1=%r) returns %r, Python / SQLite give %r' % (step + 1, x0, x1, got, w)
            if prov != 'sqlite' and len([q for q, a in db.sent[before:] if q.lstrip().upper().startswith('SELECT')]) != 1:
                return 'execution %d (x0=%r, x1=%r) sent no statement to the driver' % (step + 1, x0, x1)
    return None


def session_failure(prov, qi, values, msg):
    what = '%s: select(%s) executed %d times in one db_session with (x0, x1) = %s: %s' % (prov, SESSION_QUERIES[qi][0], len(values), list(values), msg)
    return Failure('unlisted:%s:re-execution-in-one-session' % prov, what, {'session': {'provider': prov, 'query': qi, 'values': [list(v) for v in values]}})


def session_agreement(ctx):
    evals, failures = 0, []
    for prov in ('sqlite', 'postgres', 'mysql', 'oracle'):
        for qi in range(len(SESSION_QUERIES)):
            values = list(SESSION_VALUES); ctx.rng.shuffle(values)
            evals += len(values)
            try: msg = session_run(prov, qi, values)
            except Exception as ex: msg = 'raises %s: %s' % (type(ex).__name__, str(ex)[:120])
            if msg is not None:
                failures.append(session_failure(prov, qi, values, msg)); break
    return evals, failures


def replay_session(d):
    values = [tuple(v) for v in d['values']]
    try: msg = session_run(d['provider'], d['query'], values)
    except Exception as ex: msg = 'raises %s: %s' % (type(ex).__name__, str(ex)[:120])
    return None if msg is None else session_failure(d['provider'], d['query'], values, msg)


def replay_slice(d):
    import props.c25 as c25
    case, n, a, b, prov = d['case'], d['n'], d['a'], d['b'], d['provider']
    base, _ = c25.eval_case('sqlite', dict(case, provider='sqlite'), n, a, b)
    try: got, _ = c25.eval_case(prov, dict(case, provider=prov), n, a, b)
    except Exception as ex: got = 'EXC %s' % type(ex).__name__
    if got == base: return None
    st, sp = case['start'], case['stop']
    av = st[1] if st[0] in ('const', 'param') else (a if st[0] == 'expr' else None)
    bv = None if not sp else (sp[1] if sp[0] in ('const', 'param') else (b if sp[0] == 'expr' else None))
    return Failure('slice:' + c25.classify(prov, case['form'], st, sp, av, bv, n),
                   '%s (documented substr semantics) gives %r, SQLite gives %r for %s' % (prov, got, base, c25.query_text(case)), {'slice': d})


def search(ctx, deep):
    z = sizes(ctx, deep)
    rows = search_rows(ctx, z['search_rows'])
    inputs = H.generated_exprs(ctx, z['search_random'], z['search_enum'], 30 if not deep else 300)
    inputs += [(e, p, 'handmade') for e, p in H.HANDMADE + H.HANDMADE_UNTYPED + EXTRA]
    names = {i: 'ROW%d' % i for i in range(len(rows))}
    prelude = ''.join('Definition %s : nat -> pyv := %s.\n' % (names[i], L.coq_rowfn(r)) for i, r in enumerate(rows))
    exprs, meta = [], []
    dist = {'postgres': 0, 'mysql': 0, 'translator_raises': 0, 'skipped_zero_division_rows': 0}
    nontriv = set()
    for e, params, origin in inputs:
        t = L.ty_of(e)
        mode = 'filter' if (t == 'cond' or (t is not None and ctx.rng.random() < 0.3)) else 'project'
        for prov in ('postgres', 'mysql'):
            try:
                base = dialect_case(prov, e, params, rows[0], mode, 'ROWX')
            except Exception:
                dist['translator_raises'] += 1; continue
            for i, row in enumerate(rows):
                if zero_div(e, row, params): dist['skipped_zero_division_rows'] += 1; continue
                exprs.append(base.replace('ROWX', names[i]))
                meta.append((prov, e, params, row, mode)); dist[prov] += 1
            nontriv.add((prov, L.src(e)))
    bad = H.run_bools(ctx, exprs, name='search', prelude=prelude, jobs=8)
    failures, seen = [], {}
    for i in bad:
        prov, e, params, row, mode = meta[i]
        key = dialect_key(e, row, params, prov)
        seen[key] = seen.get(key, 0) + 1
        if seen[key] <= 1: failures.append(make_failure(prov, e, params, row, mode, key))
    dist['failing_rows_by_key'] = seen
    s_evals, s_fail, s_seen = slice_agreement(ctx, deep)
    failures += s_fail
    dist['slice_agreement'] = {'evaluations': s_evals, 'disagreeing_by_key': s_seen}
    a_evals, a_fail, a_seen = aggr_agreement(ctx, deep)
    failures += a_fail
    dist['aggregate_agreement'] = {'evaluations': a_evals, 'disagreeing_by_key': a_seen}
    r_evals, r_fail = session_agreement(ctx)
    failures += r_fail
    dist['same_session_reexecution'] = {'evaluations': r_evals, 'failing': len(r_fail)}
    o_evals, o_fail, o_seen = order_agreement(ctx, deep)
    failures += o_fail
    dist['order_agreement'] = {'evaluations': o_evals, 'disagreeing_by_key': o_seen}
    return Search(evaluations=len(exprs) + s_evals + a_evals + o_evals + r_evals, failures=failures, nontrivial=len(nontriv), distribution=dist, exhaustive=False,
                  samples=[{'case': exprs[len(exprs) // 2][:500]}] if exprs else [])


_replay_cache = {}


def _payload_key(data):
    return json.dumps(data, sort_keys=True, ensure_ascii=True)


def _replay_parts(data):
    e = L.from_json(data['expr'])
    params = {int(k): v for k, v in data['params'].items()}
    return data['provider'], e, params, data['row'], data['mode']


def replay(ctx, data):
    if 'slice' in data: return replay_slice(data['slice'])
    if 'aggr' in data: return replay_aggr(ctx, data['aggr'])
    if 'order' in data: return replay_order(ctx, data['order'])
    if 'session' in data: return replay_session(data['session'])
    return replay_expr(ctx, data)


def replay_expr(ctx, data):
    """One stored input. The recorded findings are evaluated together in one coqc run (cached) to keep the check fast."""
    key = _payload_key(data)
    if key not in _replay_cache:
        batch = [data] + [k['replay'] for k in vlib.known_for(ID) if k.get('replay') and 'slice' not in k['replay'] and 'aggr' not in k['replay'] and 'order' not in k['replay'] and 'session' not in k['replay'] and _payload_key(k['replay']) != key]
        cases, owners = [], []
        for d in batch:
            try:
                prov, e, params, row, mode = _replay_parts(d)
                cases.append(dialect_case(prov, e, params, row, mode)); owners.append(_payload_key(d))
            except Exception:
                _replay_cache[_payload_key(d)] = False
        bad = set(H.run_bools(ctx, cases, name='replay'))
        for i, k in enumerate(owners): _replay_cache[k] = i in bad
    if not _replay_cache.get(key): return None
    prov, e, params, row, mode = _replay_parts(data)
    return make_failure(prov, e, params, row, mode, dialect_key(e, row, params, prov))


LEVEL_TEXT = ('Machine-checked proof (Coq 8.16.1) that on the C01 expression grammar the SQL generated for SQLite, PostgreSQL and MySQL computes the same answer on any two '
              'of them (selected values, kept rows, whole result lists) under the per-dialect semantics, as a corollary of the C01 induction proof; and that each dialect\'s '
              'way of writing "no limit" with an offset returns exactly the rows after the offset; on the explicit complement of the recorded per-dialect defect classes refuted by '
              'witnesses (MySQL `/` and length(), PostgreSQL least / greatest, NOT coalesce(x, true), CASE / coalesce over boolean and integer). The translation model and a '
              'text-rendering model of the four builders are compared with the real translator / builders on every run. The agreement is also proved for queries with '
              'attribute paths through to-one references (C02_agree_join_rows) and with conditions over a to-many collection - EXISTS / IN / NOT IN / COUNT subqueries '
              '(C02_agree_collection_rows, C02_agree_collection_formula_rows, C02_agree_collection_len_rows), for GROUP BY with selected aggregates (C02_agree_group_rows), for ordering '
              '(C02_agree_order_rows: except a None key where SQLite / MySQL and PostgreSQL sort NULL to different ends, refuted) and for aggregates as whole-query results (C02_agree_aggregate, except PostgreSQL\'s missing sum / avg of a boolean, refuted); their '
              'FROM / subquery / aggregate models are tied structurally on the four providers by check C01.')
LEVEL_NOTE = ('Partial: nothing executes on PostgreSQL / MySQL / MariaDB / Oracle here - their semantics are documentation models (trusted); SQLite is validated against the '
              'linked library. Oracle and the JSON / array / date operators are covered at most at text level; collations are assumed binary.')
TECHNIQUE = 'Coq corollary of the C01 induction proof over per-dialect evaluators; vm_compute structural + text correspondence on four providers; model-level differential search'
DESIGN_REF = 'DESIGN.md section 5, C02'
