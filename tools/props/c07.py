"""C07 - Stored attribute values read back unchanged for every type."""
import datetime as dt, json, math, os, uuid
from decimal import Decimal
import vlib
from vlib import Corr, Search, Failure, cz, cbool, copt, clist
from py2coq import codecs
import c07_impl as impl

ID = 'C07'
LEVEL = 'proof'
PROPS = ['Props/C07.v', 'Findings/C07.v']
GEN = [('Gen/C07Codec.v', codecs.generate)]
TRUSTED = [
    'py2coq translator (tools/py2coq/core.py, convvalidate.py, codecs.py): round_microseconds_to_precision, timedelta2str, datetime2timestamp, timestamp2datetime are re-translated from /repo on '
    'every run; SQLite Time/Date/Datetime converter py2sql/sql2py and the keep-as-is condition of JsonConverter.validate / ArrayConverter.validate by shape-checked templates; str2timedelta, SQLiteDecimalConverter, SQLiteTimedeltaConverter, the *.validate rounding calls and '
    'UuidConverter.py2sql are hand-modelled against a pinned source text (a changed source refuses the run)',
    'reference models of CPython library functions (Model/C07Base.v, C07Fmt.v): %d/%02d/%04d/%06d formatting, int() on ASCII digit strings, str.split, time/datetime.isoformat, '
    'date.strftime("%Y-%m-%d") (glibc: year not zero-padded), strptime on the fixed-width forms the encoders produce, the timedelta constructor normalisation, Decimal.quantize(ROUND_HALF_EVEN), '
    'UUID.bytes (big endian): each compared with CPython on every run, none verified further',
    '"the database hands back what it was given" for TEXT/BLOB/INTEGER columns; the NUMERIC/REAL storage of Decimal and timedelta values by SQLite is NOT modelled (only tested: see partial)',
]
ASSUMPTIONS = [
    'text read from the database was written by py2sql of the same converter (strptime leniency for 1-digit fields, non-ASCII digits, surrounding whitespace in int() are outside the model)',
    'timedelta values are normalised (0 <= seconds < 86400, 0 <= microseconds < 10^6) - datetime.timedelta guarantees it; the bound |days| <= 999999999 is not used',
    'Decimal arithmetic context has enough precision (default 28 digits) for the quantize results; Decimal NaN/Infinity are outside the Decimal theorems',
    'only the SQLite provider is executed; PostgreSQL/MySQL/Oracle drivers are not available',
]
RULE = ('codec correspondence: every modelled function is run in CPython//repo on boundary grids (timedelta: days x seconds x microseconds incl. negative and extreme; datetime/date/time: calendar and field extremes, '
        'years below 1000; precisions 0..6 x microsecond edges; Decimal scales 2/4/10 x digits below/at/above the scale and half-way cases; UUID extremes; malformed strings) and compared inside vm_compute. '
        'search: a real write -> commit -> new Database object -> read sweep on a file-backed SQLite database over ~30 attribute declarations (every type, sizes, precisions, scales) x boundary values, '
        'comparing value and type seen after flush with the reloaded value, a projection query and a lookup by value. non-trivial = the written value is not None/empty and differs from the type default; '
        'distinct = distinct (attribute, value)')


# ------------------------------------------------------------------------------------------------ Coq literals

def cstrz(s):
    if isinstance(s, (bytes, bytearray)): return '[' + '; '.join('%d' % b for b in s) + ']'
    return '[' + '; '.join('%d' % ord(c) for c in s) + ']'

def ctd(t): return '(%s, %s, %s)' % (cz(t.days), cz(t.seconds), cz(t.microseconds))
def cdate(d): return '(mkd %s %s %s)' % (cz(d.year), cz(d.month), cz(d.day))
def ctime(t): return '(mkt %s %s %s %s)' % (cz(t.hour), cz(t.minute), cz(t.second), cz(t.microsecond))
def cdt(d): return '(mkdt %s %s %s %s %s %s %s)' % tuple(cz(x) for x in (d.year, d.month, d.day, d.hour, d.minute, d.second, d.microsecond))
def cdec(d):
    sign, digits, exp = d.as_tuple()
    n = int(''.join(map(str, digits)) or '0') * (-1 if sign else 1)
    return '(%s, %s)' % (cz(n), cz(exp))
def cjv(v):
    """A Python JSON value (no floats) as a Model/C07Json.v term; dict items in key order (sort_keys=True)."""
    if v is None: return 'JNull'
    if v is True: return '(JBool true)'
    if v is False: return '(JBool false)'
    if isinstance(v, int): return '(JInt %s)' % cz(v)
    if isinstance(v, str): return '(JStr %s)' % cstrz(v)
    if isinstance(v, (list, tuple)): return '(JList [%s])' % '; '.join(cjv(x) for x in v)
    if isinstance(v, dict): return '(JDict [%s])' % '; '.join('(%s, %s)' % (cstrz(k), cjv(v[k])) for k in sorted(v))
    raise ValueError('not in the modelled JSON subset: %r' % (v,))

JSON_VALUES = [None, True, False, 0, 7, -7, 2 ** 70, -2 ** 63, '', 'x', 'quote" and \\ backslash', 'ctrl\x00\x01\x08\t\n\x0b\x0c\r\x1f end', '/slash', 'é∑😀 \x7f\x80\u2028',
               [], [[]], [1, 2, 3], [None, True, 'a', [1, ['b']]], {}, {'a': 1}, {'b': [1, {'c': None}], 'a': 'x', 'é': {}, '': ''}, {'k"\\\n': ['v\t']},
               [{'n': 1, 'tags': ['x'], 'opts': {'a': True}}, {'n': 0, 'tags': [], 'opts': {}}], {'a': {'b': {'c': {'d': [[[1]]]}}}}, [10, 200, -3000, 40000000000000000000000]]
JSON_MALFORMED = ['', '[', '[1,]', '[1 2]', '{"a"}', '{"a":}', '{a:1}', 'nul', 'tru', '"abc', '"\\x"', '"\\u12"', '"raw\ncontrol"', '[1]]', '{"a":1,}', '-', '--1', '[,]', 'None', "'a'"]

def cres(r, f):
    return '(RStr %s)' % cstrz(r) if isinstance(r, str) else '(RVal %s)' % f(r)

HEADER = ('From Coq Require Import PrimFloat Uint63.\nRequire Import PonyV.Base.PyBase PonyV.Model.C07Base PonyV.Model.C07Fmt PonyV.Gen.C07Codec PonyV.Model.C07Codec PonyV.Model.C07Corr PonyV.Model.C07Float PonyV.Model.C07Json.\n'
          'Open Scope Z_scope.\n')


def run_bools(ctx, exprs, chunk=700):
    chunks, starts, cur, size = [], [], [], 0
    def flush():
        if cur:
            chunks.append('\n'.join('Definition c%d : bool := %s.' % (k, e) for k, e in enumerate(cur)) +
                          '\nEval vm_compute in (failing [%s]).\n' % '; '.join('c%d' % k for k in range(len(cur))))
    for i, e in enumerate(exprs):
        e = e.replace('%Z', '')
        if cur and (size + len(e) > 110000 or len(cur) >= chunk):
            flush(); cur, size = [], 0
        if not cur: starts.append(i)
        cur.append(e); size += len(e)
    flush()
    chunks.append('Require Import PonyV.Findings.C07.\nEval vm_compute in C07_flags.\n')
    outs = vlib.coq_eval_many(ctx, HEADER, chunks, name='c07cases')
    bad = []
    for k, out in enumerate(outs[:-1]):
        vals = vlib.parse_eval_outputs(out)
        assert len(vals) == 1, out[-500:]
        inner = vals[0].strip().strip('[]').strip()
        if inner:
            for tok in inner.split(';'):
                bad.append(starts[k] + int(tok.strip().replace('%nat', '')))
    vals = vlib.parse_eval_outputs(outs[-1])
    flags = [t.strip() == 'true' for t in vals[0].strip('() ').split(',')] if vals else None
    return bad, flags


# ------------------------------------------------------------------------------------------------ value grids

def td_grid(thorough):
    days = [0, 1, -1, 2, -2, 99999, -99999, 999999999, -999999999, 1000000]
    secs = [0, 1, 59, 60, 3599, 3600, 86399]
    uss = [0, 1, 999999, 500000, 100]
    if thorough: days += [7, -7, 365, -365, 123456789]; secs += [61, 3601, 43200]; uss += [10, 999, 1000, 123456]
    for d in days:
        for s in secs:
            for u in uss:
                yield dt.timedelta(d, s, u)

DATES = [(1, 1, 1), (9, 9, 9), (99, 12, 31), (999, 12, 31), (1000, 1, 1), (1582, 10, 15), (1900, 2, 28), (2000, 2, 29), (2024, 2, 29), (2023, 2, 28),
         (2024, 12, 31), (2038, 1, 19), (9999, 12, 31), (2021, 4, 30), (2021, 1, 31)]
TIMES = [(0, 0, 0, 0), (23, 59, 59, 999999), (1, 2, 3, 0), (1, 2, 3, 1), (12, 0, 0, 500000), (9, 9, 9, 999000), (0, 0, 0, 999), (23, 0, 59, 123456), (7, 59, 0, 100000)]
MALFORMED_TS = ['', 'garbage', '2020-01-02', '2020-01-02T03:04:05', '2020-01-02 03:04:05', '2020-01-02 03:04:05.12', '2020-01-02 03:04:05.1234567',
                '2021-02-30 00:00:00.000000', '0000-01-01 00:00:00.000000', '2020-13-01 00:00:00.000000', '2020-01-02 24:00:00.000000',
                '2020-01-02 03:04:05x123456', '2020-01-02 03:04:05.abc', '2020-01-02 03:04:60.000000', '2020-01-02 03:60:00.000000', '2020/01/02 03:04:05.000000',
                '2020-01-02 03:04:05.-12345']
MALFORMED_TD = ['', '1:2', '1:2:3:4', 'a:b:c', '1:2:3.', '1:2:3.5', '1:2:3.1234567', '-0:0:0.000001', '1.5:2:3', '1:2:3.4.5', '-1:-2:3', '1:2:3.-5', '-:1:2', '1::2',
                '0:0:0', '-0:0:0', '007:08:09', '24:00:00', '1:2:3.000000', '-1:2:3.999999', ':::', '1:2:x']
MALFORMED_DATE = ['', '999-12-31', '2020-02-30', '2020-01-02', '2020-01-02 trailing', '20200102', '2020-13-01', '0000-01-01', 'abcd-ef-gh', '2020-01-0x']
MALFORMED_TIME = ['', '01:02:03', '01:02:03.000001', '24:00:00', '01:02:60', 'ab:cd:ef', '01:02:03.1234567', '01-02-03', '23:59:59.999999']


def pyres(fn, *a):
    try: return fn(*a)
    except Exception: return None


# ------------------------------------------------------------------------------------------------ correspondence (Tie B)

def correspondence(ctx):
    from pony.converting import timedelta2str, str2timedelta
    from pony.utils import datetime2timestamp, timestamp2datetime
    conv = impl.converters()
    exprs, meta = [], []
    dist = {}
    def add(kind, expr, inp, out):
        exprs.append(expr); meta.append((kind, inp, out)); dist[kind] = dist.get(kind, 0) + 1
    disagreements = []
    nontrivial = set()
    rng = ctx.rng

    # 1-4: decimal printing / parsing / split
    ns = list(range(0, 21)) + [59, 60, 99, 100, 101, 999, 1000, 9999, 10 ** 6 - 1, 10 ** 6, 23999999999, 10 ** 18, 2 ** 64, 10 ** 30 + 7] + [rng.randrange(10 ** 12) for _ in range(30)]
    for n in ns:
        add('print_nat', 'chk_print %s %s' % (cz(n), cstrz('%d' % n)), n, '%d' % n)
        if int('%d' % n) != n: disagreements.append({'what': 'int(%d) broken?!', 'input': n})
    for n in range(100): add('d2', 'chk_d2 %s %s' % (cz(n), cstrz('%02d' % n)), n, '%02d' % n)
    for n in list(range(0, 10000, 97)) + [9999, 1000, 999, 100, 99, 10, 9]: add('d4', 'chk_d4 %s %s' % (cz(n), cstrz('%04d' % n)), n, '%04d' % n)
    for n in list(range(0, 10 ** 6, 9973)) + [999999, 100000, 99999, 10, 9, 1]: add('d6', 'chk_d6 %s %s' % (cz(n), cstrz('%06d' % n)), n, '%06d' % n)
    for s in ['0', '-0', '007', '-12', '', '-', 'a', '1a', '12345678901234567890', '-007', '--1', '1-', '000000', '-50000']:
        r = pyres(int, s) if s.strip() == s and '_' not in s and '+' not in s else None
        add('int', 'chk_int %s %s' % (cstrz(s), copt(r, cz)), s, r)
    for s in ['', 'a', 'a:b', ':a', 'a:', '::', 'a:b:c', '1:2:3.5', '-1:2:3', 'no separators', ':a::b:']:
        for c in (':', '.'):
            add('split', 'chk_split %d %s %s' % (ord(c), cstrz(s), clist(s.split(c), cstrz)), [s, c], s.split(c))

    # 5-6: timedelta2str / str2timedelta
    tds = list(td_grid(ctx.thorough))
    for t in tds:
        s = timedelta2str(t)
        add('timedelta2str', 'chk_td2str %s %s' % (ctd(t), cstrz(s)), str(t), s)
        r = pyres(str2timedelta, s)
        add('str2timedelta', 'chk_str2td %s %s' % (cstrz(s), copt(r, ctd)), s, str(r))
        nontrivial.add(('td', t.days, t.seconds, t.microseconds))
    for s in MALFORMED_TD:
        r = pyres(str2timedelta, s)
        add('str2timedelta', 'chk_str2td %s %s' % (cstrz(s), copt(r, ctd)), s, str(r))

    # 7-8: datetime, date, time codecs and the SQLite converters
    dts = [dt.datetime(*(d + t)) for d in DATES for t in TIMES]
    for d in dts:
        s = datetime2timestamp(d)
        s2 = conv['dtm'].py2sql(d)
        if s != s2: disagreements.append({'what': 'SQLiteDatetimeConverter.py2sql is not datetime2timestamp', 'input': str(d), 'impl': [s, s2]})
        add('datetime2timestamp', 'chk_dt2ts %s %s' % (cdt(d), cstrz(s)), str(d), s)
        r = pyres(timestamp2datetime, s)
        add('timestamp2datetime', 'chk_ts2dt %s %s' % (cstrz(s), copt(r, cdt)), s, str(r))
        add('sqlite_datetime_sql2py', 'chk_dt_sql2py %s %s' % (cstrz(s), cres(conv['dtm'].sql2py(s), cdt)), s, str(conv['dtm'].sql2py(s)))
        nontrivial.add(('dt', s))
    for s in MALFORMED_TS:
        r = pyres(timestamp2datetime, s)
        add('timestamp2datetime', 'chk_ts2dt %s %s' % (cstrz(s), copt(r, cdt)), s, str(r))
        add('sqlite_datetime_sql2py', 'chk_dt_sql2py %s %s' % (cstrz(s), cres(conv['dtm'].sql2py(s), cdt)), s, str(conv['dtm'].sql2py(s)))
    for d in DATES:
        d = dt.date(*d)
        s = conv['da'].py2sql(d)
        add('sqlite_date_py2sql', 'chk_date_py2sql %s %s' % (cdate(d), cstrz(s)), str(d), s)
        add('sqlite_date_sql2py', 'chk_date_sql2py %s %s' % (cstrz(s), cres(conv['da'].sql2py(s), cdate)), s, str(conv['da'].sql2py(s)))
        nontrivial.add(('date', s))
    for s in MALFORMED_DATE:
        add('sqlite_date_sql2py', 'chk_date_sql2py %s %s' % (cstrz(s), cres(conv['da'].sql2py(s), cdate)), s, str(conv['da'].sql2py(s)))
    for t in TIMES:
        t = dt.time(*t)
        s = conv['ti'].py2sql(t)
        add('sqlite_time_py2sql', 'chk_time_py2sql %s %s' % (ctime(t), cstrz(s)), str(t), s)
        add('sqlite_time_sql2py', 'chk_time_sql2py %s %s' % (cstrz(s), cres(conv['ti'].sql2py(s), ctime)), s, str(conv['ti'].sql2py(s)))
        nontrivial.add(('time', s))
    for s in MALFORMED_TIME:
        add('sqlite_time_sql2py', 'chk_time_sql2py %s %s' % (cstrz(s), cres(conv['ti'].sql2py(s), ctime)), s, str(conv['ti'].sql2py(s)))

    # 9-10: precision rounding
    uss = [0, 1, 9, 10, 11, 99, 100, 101, 999, 1000, 1001, 9999, 10000, 99999, 100000, 123456, 500000, 999000, 999900, 999990, 999999]
    for p in range(0, 7):
        for us in uss:
            r = conv['ti'].round_microseconds_to_precision(us, p)
            add('round_us', 'chk_round %d %s %s' % (p, cz(us), copt(r, cz)), [p, us], r)
            nontrivial.add(('round', p, us))
    for name, p in (('ti0', 0), ('ti3', 3), ('ti', 6)):
        for t in TIMES:
            t = dt.time(*t); r = conv[name].validate(t)
            add('validate_time', 'chk_validate_time %d %s %s' % (p, ctime(t), ctime(r)), [p, str(t)], str(r))
    for name, p in (('dtm0', 0), ('dtm3', 3), ('dtm', 6)):
        for d in dts[::7]:
            r = conv[name].validate(d)
            add('validate_datetime', 'chk_validate_dt %d %s %s' % (p, cdt(d), cdt(r)), [p, str(d)], str(r))
    for name, p in (('td0', 0), ('td3', 3), ('td', 6)):
        for t in tds[::5]:
            r = conv[name].validate(t)
            add('validate_timedelta', 'chk_validate_td %d %s %s' % (p, ctd(t), ctd(r)), [p, str(t)], str(r))

    # 11: Decimal quantize-on-store
    decs = ['0', '-0', '0.01', '-0.01', '1.5', '1.50', '1.239', '0.125', '0.135', '-0.005', '0.005', '0.015', '2.675', '-2.675', '1E+5', '12345.678951', '0.00005', '0.00015',
            '9999999999.99', '-9999999999.994', '0.99999999995', '7', '-7.00000000005', '1234567890123456.78915', '0.5', '1.5E-7', '123E-1']
    for name, scale in (('d2', 2), ('d4', 4), ('d10', 10)):
        for s in decs:
            v = Decimal(s)
            out = Decimal(conv[name].py2sql(v))
            add('decimal_py2sql', 'chk_dec_py2sql %d %s %s' % (scale, cdec(v), cdec(out)), [scale, s], str(out))
            back = conv[name].sql2py(str(out))
            add('decimal_sql2py', 'chk_dec_sql2py %d %s %s' % (scale, cdec(out), cdec(back)), [scale, str(out)], str(back))
            back2 = conv[name].sql2py(s)
            add('decimal_sql2py', 'chk_dec_sql2py %d %s %s' % (scale, cdec(v), cdec(back2)), [scale, s], str(back2))
            add('decimal_eq', 'chk_dec_eq %s %s %s' % (cdec(v), cdec(out), cbool(v == out)), [s, str(out)], v == out)
            nontrivial.add(('dec', scale, s))

    # 12-13: UUID, bool
    us_ = [uuid.UUID(int=0), uuid.UUID(int=1), uuid.UUID(int=2 ** 128 - 1), uuid.UUID(int=2 ** 127), uuid.UUID(int=255), uuid.UUID(int=256)] + \
          [uuid.UUID(int=rng.getrandbits(128)) for _ in range(20)]
    for u in us_:
        b = bytes(conv['u'].py2sql(u))
        if conv['u'].sql2py(b) != u: disagreements.append({'what': 'UuidConverter.sql2py(py2sql(u)) != u', 'input': str(u)})
        add('uuid', 'chk_uuid %s %s' % (cz(u.int), cstrz(b)), str(u), b.hex())
        nontrivial.add(('uuid', u.int))
    for b in (True, False):
        z = int(conv['b'].py2sql(b))
        if conv['b'].sql2py(z) is not b: disagreements.append({'what': 'BoolConverter.sql2py(int(py2sql(b))) is not b', 'input': b})
        add('bool', 'chk_bool %s %s' % (cbool(b), cz(z)), b, z)
    for name in ('i8', 'i64', 's', 'by'):
        for v in ([-128, 127, 0] if name == 'i8' else [2 ** 63 - 1, -2 ** 63] if name == 'i64' else ['', 'x\x00é'] if name == 's' else [b'', b'\x00\xff']):
            if conv[name].sql2py(conv[name].py2sql(v)) != v:
                disagreements.append({'what': '%s converter: sql2py(py2sql(v)) != v' % name, 'input': repr(v)})
            dist['identity_converters'] = dist.get('identity_converters', 0) + 1

    # 15: SQLite float storage of timedelta, bit for bit (PrimFloat model); 16: Oracle/MySQL interval storage of time, Oracle bool
    ci = lambda n: '%d%%uint63' % n
    fgrid = [t for t in tds if abs(t.days) < 50000000] + [dt.timedelta(days=77680, seconds=35904, microseconds=138270), dt.timedelta(days=-3, seconds=5, microseconds=7),
                                                           dt.timedelta(days=52125, microseconds=1), dt.timedelta(days=20000, seconds=86399, microseconds=999999)]
    for t in fgrid:
        x = conv['td'].py2sql(t)
        fm, fe = math.frexp(abs(x))
        mant, ex = (0, 0) if x == 0 else (int(fm * 2 ** 53), fe + 2101)
        back = conv['td'].sql2py(x)
        tot = back // dt.timedelta(microseconds=1)
        add('timedelta_float', 'chk_td_float %s %s %s %s %s %s %s %s %s' % (cbool(t.days < 0), ci(abs(t.days)), ci(t.seconds), ci(t.microseconds), cbool(x < 0), ci(mant), ci(ex),
                                                                            cbool(tot < 0), ci(abs(tot))), str(t), [x.hex(), str(back)])
        nontrivial.add(('tdfloat', t.days, t.seconds, t.microseconds))
    vlib.stub_modules()
    from pony.orm.dbproviders import oracle as ora, mysql as my
    for t in TIMES:
        t = dt.time(*t)
        td_ = ora.OraTimeConverter.py2sql(None, t)
        r1, r2 = ora.OraTimeConverter.sql2py(None, td_), my.MySQLTimeConverter.sql2py(None, td_)
        if r1 != t or r2 != t: disagreements.append({'what': 'Oracle/MySQL time converter does not give the time back', 'input': str(t), 'impl': [str(r1), str(r2)]})
        add('interval_time', 'chk_ora_time %s %s' % (ctime(t), ctd(td_)), str(t), str(td_))
    for td_ in [dt.timedelta(0), dt.timedelta(seconds=86399, microseconds=999999), dt.timedelta(days=1), dt.timedelta(days=1, seconds=1), dt.timedelta(microseconds=-1), dt.timedelta(hours=13, minutes=7)]:
        try: r = my.MySQLTimeConverter.sql2py(None, td_)
        except Exception: r = None
        add('interval_time', 'chk_interval_time %s %s' % (ctd(td_), copt(r if isinstance(r, dt.time) else None, ctime)), str(td_), str(r))
    for b in (True, False):
        z = ora.OraBoolConverter.py2sql(None, b)
        add('ora_bool', 'chk_ora_bool %s %s' % (cbool(b), cz(z)), b, z)
        if ora.OraBoolConverter.sql2py(None, z) is not b: disagreements.append({'what': 'OraBoolConverter round trip', 'input': b})

    # 17: json.dumps / json.loads as the Json and array converters call them
    jc = conv['j']
    for v in JSON_VALUES:
        text = jc.val2dbval(v)
        add('json_dumps', 'chk_dumps %s %s' % (cjv(v), cstrz(text)), repr(v)[:80], text[:120])
        back = json.loads(text)
        if back != v: disagreements.append({'what': 'json.loads(json.dumps(v)) != v in CPython', 'input': repr(v)[:100]})
        add('json_loads', 'chk_loads %s (Some %s)' % (cstrz(text), cjv(back)), text[:120], repr(back)[:80])
        nontrivial.add(('json', text[:60]))
    for v in ([], [0], [1, 2 ** 63 - 1, -2 ** 63], ['a', 'é"\\', "q'"]):
        text = conv['ia' if not v or isinstance(v[0], int) else 'sa'].val2dbval(v)
        add('json_dumps', 'chk_dumps %s %s' % (cjv(v), cstrz(text)), repr(v), text)
    for text in JSON_MALFORMED:
        try: json.loads(text); ok = True
        except ValueError: ok = False
        if ok: disagreements.append({'what': 'a text of the malformed list is accepted by CPython json.loads', 'input': text}); continue
        add('json_loads', 'chk_loads %s None' % cstrz(text), text, None)

    # 14: JsonConverter.validate / ArrayConverter.validate on plain values and on values tracked by this / another object / another attribute
    def ctv(w):
        if w is not None and w[0] == 'W': return '(TWrapped %s)' % ctv(w[1])
        return '(TPlain 0)' if w is None else '(TTracked %d %d 0)' % w
    for kind, label, obj, attr, vw, kept, rw in impl.tracked_validate_cases():
        fn = 'chk_json_validate' if kind == 'json' else 'chk_array_validate'
        if rw is None:
            disagreements.append({'what': '%s converter validate returned an untracked value for a bound attribute' % kind, 'input': label}); continue
        add('tracked_validate', '%s %d %d %s %s %d %d' % (fn, obj, attr, ctv(vw), cbool(kept), rw[0], rw[1]), [kind, label, vw], [kept, rw])
        nontrivial.add(('tracked', kind, label))

    bad, flags_model = run_bools(ctx, exprs)
    for i in bad[:20]:
        kind, inp, out = meta[i]
        disagreements.append({'what': 'model and implementation differ (%s)' % kind, 'input': inp, 'impl': out, 'coq_case': exprs[i][:1200]})
    flags_impl = [isinstance(conv['ti'].sql2py(conv['ti'].py2sql(dt.time(1, 2, 3))), str), len(conv['da'].py2sql(dt.date(999, 12, 31))) == 10]
    dist['flags(time_reloads_as_str, date_text_pads_year)'] = {'model': flags_model, 'implementation': flags_impl}
    if flags_model != flags_impl:
        disagreements.append({'what': 'defect flag computed from the translated model differs from the real implementation', 'input': 'C07_flags', 'model': flags_model, 'impl': flags_impl})
    return Corr(cases=len(exprs), nontrivial=len(nontrivial), disagreements=disagreements,
                samples=[{'coq_case': exprs[len(ns)][:200]}, {'timedelta': str(tds[17]), 'timedelta2str': timedelta2str(tds[17])}], distribution=dist,
                note='every case is a boolean computed by vm_compute inside Coq from the model and the serialised output of the real function/converter')


# ------------------------------------------------------------------------------------------------ search: write -> commit -> new session -> read

def int_range(size, unsigned):
    return (0, 2 ** size - 1) if unsigned else (-2 ** (size - 1), 2 ** (size - 1) - 1)


def sweep_items(ctx, deep):
    rng = ctx.rng
    items = []
    def add(name, vals):
        for v in vals: items.append((name, v))
    add('b', [True, False])
    for name, size, uns in (('i8', 8, False), ('i16', 16, False), ('i24', 24, False), ('i32', 32, False), ('i64', 64, False), ('u8', 8, True), ('u16', 16, True), ('u32', 32, True)):
        lo, hi = int_range(size, uns)
        add(name, sorted({lo, lo + 1, -1 if not uns else 1, 0, 1, hi - 1, hi}))
    add('f', [0.0, -0.0, 5e-324, 2.2250738585072014e-308, 1e308, 1.7976931348623157e308, -1.7976931348623157e308, float('inf'), float('-inf'), float('nan'), 0.1, 1 / 3,
              123456789.12345679, float(2 ** 53 + 2), 1e-320, -1.5])
    add('d2', [Decimal(s) for s in ('0', '0.01', '-0.01', '1.50', '9999999999.99', '-9999999999.99', '1E+5', '1.5', '7', '1.239', '0.125', '0.135', '-0.005', '0.005', '2.675', '-0.00')])
    add('d4', [Decimal(s) for s in ('0.0001', '1234567890123456.7891', '123456789012.3456', '99999999999.9999', '1.23456', '0.00005', '-1.00015')])
    add('d10', [Decimal(s) for s in ('0.0000000001', '123456789012345678.0123456789', '1.00000000005', '3.1415926535', '12345.6789012345')])
    add('s', ['', 'x', '  x ', 'é∑😀', 'a\x00b', "q'uo\"te", '%_\\', 'x' * 100000, 'line\nbreak\ttab', ' '])
    add('sns', [' x ', ' ', 'x'])
    add('ls', ['', 'y' * 200000, ' z '])
    add('by', [b'', b'\x00\xff', bytes(range(256)), b'abc'])
    add('da', [dt.date(*d) for d in DATES])
    for name in ('ti', 'ti0', 'ti3'): add(name, [dt.time(*t) for t in TIMES])
    for name in ('dtm', 'dtm0', 'dtm3'):
        add(name, [dt.datetime(1, 1, 1), dt.datetime(999, 12, 31, 23, 59, 59, 999999), dt.datetime(1000, 1, 1, 0, 0, 0, 1), dt.datetime(2024, 2, 29, 12, 30, 15, 500000),
                   dt.datetime(9999, 12, 31, 23, 59, 59, 999999), dt.datetime(2038, 1, 19, 3, 14, 8), dt.datetime(1970, 1, 1), dt.datetime(2020, 5, 17, 1, 2, 3, 999)])
    tdv = [dt.timedelta(0), dt.timedelta(microseconds=1), dt.timedelta(microseconds=-1), dt.timedelta(days=1), dt.timedelta(days=-1), dt.timedelta(seconds=86399, microseconds=999999),
           dt.timedelta(days=99999, seconds=86399, microseconds=999999), dt.timedelta(days=1000000, microseconds=1), dt.timedelta(days=-1000000, microseconds=1),
           dt.timedelta(days=999999999, seconds=86399, microseconds=999999), dt.timedelta(days=-999999999), dt.timedelta(days=3, microseconds=123457), dt.timedelta(hours=1, microseconds=500)]
    for name in ('td', 'td0', 'td3'): add(name, tdv)
    add('u', [uuid.UUID(int=0), uuid.UUID(int=2 ** 128 - 1), uuid.UUID(int=2 ** 127), uuid.UUID('12345678-1234-5678-1234-567812345678')])
    add('j', [{'a': [1, 2.5, None, 'x'], 'b': {'c': True}}, [1, 2], 'str', 1.5, 7, True, {'k': 2 ** 70}, {'é': 'ü😀'}, '', [], {}, [None], 1e308, {'nested': [[[]]]}, 'null', -0.0])
    add('ia', [[], [0], [1, 2 ** 63 - 1, -2 ** 63], [5] * 50])
    add('sa', [[], [''], ['a', 'é"\\', "q'"], ['x' * 1000]])
    add('fa', [[], [1.5, 1e308, -0.0, 5e-324], [0.1, 1 / 3]])
    if deep:
        for _ in range(150):
            items.append(('i64', rng.randrange(-2 ** 63, 2 ** 63)))
            items.append(('f', rng.uniform(-1e6, 1e6)))
            items.append(('td', dt.timedelta(days=rng.randrange(-200000, 200000), seconds=rng.randrange(86400), microseconds=rng.randrange(10 ** 6))))
            items.append(('dtm', dt.datetime(rng.randrange(1, 10000), rng.randrange(1, 13), rng.randrange(1, 29), rng.randrange(24), rng.randrange(60), rng.randrange(60), rng.randrange(10 ** 6))))
            items.append(('da', dt.date(rng.randrange(1, 10000), rng.randrange(1, 13), rng.randrange(1, 29))))
            items.append(('d2', Decimal(rng.randrange(-10 ** 9, 10 ** 9)) / Decimal(10 ** rng.randrange(0, 5))))
            items.append(('u', uuid.UUID(int=rng.getrandbits(128))))
            items.append(('s', ''.join(chr(rng.choice([rng.randrange(32, 127), rng.randrange(0xa0, 0x800), rng.randrange(0x1F600, 0x1F640)])) for _ in range(rng.randrange(1, 12)))))
    return items

LOOKUPS = {'b', 'i8', 'i16', 'i24', 'i32', 'i64', 'u8', 'u16', 'u32', 'd2', 'd4', 's', 'sns', 'by', 'da', 'ti', 'ti0', 'ti3', 'dtm', 'dtm0', 'dtm3', 'td', 'u'}


def same_value(a, b):
    """Python equality; NaN equals NaN; the types must agree except between numbers (1.5 == Decimal('1.50'), -0.0 == 0)."""
    if isinstance(a, float) and isinstance(b, float) and a != a and b != b: return True
    if isinstance(a, Decimal) and isinstance(b, Decimal) and a.is_nan() and b.is_nan(): return True
    num = (int, float, Decimal)
    if type(a) is not type(b) and not (isinstance(a, num) and isinstance(b, num)) and not (isinstance(a, str) and isinstance(b, str)) \
            and not (isinstance(a, (bytes, memoryview)) and isinstance(b, (bytes, memoryview))): return False
    try: return bool(a == b)
    except Exception: return False


def dec_digits(d):
    return len(d.as_tuple().digits)


def classify(name, given, after, r):
    ty = impl.entity_spec()[name][0]
    base = name.rstrip('0123456789')
    if 'read_error' in r:
        if base == 'td' and r['read_error'] == 'OverflowError': return 'sqlite-timedelta-float-overflow-on-reload'
        return 'unlisted:%s:read-raises-%s' % (name, r['read_error'])
    got = r['reloaded']
    if ty is dt.time and isinstance(got, str): return 'sqlite-time-reloads-as-str'
    if ty is dt.date and isinstance(got, str) and after.year < 1000: return 'sqlite-date-year-below-1000-reloads-as-str'
    if ty is float and isinstance(after, float) and after != after and got is None: return 'sqlite-float-nan-reloads-as-none'
    if ty is Decimal and isinstance(got, Decimal) and isinstance(after, Decimal) and after.is_finite():
        scale = impl.entity_spec()[name][1][1]
        q = after.quantize(Decimal(10) ** -scale)
        if q != after and got == q: return 'decimal-unrounded-in-writing-session'
        if dec_digits(q) > 15: return 'sqlite-decimal-beyond-float-precision'
    if ty is dt.timedelta and isinstance(got, dt.timedelta):
        # a float day count resolves single microseconds only while |total microseconds| < 2^52 (about 52125 days)
        if abs(after.days) >= 2 ** 52 // 86400000000: return 'sqlite-timedelta-float-precision'
    return 'unlisted:%s:%s-vs-%s' % (name, type(after).__name__, type(got).__name__)


def run_sweep(ctx, items):
    d = ctx.mkscratch()
    path = os.path.join(d, 'c07-%d.sqlite' % len(items))
    if os.path.exists(path): os.remove(path)
    recs = impl.write_values(path, items)
    reads = impl.read_values(path, items, recs, LOOKUPS)
    try: os.remove(path)
    except OSError: pass
    return recs, reads


def judge(items, recs, reads):
    failures, by_key, nontriv = [], {}, set()
    def fail(key, what, data):
        by_key[key] = by_key.get(key, 0) + 1
        if by_key[key] == 1: failures.append(Failure(key, what, data))
    for (name, v), rec, r in zip(items, recs, reads):
        data = {'attr': name, 'value': enc(v)}
        if 'write_error' in rec:
            fail('unlisted:%s:write-raises-%s' % (name, rec['write_error']), 'writing %s=%r raised %s: %s' % (name, v, rec['write_error'], rec.get('msg')), data)
            continue
        after = rec['after']
        if 'reloaded' not in r or not same_value(after, r['reloaded']):
            key = classify(name, v, after, r)
            fail(key, '%s: wrote %r, the writing session saw %r after flush, a new session reads %r' % (name, short(v), short(after), short(r.get('reloaded', r.get('read_error')))), data)
            continue
        if 'project_error' in r or ('projected' in r and not (same_value(r['projected'], r['reloaded']) or (isinstance(r['projected'], Decimal) and r['projected'] == r['reloaded']))):
            fail('unlisted:%s:projection-differs' % name, '%s: select(o.%s ...) returns %r, attribute access %r' % (name, name, short(r.get('projected', r.get('project_error'))), short(r['reloaded'])), data)
            continue
        if name in LOOKUPS and not r.get('lookup_found'):
            fail('unlisted:%s:lookup-by-value-fails' % name, '%s: get(%s=%r) does not find the stored row (%s)' % (name, name, short(after), r.get('lookup_error')), data)
            continue
        if v not in (None, '', b'', 0, False) and v == v: nontriv.add((name, repr(v)[:80]))
    return failures, by_key, nontriv


def short(v):
    s = repr(v)
    return s if len(s) < 90 else s[:60] + '...(%d chars)' % len(s)


def enc(v):
    """JSON-able encoding of a sweep value for replay files."""
    if isinstance(v, bool) or v is None or isinstance(v, (int, str)): return {'t': 'plain', 'v': v}
    if isinstance(v, float): return {'t': 'float', 'v': repr(v)}
    if isinstance(v, Decimal): return {'t': 'decimal', 'v': str(v)}
    if isinstance(v, bytes): return {'t': 'bytes', 'v': v.hex()}
    if isinstance(v, dt.datetime): return {'t': 'datetime', 'v': [v.year, v.month, v.day, v.hour, v.minute, v.second, v.microsecond]}
    if isinstance(v, dt.date): return {'t': 'date', 'v': [v.year, v.month, v.day]}
    if isinstance(v, dt.time): return {'t': 'time', 'v': [v.hour, v.minute, v.second, v.microsecond]}
    if isinstance(v, dt.timedelta): return {'t': 'timedelta', 'v': [v.days, v.seconds, v.microseconds]}
    if isinstance(v, uuid.UUID): return {'t': 'uuid', 'v': v.int}
    return {'t': 'json', 'v': json.dumps(v)}

def dec_(e):
    t, v = e['t'], e['v']
    if t == 'plain': return v
    if t == 'float': return float(v)
    if t == 'decimal': return Decimal(v)
    if t == 'bytes': return bytes.fromhex(v)
    if t == 'datetime': return dt.datetime(*v)
    if t == 'date': return dt.date(*v)
    if t == 'time': return dt.time(*v)
    if t == 'timedelta': return dt.timedelta(*v)
    if t == 'uuid': return uuid.UUID(int=v)
    return json.loads(v)


def codec_oracle(kind, v):
    """Pure round-trip oracles on the real functions. Returns (key, what) when the property fails on this input."""
    from pony.converting import timedelta2str, str2timedelta
    from pony.utils import datetime2timestamp, timestamp2datetime
    if kind == 'timedelta':
        t = dt.timedelta(*v)
        try:
            s = timedelta2str(t); back = str2timedelta(s)
        except Exception as e:
            return ('unlisted:codec:timedelta-text:raises-%s' % type(e).__name__, 'timedelta2str/str2timedelta raised on %r: %s' % (t, e))
        if back != t:
            return ('unlisted:codec:timedelta-text:%s:%s' % ('negative' if t.days < 0 else 'nonnegative', 'with-us' if t.microseconds else 'no-us'),
                    'str2timedelta(timedelta2str(%r)) = %r (text %r)' % (t, back, s))
    elif kind == 'datetime':
        d = dt.datetime(*v)
        try:
            s = datetime2timestamp(d); back = timestamp2datetime(s)
        except Exception as e:
            return ('unlisted:codec:timestamp:raises-%s' % type(e).__name__, 'datetime2timestamp/timestamp2datetime raised on %r: %s' % (d, e))
        if back != d:
            return ('unlisted:codec:timestamp:%s' % ('with-us' if d.microsecond else 'no-us'), 'timestamp2datetime(datetime2timestamp(%r)) = %r (text %r)' % (d, back, s))
    elif kind == 'round':
        p, us = v
        r = impl.converters()['ti'].round_microseconds_to_precision(us, p)
        r = us if r is None else r
        unit = 10 ** (6 - p)
        if not (0 <= r <= us and r % unit == 0 and us - r < unit):
            return ('unlisted:codec:round-microseconds:precision=%d' % p, 'round_microseconds_to_precision(%d, %d) gives %r: not the floor to a multiple of %d' % (us, p, r, unit))
    return None


def codec_cases(ctx, deep):
    for t in td_grid(deep or ctx.thorough): yield ('timedelta', [t.days, t.seconds, t.microseconds])
    for d in DATES:
        for t in TIMES: yield ('datetime', list(d + t))
    for p in range(0, 7):
        for us in (0, 1, 9, 10, 99, 100, 999, 1000, 9999, 10000, 99999, 100000, 123456, 500000, 999999): yield ('round', [p, us])


def search(ctx, deep):
    items = sweep_items(ctx, deep)
    recs, reads = run_sweep(ctx, items)
    failures, by_key, nontriv = judge(items, recs, reads)
    per_attr = {}
    for name, v in items: per_attr[name] = per_attr.get(name, 0) + 1
    n_codec = 0
    for kind, v in codec_cases(ctx, deep):
        n_codec += 1
        r = codec_oracle(kind, v)
        if r is not None:
            by_key[r[0]] = by_key.get(r[0], 0) + 1
            if by_key[r[0]] == 1: failures.append(Failure(r[0], r[1], {'codec': kind, 'v': v}))
        else:
            nontriv.add((kind, tuple(v)))
    # histories: a tracked Json / array value of one object assigned to another (whole value, nested part, other attribute, on creation),
    # then edited in place after the flush: what the program sees after the flush must be what a fresh session reads
    n_hist = 0
    for kind in impl.HISTORIES:
        n_hist += 1
        f = history_failure(ctx, kind)
        if f is not None:
            by_key[f.key] = by_key.get(f.key, 0) + 1
            if by_key[f.key] == 1: failures.append(f)
        else: nontriv.add(('history', kind))
    n_codec += n_hist
    return Search(evaluations=len(items) + n_codec, failures=failures, nontrivial=len(nontriv), exhaustive=False,
                  distribution={'values_per_attribute': per_attr, 'codec_round_trips': n_codec, 'failing_inputs_by_key': by_key},
                  samples=[{'attr': 'td3 = Optional(timedelta, 3)', 'written': 'timedelta(seconds=1, microseconds=999999)', 'after_flush': 'timedelta(seconds=1, microseconds=999000)',
                            'new_session': 'timedelta(seconds=1, microseconds=999000)'}])


def history_failure(ctx, kind):
    path = os.path.join(ctx.mkscratch(), 'c07-hist.sqlite')
    try:
        rows = impl.run_history(path, kind)
    except Exception as e:
        return Failure('unlisted:tracked-history:%s:raises-%s' % (kind, type(e).__name__), 'history %s raised %s: %s' % (kind, type(e).__name__, str(e)[:200]), {'history': kind})
    for label, seen, got in rows:
        if seen != got:
            return Failure('unlisted:tracked-history:%s:%s' % (kind, label.split('.')[1]),
                           'history `%s` (a tracked value of object a assigned to another object, then edited in place after flush): %s seen after flush = %r, a fresh session reads %r' % (kind, label, seen, got),
                           {'history': kind})
    return None


def replay(ctx, data):
    if 'history' in data:
        return history_failure(ctx, data['history'])
    if 'codec' in data:
        r = codec_oracle(data['codec'], data['v'])
        return Failure(r[0], r[1], data) if r else None
    items = [(data['attr'], dec_(data['value']))]
    recs, reads = run_sweep(ctx, items)
    failures, by_key, nontriv = judge(items, recs, reads)
    return failures[0] if failures else None


LEVEL_TEXT = ('Machine-checked proofs (Coq 8.16.1) of the pure codecs, over models re-translated from /repo on every run: str2timedelta(timedelta2str td) = td for every normalised timedelta '
              '(unbounded days, with decimal printing/parsing lemmas); timestamp2datetime(datetime2timestamp d) = d and the SQLite datetime/date/time text encodings decode to the encoded value for '
              'every valid field tuple (date: years >= 1000); precision rounding is idempotent, never increases the value and yields a multiple of 10^(6-p), so "value after flush = value a new session '
              'decodes" for time/datetime of every precision; Decimal quantize-on-store is idempotent and exact on values that fit the scale; UUID <-> 16 bytes and bool <-> 0/1 round trips. '
              'Remaining defect with a witness: a Decimal with more digits than the scale stays unrounded in the writing session; the SQLite time and date defects found by this check were repaired in /repo '
              '(c022f0e, 80b5dcb) and C07_time_reload / C07_date_reload are unconditional. PARTIAL: float-based SQLite timedelta storage, REAL/NUMERIC storage of Decimal, Json and array text round trips, str/bytes/int transport are covered only by the real '
              'write -> commit -> new session -> read sweep (testing), not by a theorem; other backends are not executed.')
LEVEL_NOTE = ('Trusted: Coq kernel + vm_compute; py2coq translator and shape-checked templates (outputs cross-checked against the real functions on every run); reference models of CPython '
              'formatting/strptime/timedelta/Decimal.quantize/UUID.bytes (validated by correspondence only); "SQLite returns TEXT/BLOB/INTEGER unchanged". Tested only: float timedelta, '
              'Decimal through NUMERIC affinity, Json, arrays, float, str, bytes.')
TECHNIQUE = 'Coq proofs (decimal printing lemmas, lia with Euclidean division) over models regenerated from source; vm_compute correspondence; real write/commit/new-session/read sweep on file-backed SQLite'
DESIGN_REF = 'DESIGN.md section 5, C07'
