"""C25 - String indexing and slicing translate to Python semantics on every dialect."""
import itertools, json, sqlite3
import vlib, sqlsem
from vlib import Corr, Search, Failure, cz, clist
from py2coq import stringslice

ID = 'C25'
LEVEL = 'proof'
PROPS = ['Props/C25.v', 'Findings/C25.v']
GEN = [('Gen/StringSlice.v', stringslice.generate)]
TRUSTED = [
    'py2coq translator (tools/py2coq/core.py, stringslice.py): SQLBuilder.STRING_SLICE and SQLiteBuilder.STRING_SLICE are re-translated from /repo on every run; '
    'its output is cross-checked node for node against the real builders on every generated case',
    'hand-written model Model/GetItem.v of StringMixin.__getitem__ (plan + index form), tied by structural correspondence with the real translator on sqlite/postgres/mysql/oracle providers (pool mock-up)',
    'reference semantics: Python slicing/indexing (Base/Seg.v, validated against CPython on every run); SQLite substr (Sql/Dialect.v, validated against the linked SQLite); '
    'PostgreSQL / MySQL / Oracle substr and greatest (documentation models, no server in this sandbox)',
    'py_string_slice is executed as registered by the real provider (end-to-end runs on SQLite)',
]
ASSUMPTIONS = [
    'bounds are integers or omitted; a NULL-valued *expression* bound and a NULL string are outside the statement (Python raises TypeError there)',
    'an index out of range yields the empty string in SQL where Python raises IndexError (stated in C25_index)',
    'PostgreSQL/MySQL/Oracle results are judged under the documented function semantics, not executed',
]
RULE = ('exhaustive product: provider x start shape {omitted, literal, external parameter, column} x stop shape (same) x integer values in a window around 0 '
        'x string lengths; non-trivial = the translator produced a STRING_SLICE/SUBSTR node (not the bare column); distinct = distinct (provider, shapes, values)')

PROVIDERS = ['sqlite', 'postgres', 'mysql', 'oracle']
ALPHA = 'abcdefgh'


# ------------------------------------------------------------------------------------------------ implementation side

_dbs = {}

def get_db(provider, real=False):
    key = (provider, real)
    if key in _dbs: return _dbs[key]
    from pony import orm
    if real:
        db = orm.Database('sqlite', ':memory:')
    else:
        db = vlib.mock_database(provider)
    class P(db.Entity):
        name = orm.Optional(str)
        a = orm.Optional(int)
        b = orm.Optional(int)
    if real: db.generate_mapping(create_tables=True)
    else: db.generate_mapping()
    _dbs[key] = (db, P)
    return _dbs[key]


def bound_src(kind, z, var, col):
    if kind == 'omit': return ''
    if kind == 'const': return '(%d)' % z if z < 0 else '%d' % z
    if kind == 'param': return var
    if kind == 'expr': return 'p.' + col
    raise ValueError(kind)


def query_text(case):
    if case['form'] == 'index':
        return 'p.name[%s] for p in P' % bound_src(case['start'][0], case['start'][1], 'x', 'a')
    return 'p.name[%s:%s] for p in P' % (bound_src(case['start'][0], case['start'][1], 'x', 'a'),
                                          bound_src(case['stop'][0], case['stop'][1], 'y', 'b'))


def translate(provider, case, real=False):
    """Real translator: returns the SQL AST of the selected expression."""
    from pony import orm
    db, P = get_db(provider, real)
    g = {'P': P, 'x': case['start'][1], 'y': case['stop'][1] if case.get('stop') else None}
    with orm.db_session:
        q = orm.select(query_text(case), g)
        cols = q._translator.expr_columns
        assert len(cols) == 1, cols
        return cols[0]


_caps = {}

def builder_expand(provider, ast):
    """Real builder: expand a STRING_SLICE node to what builder.STRING_SLICE hands to builder(...)."""
    if provider not in _caps:
        db, P = get_db(provider)
        base = db.provider.sqlbuilder_cls
        class Cap(base):
            def __call__(b, x): return x
        cap = object.__new__(Cap)
        _caps[provider] = cap
    cap = _caps[provider]
    assert ast[0] == 'STRING_SLICE'
    return cap.STRING_SLICE(*ast[1:])


def direct_builder(dialect, start, stop):
    """SQLBuilder.STRING_SLICE of /repo called directly (generic class, dialect forced)."""
    from pony.orm.sqlbuilding import SQLBuilder
    class Cap(SQLBuilder):
        def __call__(b, x): return x
    cap = object.__new__(Cap)
    cap.dialect = dialect
    return cap.STRING_SLICE(['COLUMN', 'p', 'name'], start, stop)


def norm(v, provider):
    """Oracle: '' is NULL."""
    if provider == 'oracle' and v is None: return ''
    return v


# ------------------------------------------------------------------------------------------------ serialisation to Coq

EXT = {'name': 0, 'a': 1, 'b': 2}

class Unmodelled(Exception): pass

def sx(x):
    t = x[0]
    if t == 'VALUE':
        if x[1] is None: return 'SNullValue'
        if isinstance(x[1], int) and not isinstance(x[1], bool): return '(SValue %s)' % cz(x[1])
        raise Unmodelled('VALUE %r' % (x[1],))
    if t == 'COLUMN': return '(SExt %d)' % EXT[x[2].lower()]
    if t == 'LENGTH': return '(SLength %s)' % sx(x[1])
    two = {'ADD': 'SAdd', 'SUB': 'SSub', 'GE': 'SGe', 'LT': 'SLt', 'AND': 'SAnd', 'COALESCE': 'SCoalesce'}
    if t in two and len(x) == 3: return '(%s %s %s)' % (two[t], sx(x[1]), sx(x[2]))
    if t == 'IF': return '(SIf %s %s %s)' % (sx(x[1]), sx(x[2]), sx(x[3]))
    if t == 'MAX' and x[1] is False and len(x) == 4: return '(SMax %s %s)' % (sx(x[2]), sx(x[3]))
    if t == 'CASE' and x[1] is None:
        arms = '[' + '; '.join('(%s, %s)' % (sx(c), sx(v)) for c, v in x[2]) + ']'
        d = 'None' if len(x) < 4 or x[3] is None else '(Some %s)' % sx(x[3])
        return '(SCase %s %s)' % (arms, d)
    if t == 'SUBSTR':
        return '(SSubstr %s %s %s)' % (sx(x[1]), sx(x[2]), 'None' if len(x) < 4 or x[3] is None else '(Some %s)' % sx(x[3]))
    raise Unmodelled(t)

def osx(x):
    return 'None' if x is None else '(Some %s)' % sx(x)

def bshape(b, col):
    if b[0] == 'omit': return 'BOmit'
    if b[0] in ('const', 'param'): return '(BConst %s)' % cz(b[1])
    return '(BExpr (SExt %d))' % EXT[col]

def cstr(s):
    return '[' + '; '.join(str(ord(c)) for c in s) + ']'

HEADER = ('Require Import PonyV.Base.PyBase PonyV.Base.Seg PonyV.Sql.SqlAst PonyV.Sql.Dialect PonyV.Gen.StringSlice '
          'PonyV.Model.GetItem PonyV.Model.GetItemSem PonyV.Model.SxEq.\nOpen Scope Z_scope.\n')


def run_bools(ctx, exprs, chunk=1200):
    """exprs: list of Coq bool terms. Returns list of indexes whose value is not true."""
    chunks = []
    for i in range(0, len(exprs), chunk):
        part = exprs[i:i + chunk]
        chunks.append('Definition cases : list bool := [\n' + ';\n'.join(part) + '].\nEval vm_compute in (failing cases).\n')
    outs = vlib.coq_eval_many(ctx, HEADER, chunks)
    bad = []
    for k, out in enumerate(outs):
        vals = vlib.parse_eval_outputs(out)
        assert len(vals) == 1, out[-500:]
        body = vals[0].strip()
        assert body.startswith('[') , body
        inner = body.strip('[]').strip()
        if inner:
            for tok in inner.split(';'):
                bad.append(k * chunk + int(tok.strip().replace('%nat', '')))
    return bad


# ------------------------------------------------------------------------------------------------ case spaces

def value_window(ctx):
    return list(range(-5, 6)) if not ctx.thorough else list(range(-9, 10))

def shapes(vals):
    out = [('omit', None)]
    out += [('const', z) for z in vals]
    out += [('param', z) for z in vals]
    out += [('expr', None)]
    return out

def slice_cases(ctx):
    vals = value_window(ctx)
    for prov in PROVIDERS:
        for st in shapes(vals):
            for sp in shapes(vals):
                yield {'provider': prov, 'form': 'slice', 'start': list(st), 'stop': list(sp)}

def index_cases(ctx):
    vals = value_window(ctx)
    for prov in PROVIDERS:
        for st in shapes(vals):
            if st[0] == 'omit': continue
            yield {'provider': prov, 'form': 'index', 'start': list(st), 'stop': None}


# ------------------------------------------------------------------------------------------------ correspondence

def correspondence(ctx):
    exprs, meta = [], []
    dist = {'plan': 0, 'builder': 0, 'builder_direct': 0, 'index': 0, 'sqlite_substr': 0, 'py_slice': 0, 'py_index': 0,
            'sqlsem_vs_coq': 0, 'py_string_slice': 0}
    disagreements = []
    nontrivial = set()
    samples = []

    # (1) plan: real translator vs Model/GetItem.getitem_plan ; (2) builder via the provider's builder class
    for case in slice_cases(ctx):
        prov = case['provider']
        try:
            ast = translate(prov, case)
        except Exception as e:
            disagreements.append({'what': 'translator raised on a supported slice', 'input': case, 'impl': '%s: %s' % (type(e).__name__, e)})
            continue
        try:
            if ast[0] == 'COLUMN':
                expected = 'PWhole'
            elif ast[0] == 'STRING_SLICE':
                expected = '(PSlice %s %s)' % (osx(ast[2]), osx(ast[3]))
                nontrivial.add(json.dumps(case, sort_keys=True))
            else:
                raise Unmodelled(ast[0])
            exprs.append('plan_eqb (getitem_plan %s %s) %s' % (bshape(case['start'], 'a'), bshape(case['stop'], 'b'), expected))
            meta.append(('plan', case, ast)); dist['plan'] += 1
            if ast[0] == 'STRING_SLICE' and prov != 'sqlite':
                real = builder_expand(prov, ast)
                pg = 'true' if prov == 'postgres' else 'false'
                exprs.append('sx_eqb (string_slice %s %s %s %s) %s' % (pg, sx(ast[1]), osx(ast[2]), osx(ast[3]), sx(real)))
                meta.append(('builder', case, real)); dist['builder'] += 1
                if len(samples) < 3 and case['start'][0] == 'expr': samples.append({'case': case, 'translator_ast': ast, 'builder_ast': real})
            if ast[0] == 'STRING_SLICE' and prov == 'sqlite':
                real = builder_expand(prov, ast)        # text pieces: py_string_slice( e , a , b )
                flat = ''.join(str(x) for x in vlib_flat(real))
                exprs.append('sx_eqb (sqlite_string_slice %s %s %s) (SPySlice %s %s %s)' % (
                    sx(ast[1]), osx(ast[2]), osx(ast[3]), sx(ast[1]),
                    sx(ast[2]) if ast[2] is not None else 'SNullValue', sx(ast[3]) if ast[3] is not None else 'SNullValue'))
                meta.append(('builder', case, flat)); dist['builder'] += 1
                if not flat.startswith('py_string_slice('):
                    disagreements.append({'what': 'SQLiteBuilder.STRING_SLICE no longer calls py_string_slice', 'input': case, 'impl': flat})
        except Unmodelled as e:
            disagreements.append({'what': 'AST node outside the modelled fragment: %s' % e, 'input': case, 'impl': ast})

    # (2b) the generic builder called directly with every start/stop node shape, both dialect flags
    vals = value_window(ctx)
    node_shapes = [None] + [['VALUE', z] for z in vals] + [['COLUMN', 'p', 'a']]
    node_shapes2 = [None] + [['VALUE', z] for z in vals] + [['COLUMN', 'p', 'b']]
    for dialect in ('PostgreSQL', 'MySQL'):
        for st in node_shapes:
            for sp in node_shapes2:
                try:
                    real = direct_builder(dialect, st, sp)
                    exprs.append('sx_eqb (string_slice %s (SExt 0) %s %s) %s' % ('true' if dialect == 'PostgreSQL' else 'false', osx(st), osx(sp), sx(real)))
                    meta.append(('builder_direct', {'dialect': dialect, 'start': st, 'stop': sp}, real)); dist['builder_direct'] += 1
                except Unmodelled as e:
                    disagreements.append({'what': 'builder output outside the modelled fragment: %s' % e, 'input': [dialect, st, sp]})
                except Exception as e:
                    disagreements.append({'what': 'real builder raised', 'input': [dialect, st, sp], 'impl': '%s: %s' % (type(e).__name__, e)})

    # (3) index form
    for case in index_cases(ctx):
        prov = case['provider']
        try:
            ast = translate(prov, case)
            pg = 'true' if prov == 'postgres' else 'false'
            exprs.append('opt_eqb sx_eqb (getitem_index %s (SExt 0) %s) (Some %s)' % (pg, bshape(case['start'], 'a'), sx(ast)))
            meta.append(('index', case, ast)); dist['index'] += 1
            nontrivial.add(json.dumps(case, sort_keys=True))
        except Unmodelled as e:
            disagreements.append({'what': 'index AST outside the modelled fragment: %s' % e, 'input': case})
        except Exception as e:
            disagreements.append({'what': 'translator raised on a supported index', 'input': case, 'impl': '%s: %s' % (type(e).__name__, e)})

    # (4) reference semantics: Coq models vs CPython / real SQLite / the Python-side oracle (sqlsem)
    con = sqlite3.connect(':memory:')
    from pony.orm.dbproviders.sqlite import py_string_slice
    lens = range(0, 5) if not ctx.thorough else range(0, 7)
    for n in lens:
        s = ALPHA[:n]
        for p in vals:
            for z in [None] + vals:
                got = con.execute('select substr(?, ?)' if z is None else 'select substr(?, ?, ?)', (s, p) if z is None else (s, p, z)).fetchone()[0]
                zt = 'None' if z is None else '(Some %s)' % cz(z)
                exprs.append('sval_eqb (sqlite_substr %s %s %s) (VStr %s)' % (cstr(s), cz(p), zt, cstr(got)))
                meta.append(('sqlite_substr', [s, p, z], got)); dist['sqlite_substr'] += 1
                if sqlsem.sqlite_substr(s, p, z) != got:
                    disagreements.append({'what': 'tools/sqlsem.sqlite_substr differs from the linked SQLite', 'input': [s, p, z], 'impl': got})
                for d, fn, coq in (('postgres', sqlsem.pg_substr, 'pg_substr'), ('mysql', sqlsem.mysql_substr, 'mysql_substr'), ('oracle', sqlsem.oracle_substr, 'oracle_substr')):
                    try:
                        r = fn(s, p) if z is None else fn(s, p, z)
                        rt = 'VNull' if r is None else '(VStr %s)' % cstr(r)
                    except sqlsem.SqlError:
                        rt = 'VErr'
                    exprs.append('sval_eqb (%s %s %s %s) %s' % (coq, cstr(s), cz(p), zt, rt))
                    meta.append(('sqlsem_vs_coq', [d, s, p, z], rt)); dist['sqlsem_vs_coq'] += 1
        for a in [None] + vals:
            for b in [None] + vals:
                want = s[a:b]
                at = 'None' if a is None else '(Some %s)' % cz(a)
                bt = 'None' if b is None else '(Some %s)' % cz(b)
                exprs.append('sval_eqb (VStr (py_slice %s %s %s)) (VStr %s)' % (cstr(s), at, bt, cstr(want)))
                meta.append(('py_slice', [s, a, b], want)); dist['py_slice'] += 1
                if py_string_slice(s, a, b) != want or py_string_slice(None, a, b) is not None:
                    disagreements.append({'what': 'py_string_slice is not Python slicing', 'input': [s, a, b]})
                dist['py_string_slice'] += 1
        for i in vals:
            try: want = s[i]
            except IndexError: want = ''
            exprs.append('sval_eqb (VStr (match py_index %s %s with Some c => c | None => [] end)) (VStr %s)' % (cstr(s), cz(i), cstr(want)))
            meta.append(('py_index', [s, i], want)); dist['py_index'] += 1

    bad = run_bools(ctx, exprs)
    for i in bad[:20]:
        kind, inp, impl = meta[i]
        disagreements.append({'what': 'model and implementation differ (%s)' % kind, 'input': inp, 'impl': impl, 'coq_case': exprs[i][:1500]})
    samples.append({'coq_case': exprs[0]})
    return Corr(cases=len(exprs), nontrivial=len(nontrivial), disagreements=disagreements, samples=samples, distribution=dist,
                note='every case is a boolean computed by vm_compute inside Coq from the model and the serialised implementation output')


def vlib_flat(tree):
    from pony.orm.sqlbuilding import flat
    return flat(tree)


# ------------------------------------------------------------------------------------------------ search (property oracle)

def classify(prov, form, st, sp, a, b, n):
    """Finding key of a failing input: the specific input class."""
    if form == 'slice':
        start0 = st[0] == 'omit' or (st[0] in ('const', 'param') and st[1] == 0)
        if start0 and sp[0] in ('const', 'param') and sp[1] == -1: return 'getitem-start-0-or-omitted-stop-constant-minus-1'
        if start0 and sp[0] == 'expr': return 'getitem-start-0-or-omitted-stop-nonconstant'
        if prov in ('mysql', 'oracle') and a is not None and a < 0:
            if -a > n: return 'generic-builder-negative-start-beyond-length'
            if b is not None and b >= 0: return 'generic-builder-negative-start-nonnegative-stop'
    sign = lambda v: 'o' if v is None else ('-' if v < 0 else ('0' if v == 0 else '+'))
    return 'unlisted:%s:%s:%s%s:%s%s' % (prov, form, st[0], sign(a), sp[0] if sp else '', sign(b) if sp else '')


def eval_case(prov, case, n, a, b, real_rows=None):
    """Value Pony's SQL gives for this row under the dialect semantics (or from real SQLite), and Python's value."""
    s = ALPHA[:n]
    st, sp = case['start'], case['stop']
    av = st[1] if st[0] in ('const', 'param') else (a if st[0] == 'expr' else None)
    if case['form'] == 'index':
        try: want = s[av]
        except IndexError: want = ''
    else:
        bv = sp[1] if sp[0] in ('const', 'param') else (b if sp[0] == 'expr' else None)
        want = s[av:bv]
    ast = translate(prov, case)
    if ast[0] == 'STRING_SLICE':
        if prov == 'sqlite':
            from pony.orm.dbproviders.sqlite import py_string_slice
            env = {'name': s, 'a': a, 'b': b}
            got = py_string_slice(s, None if ast[2] is None else sqlsem.ev('sqlite', ast[2], env), None if ast[3] is None else sqlsem.ev('sqlite', ast[3], env))
            return got, want
        ast = builder_expand(prov, ast)
    try:
        got = sqlsem.ev(prov, ast, {'name': s, 'a': a, 'b': b})
    except sqlsem.SqlError as e:
        got = 'SQL-ERROR: %s' % e
    return norm(got, prov), want


def one_failure(prov, case, n, a, b, got, want, via):
    st, sp = case['start'], case['stop']
    av = st[1] if st[0] in ('const', 'param') else (a if st[0] == 'expr' else None)
    bv = None if not sp else (sp[1] if sp[0] in ('const', 'param') else (b if sp[0] == 'expr' else None))
    key = classify(prov, case['form'], st, sp, av, bv, n)
    what = '%s: %r on %s gives %r, Python gives %r (name=%r a=%r b=%r; %s)' % (
        prov, query_text(case), {'x': st[1], 'y': sp[1] if sp else None}, got, want, ALPHA[:n], a, b, via)
    return Failure(key, what, {'provider': prov, 'case': case, 'n': n, 'a': a, 'b': b, 'via': via})


def search(ctx, deep):
    from pony import orm
    failures, evals, nontriv = [], 0, set()
    dist = {'sqlite_real_rows': 0, 'modelled_dialect_rows': 0}
    vals = value_window(ctx) if not deep else list(range(-9, 10))
    lens = list(range(0, 5)) if not deep else list(range(0, 7))
    seen_keys = {}

    # (a) end to end on the real SQLite provider: rows for every (length, a, b)
    db, P = get_db('sqlite', real=True)
    with orm.db_session:
        if not P.select().exists():
            for n in range(0, 7):
                for a in range(-9, 10):
                    for b in range(-9, 10):
                        P(name=ALPHA[:n], a=a, b=b)
            orm.commit()
    def sqlite_cases():
        for st in shapes(vals):
            for sp in shapes(vals):
                yield {'provider': 'sqlite', 'form': 'slice', 'start': list(st), 'stop': list(sp)}
        for st in shapes(vals):
            if st[0] != 'omit': yield {'provider': 'sqlite', 'form': 'index', 'start': list(st), 'stop': None}
    for case in sqlite_cases():
        uses_a = case['start'][0] == 'expr'
        uses_b = bool(case['stop']) and case['stop'][0] == 'expr'
        with orm.db_session:
            g = {'P': P, 'x': case['start'][1], 'y': case['stop'][1] if case['stop'] else None}
            sel = query_text(case).replace(' for p in P', '')
            try:
                rows = orm.select('(p.name, p.a, p.b, %s) for p in P if p.a in AS and p.b in BS and len(p.name) in LS' % sel,
                                  dict(g, AS=vals if uses_a else [0], BS=vals if uses_b else [0], LS=lens))[:]
            except Exception as e:
                failures.append(Failure('unlisted:sqlite:%s:raises' % case['form'], 'sqlite: %r raised %s: %s' % (query_text(case), type(e).__name__, e),
                                        {'provider': 'sqlite', 'case': case, 'n': 1, 'a': 0, 'b': 0, 'via': 'real'}))
                continue
        for name, a, b, got in rows:
            evals += 1; dist['sqlite_real_rows'] += 1
            av = case['start'][1] if case['start'][0] in ('const', 'param') else (a if uses_a else None)
            if case['form'] == 'index':
                try: want = name[av]
                except IndexError: want = ''
            else:
                bv = case['stop'][1] if case['stop'][0] in ('const', 'param') else (b if uses_b else None)
                want = name[av:bv]
            if (got or '') != want:
                f = one_failure('sqlite', case, len(name), a, b, got, want, 'real')
                if seen_keys.setdefault(f.key, 0) < 1: failures.append(f)
                seen_keys[f.key] += 1
            else:
                nontriv.add(('sqlite', query_text(case), case['start'][1], case['stop'][1] if case['stop'] else None))

    # (a') the same query text re-executed with changing parameter values, the slice sitting inside a subquery
    #      (pinned parameters must be re-pinned wherever the translator caches look; found by seeded change c25b)
    sub_forms = [
        ('exists-slice', 'p.name for p in P if p.a == 0 and p.b == 0 and exists(q for q in P if q.id == p.id and q.name[x:y] == w)', lambda s, x, y: s[x:y]),
        ('exists-slice-from', 'p.name for p in P if p.a == 0 and p.b == 0 and exists(q for q in P if q.id == p.id and q.name[x:] == w)', lambda s, x, y: s[x:]),
        ('in-slice', 'p.name for p in P if p.a == 0 and p.b == 0 and w in (q.name[1:y] for q in P if q.id == p.id)', lambda s, x, y: s[1:y]),
        ('exists-index', 'p.name for p in P if p.a == 0 and p.b == 0 and exists(q for q in P if q.id == p.id and q.name[x] == w)', lambda s, x, y: (s[x] if -len(s) <= x < len(s) else '')),
    ]
    names = [ALPHA[:n] for n in range(0, 7)]
    svals = [v for v in vals if -4 <= v <= 4] if not deep else vals
    for fname, text, pyf in sub_forms:
        for x in svals:
            for y in svals:
                if (x == 0 and y == -1) and fname == 'exists-slice': continue      # the recorded sentinel defect, judged in (a)
                for w in ('', 'a', 'b', 'ab', 'bc', 'abc'):
                    with orm.db_session:
                        try:
                            got = sorted(orm.select(text, {'P': P, 'x': x, 'y': y, 'w': w, 'exists': orm.exists})[:])
                        except Exception as e:
                            got = 'EXC %s: %s' % (type(e).__name__, e)
                    want = sorted(n for n in names if pyf(n, x, y) == w)
                    evals += 1; dist['subquery_param_reexecutions'] = dist.get('subquery_param_reexecutions', 0) + 1
                    if got != want:
                        key = 'unlisted:sqlite:subquery-%s:reexecuted-with-new-parameter-values' % fname
                        if seen_keys.setdefault(key, 0) < 1:
                            failures.append(Failure(key, 'sqlite: %r with x=%r y=%r w=%r returns %r, Python filter gives %r (same query text executed before with other values)' % (text, x, y, w, got, want),
                                                    {'provider': 'sqlite', 'via': 'subquery', 'form': fname, 'x': x, 'y': y, 'w': w}))
                        seen_keys[key] += 1
                    elif want:
                        nontriv.add(('sub', fname, x, y, w))

    # (b) PostgreSQL / MySQL / Oracle: real translator + real builder, result judged under the dialect model
    for prov in ('postgres', 'mysql', 'oracle'):
        cases = [c for c in slice_cases(ctx) if c['provider'] == prov] + [c for c in index_cases(ctx) if c['provider'] == prov]
        for case in cases:
            uses_a = case['start'][0] == 'expr'
            uses_b = bool(case['stop']) and case['stop'][0] == 'expr'
            for n in lens:
                for a in (vals if uses_a else [0]):
                    for b in (vals if uses_b else [0]):
                        evals += 1; dist['modelled_dialect_rows'] += 1
                        try:
                            got, want = eval_case(prov, case, n, a, b)
                        except Exception as e:
                            got, want = 'EXC %s: %s' % (type(e).__name__, e), None
                        if got != want:
                            f = one_failure(prov, case, n, a, b, got, want, 'dialect-model')
                            if seen_keys.setdefault(f.key, 0) < 1: failures.append(f)
                            seen_keys[f.key] += 1
                        else:
                            nontriv.add((prov, query_text(case), case['start'][1], case['stop'][1] if case['stop'] else None))
    dist['failing_rows_by_key'] = seen_keys
    return Search(evaluations=evals, failures=failures, nontrivial=len(nontriv), distribution=dist, exhaustive=True,
                  samples=[{'query': 'select(p.name[x:y] for p in P)', 'x': -3, 'y': 2, 'provider': 'postgres'}])


def replay(ctx, data):
    if data.get('via') == 'subquery':
        ctx2 = ctx
        r = search(ctx2, False)
        for f in r.failures:
            if f.data.get('via') == 'subquery' and f.data.get('form') == data.get('form'): return f
        return None
    prov, case, n, a, b = data['provider'], data['case'], data['n'], data['a'], data['b']
    if data.get('via') == 'real' and prov == 'sqlite':
        from pony import orm
        db = orm.Database('sqlite', ':memory:')
        class P(db.Entity):
            name = orm.Optional(str); a = orm.Optional(int); b = orm.Optional(int)
        db.generate_mapping(create_tables=True)
        with orm.db_session:
            P(name=ALPHA[:n], a=a, b=b); orm.commit()
            g = {'P': P, 'x': case['start'][1], 'y': case['stop'][1] if case['stop'] else None}
            try:
                got = orm.select(query_text(case), g)[:][0]
            except Exception as e:
                got = 'EXC %s' % type(e).__name__
        s = ALPHA[:n]
        st, sp = case['start'], case['stop']
        av = st[1] if st[0] in ('const', 'param') else (a if st[0] == 'expr' else None)
        if case['form'] == 'index':
            try: want = s[av]
            except IndexError: want = ''
        else:
            bv = sp[1] if sp[0] in ('const', 'param') else (b if sp[0] == 'expr' else None)
            want = s[av:bv]
        got = got or ''
    else:
        got, want = eval_case(prov, case, n, a, b)
    if got != want:
        return one_failure(prov, case, n, a, b, got, want, data.get('via', 'dialect-model'))
    return None


LEVEL_TEXT = ('Machine-checked proof (Coq 8.16.1) that the SQL built for s[i], s[i:j], s[:j] equals Python slicing for all strings and all integer bounds, '
              'per dialect substr semantics: unconditional for the PostgreSQL and SQLite builder paths; for the MySQL/Oracle generic path and for '
              'StringMixin.__getitem__ on the exact complement of four recorded defect classes (refuted by witnesses in Findings/C25.v). The builder model is '
              're-translated from /repo on every run; the __getitem__ model is compared structurally with the real translator on four providers; an exhaustive '
              'small-scope end-to-end sweep on real SQLite and under the dialect models searches for failing inputs.')
LEVEL_NOTE = ('Trusted: Coq kernel + vm_compute; py2coq translator; structural correspondence harness; documentation models of PostgreSQL/MySQL/Oracle substr/greatest '
              '(no server available); SQLite substr model validated against the linked SQLite. NULL-valued expression bounds and NULL strings are outside the statement.')
TECHNIQUE = 'Coq proof (seg normal form + lia) over a model regenerated from source by py2coq; vm_compute structural correspondence; exhaustive small-scope differential search'
DESIGN_REF = 'DESIGN.md section 5, C25'
