"""C35 - Locked rows and serializable sessions cannot be overwritten concurrently."""
import json
import vlib
import c19_common as cc
from vlib import Corr, Search, Failure
from py2coq import forupdate

ID = 'C35'
LEVEL = 'proof'
PROPS = ['Props/C35.v']
GEN = [('Gen/C35ForUpdate.v', forupdate.generate)]
TRUSTED = [
    'PostgreSQL / MySQL / Oracle row locks (SELECT ... FOR UPDATE [NOWAIT | SKIP LOCKED]) and PostgreSQL serializable isolation: only the emitted SQL text is checked, nothing runs on those servers',
    'cross-process SQLite file locking (BEGIN IMMEDIATE takes the RESERVED lock): the provider lock only serialises the sessions of one process',
    'hand-written model Model/C19Txn.v (see C19), tied by trace correspondence on session programs and on deterministic thread schedules with locking reads',
    'tools/py2coq/forupdate.py: SQLBuilder.SELECT_FOR_UPDATE and SQLiteBuilder.SELECT_FOR_UPDATE are re-translated from /repo on every run (tiny fail-closed subset); '
    'its output is compared with the SQL text the real translator + builders produce for every (provider, query form, nowait, skip_locked)',
    'threading.Lock is a mutex; deterministic scheduler of tools/c19_driver.py',
]
ASSUMPTIONS = [
    'SQLite: one process; the statement is about sessions of this process',
    'objects *created* in a session are also put into cache.for_update (to skip optimistic checks); the theorem is about objects loaded with for_update()/get_for_update()',
    'Oracle: SELECT_FOR_UPDATE with ROWNUM uses a different statement shape; only the trailing FOR UPDATE text is compared there',
]
RULE = ('SQL text: providers {sqlite, postgres, mysql, oracle} x query forms {query, ordered query, limited query, get_for_update} x nowait x skip_locked (exhaustive); '
        'threads: the C19 schedule templates and seeded random schedules with locking reads and serializable sessions (model correspondence), and read-modify-write schedules with '
        '`with db_session` semantics judged by the no-lost-committed-write / disjoint-transactions oracle. non-trivial = a step blocked or two sessions touched the same row; '
        'distinct = distinct schedule')

FORMS = ['query', 'query_order', 'query_limit', 'get']
PROVIDERS = ['sqlite', 'postgres', 'mysql', 'oracle']
C35_HEADER = 'From Coq Require Import ZArith List Bool.\nImport ListNotations.\nRequire Import PonyV.Gen.C35ForUpdate.\nOpen Scope Z_scope.\n' \
             'Fixpoint zl_eqb (a b : list Z) : bool := match a, b with [], [] => true | x :: a\', y :: b\' => Z.eqb x y && zl_eqb a\' b\' | _, _ => false end.\n' \
             'Fixpoint failing_from (i : nat) (l : list bool) : list nat := match l with [] => [] | b :: l\' => if b then failing_from (S i) l\' else i :: failing_from (S i) l\' end.\n' \
             'Definition failing (l : list bool) : list nat := failing_from 0 l.\n'

_cache = {}


# ---- read-modify-write schedules (search oracle) ----

RMW_TEMPLATES = [
    # A locks row 1 and updates it; B (optimistic) reads it before A commits and updates it
    (2, [[0, 'enter', 'opt'], [1, 'enter', 'opt'], [0, 'forupd', 1], [1, 'load', 1], [1, 'set', 1], [1, 'exit', 0], [0, 'set', 1], [0, 'exit', 0]]),
    (2, [[0, 'enter', 'opt'], [1, 'enter', 'opt'], [1, 'load', 1], [0, 'forupd', 1], [0, 'set', 1], [0, 'exit', 0], [1, 'set', 1], [1, 'exit', 0]]),
    # serializable reader-writer against an immediate writer
    (2, [[0, 'enter', 'ser'], [1, 'enter', 'imm'], [0, 'load', 2], [1, 'load', 2], [1, 'set', 2], [1, 'exit', 0], [0, 'set', 2], [0, 'exit', 0]]),
    (2, [[0, 'enter', 'ser'], [1, 'enter', 'opt'], [0, 'load', 2], [1, 'load', 2], [1, 'set', 2], [1, 'exit', 0], [0, 'set', 2], [0, 'exit', 0]]),
    # two locking sessions on the same row
    (2, [[0, 'enter', 'opt'], [1, 'enter', 'opt'], [0, 'forupd', 3], [1, 'forupd', 3], [0, 'set', 3], [0, 'exit', 0], [1, 'set', 3], [1, 'exit', 0]]),
    # query.for_update() form, non-optimistic second writer
    (2, [[0, 'enter', 'opt'], [1, 'enter', 'nonopt'], [0, 'qforupd', 4], [1, 'load', 4], [0, 'set', 4], [1, 'set', 4], [0, 'exit', 0], [1, 'exit', 0]]),
    # the locking session has the row already in its cache (ordinary read first), then locks it by pk / unique key / composite key;
    # B then locks and updates the same row: it must wait for A, and both increments must survive
    (2, [[0, 'enter', 'opt'], [1, 'enter', 'opt'], [0, 'load', 1], [0, 'forupd', 1], [1, 'forupd', 1], [0, 'set', 1], [0, 'exit', 0], [1, 'set', 1], [1, 'exit', 0]]),
    (2, [[0, 'enter', 'opt'], [1, 'enter', 'opt'], [0, 'load', 2], [0, 'forupd_u', 2], [1, 'forupd', 2], [0, 'set', 2], [0, 'exit', 0], [1, 'set', 2], [1, 'exit', 0]]),
    (2, [[0, 'enter', 'opt'], [1, 'enter', 'opt'], [0, 'load', 3], [0, 'forupd_c', 3], [1, 'forupd_u', 3], [0, 'set', 3], [0, 'exit', 0], [1, 'set', 3], [1, 'exit', 0]]),
    (2, [[0, 'enter', 'opt'], [1, 'enter', 'opt'], [0, 'forupd_u', 4], [1, 'load', 4], [1, 'forupd_c', 4], [0, 'set', 4], [0, 'exit', 0], [1, 'set', 4], [1, 'exit', 0]]),
    (3, [[0, 'enter', 'opt'], [1, 'enter', 'opt'], [2, 'enter', 'ser'], [0, 'forupd', 1], [1, 'load', 1], [2, 'load', 1], [0, 'set', 1], [1, 'set', 1], [2, 'set', 1],
         [0, 'exit', 0], [1, 'exit', 0], [2, 'exit', 0]]),
]


def random_rmw(rng, n):
    steps, st = [], {}
    for t in range(n): st[t] = None
    for _ in range(rng.randrange(8, 20)):
        t = rng.randrange(n)
        if st[t] is None:
            steps.append([t, 'enter', rng.choice(['opt', 'opt', 'ser', 'imm', 'nonopt'])]); st[t] = {'loaded': set(), 'set': set()}
            continue
        r = rng.random()
        row = rng.randrange(1, 4)
        if r < 0.2:
            steps.append([t, 'exit', 0]); st[t] = None
        elif row not in st[t]['loaded']:
            steps.append([t, rng.choice(['load', 'load', 'forupd', 'forupd_u', 'forupd_c', 'qforupd']), row]); st[t]['loaded'].add(row); st[t].setdefault('plain', set()).add(row)
        elif row not in st[t].get('locked', set()) and rng.random() < 0.5:
            steps.append([t, rng.choice(['forupd', 'forupd_u', 'forupd_c']), row]); st[t].setdefault('locked', set()).add(row)   # lock a row that is already cached
        elif row not in st[t]['set']:
            steps.append([t, 'set', row]); st[t]['set'].add(row)
        else:
            steps.append([t, 'exit', 0]); st[t] = None
    return steps


def rmw_cases(ctx, deep):
    cases = [{'threads': n, 'steps': steps, 'faults': {}, 'with_sem': True, 'name': 'rmw-template%d' % i} for i, (n, steps) in enumerate(RMW_TEMPLATES)]
    for k in range(ctx.scale(25, 200) if not deep else 250):
        n = ctx.rng.choice([2, 2, 3])
        cases.append({'threads': n, 'steps': random_rmw(ctx.rng, n), 'faults': {}, 'with_sem': True, 'name': 'rmw-random%d' % k})
    return cases


def rmw_anomalies(case, out):
    """no committed write lost; transactions of different threads never overlap; writes and locking reads inside the own transaction"""
    res = list(cc.thread_anomalies(case, out))
    name = case.get('name', '?')
    # sessions: per thread, in order; a session commits if its exit step returned 'ok'
    committed_sets = {}          # row -> number of committed sessions that did `set row`
    cur = {}
    for t, op, arg, outcome, _lk in out['effective']:
        if outcome in ('skipped', 'noop', 'blocked'): continue
        if op == 'enter': cur[t] = {'sets': [], 'failed': False}
        elif t not in cur: continue
        elif op == 'set':
            if outcome == 'ok': cur[t]['sets'].append(arg)
            else: cur[t]['failed'] = True
        elif op in ('exit', 'exit_if_open', 'exit_exc'):
            if outcome == 'ok' and not cur[t]['failed']:
                for row in cur[t]['sets']: committed_sets[row] = committed_sets.get(row, 0) + 1
            del cur[t]
        elif outcome != 'ok': cur[t]['failed'] = True
    for t, op, arg, outcome, lk in out['effective']:
        if op in ('forupd', 'forupd_u', 'forupd_c', 'forupd_r', 'forupd_rt', 'qforupd') and outcome == 'ok' and not lk:
            res.append(('locking-read-without-lock:%s' % op, '%s(%s) returned in thread %d while provider.transaction_lock was not held (%s)' % (op, arg, t, name)))
            break
    rows = out.get('rows_after')
    if isinstance(rows, list):
        for rid, v in rows:
            want = 100 * committed_sets.get(rid, 0)
            if v != want:
                res.append(('committed-write-lost', 'row %d ends with v=%d although %d sessions committed an increment of 100 on it (%s)' % (rid, v, committed_sets.get(rid, 0), name)))
                break
    # transaction intervals from the global driver-call order
    open_by = {}
    for e in out.get('global_trace', []):
        t, kind, stmt, con, ok = e[0], e[1], e[2], e[3], e[4]
        if kind == 'execute' and stmt == 'begin' and ok:
            others = [x for x in open_by if x != t]
            if others:
                res.append(('overlapping-transactions', 'thread %d began a transaction while thread(s) %s were inside one (%s)' % (t, others, name))); break
            open_by[t] = True
        elif kind in ('commit', 'rollback') and ok: open_by.pop(t, None)
        elif kind == 'close': open_by.pop(t, None)
        elif kind == 'execute' and stmt == 'write' and t not in open_by:
            res.append(('write-outside-transaction', 'thread %d issued a write outside BEGIN IMMEDIATE .. COMMIT (%s)' % (t, name))); break
        elif kind == 'execute' and stmt == 'write' and [x for x in open_by if x != t]:
            res.append(('write-during-foreign-transaction', 'thread %d wrote while thread(s) %s held a transaction (%s)' % (t, [x for x in open_by if x != t], name))); break
    return res


def runs(ctx, deep=False):
    key = (id(ctx), bool(deep))
    if key in _cache: return _cache[key]
    sql = cc.run_driver({'mode': 'sql_text', 'providers': PROVIDERS, 'forms': FORMS})
    tcases = cc.thread_cases(ctx, deep)
    # more locking reads / serializable sessions than in the C19 mix
    for k in range(ctx.scale(15, 100)):
        n = ctx.rng.choice([2, 3])
        steps = cc.random_schedule(ctx.rng, n, ctx.rng.randrange(8, 18))
        for st in steps:
            if st[1] == 'enter' and ctx.rng.random() < 0.5: st[2] = 'ser'
        tcases.append({'threads': n, 'steps': steps, 'faults': {}, 'name': 'ser%d' % k})
    touts = cc.run_driver({'mode': 'threads', 'cases': tcases})
    rcases = rmw_cases(ctx, deep)
    routs = cc.run_driver({'mode': 'threads', 'cases': rcases})
    # single sessions with locking reads under faults (the session-level theorem C35_serializable_begin)
    base = []
    for shape in ('ser', 'imm', 'opt'):
        for name, ops in (('lock-write', [['forupd', False, 1], ['qforupd', False, 2], ['new', False, 5], ['select', False, 0]]),
                          ('read-commit-read', [['select', False, 0], ['commit', False, 0], ['select', False, 0], ['forupd', True, 3], ['rawwrite', False, 1]]),
                          ('routes-cached', [['load', False, 1], ['load', False, 2], ['load', False, 3], ['forupd', False, 1], ['forupd_u', False, 2], ['forupd_c', False, 3],
                                             ['forupd_u', False, 1], ['forupd_c', False, 4], ['commit', False, 0], ['forupd_u', False, 2]]),
                          ('routes-reverse', [['load', False, 1], ['forupd_r', False, 1], ['forupd_r', False, 1], ['loadw', False, 2], ['forupd_rt', True, 2], ['forupd', False, 2],
                                              ['forupd_rt', False, 2], ['commit', False, 0], ['forupd_rt', True, 2], ['forupd_r', False, 2]])):
            base.append({'shape': shape, 'start': 'none', 'ops': ops, 'faults': [], 'name': '%s/%s' % (shape, name)})
    o0 = cc.run_driver({'mode': 'sessions', 'cases': base})
    fc = [dict(c, faults=[k]) for c, o in zip(base, o0) if 'harness_error' not in o for k in range(o['sessions'][-1]['calls'])]
    o1 = cc.run_driver({'mode': 'sessions', 'cases': fc})
    r = {'sql': sql, 'tcases': tcases, 'touts': touts, 'rcases': rcases, 'routs': routs, 'scases': base + fc, 'souts': o0 + o1}
    _cache[key] = r
    return r


def zs(s):
    return '[' + '; '.join(str(ord(c)) for c in s) + ']'


def correspondence(ctx):
    r = runs(ctx, ctx.thorough)
    disagreements, nontrivial = [], set()
    dist = {'sql_text_cases': 0, 'thread_cases': 0, 'blocked_steps': 0, 'session_cases': 0, 'statements_in_immediate_sessions': 0}
    # (1) SQL text
    plain = {(x['provider'], x['form']): x.get('sql') for x in r['sql'] if not x['for_update']}
    exprs, meta = [], []
    for x in r['sql']:
        if not x['for_update']: continue
        if x['nowait'] and x['skip_locked']:
            # the API refuses the combination (Query.for_update / get_for_update raise TypeError); the builder function is total
            if 'mutually exclusive' not in x.get('error', ''):
                disagreements.append({'what': 'nowait together with skip_locked is no longer refused', 'input': x})
            dist['refused_nowait_and_skip_locked'] = dist.get('refused_nowait_and_skip_locked', 0) + 1
            continue
        if 'error' in x or plain.get((x['provider'], x['form'])) is None:
            disagreements.append({'what': 'cannot build the SQL of a for_update query', 'input': x}); continue
        p, sql = plain[(x['provider'], x['form'])], x['sql']
        fn = 'sqlite_for_update' if x['provider'] == 'sqlite' else 'generic_for_update'
        want_tail = 'concat (%s %s %s)' % (fn, cc.cb(x['nowait']), cc.cb(x['skip_locked']))
        if x['provider'] == 'oracle' and x['form'] == 'query_limit':
            # different statement shape: only the end of the text is compared
            tail = sql[sql.rfind('FOR UPDATE'):] if 'FOR UPDATE' in sql else ''
            exprs.append('zl_eqb (%s) %s' % (want_tail, zs(tail + '\n')))
        elif not sql.startswith(p):
            disagreements.append({'what': 'the for_update SQL does not extend the plain SQL', 'input': x, 'impl': p}); continue
        else:
            tail = sql[len(p):]
            if x['provider'] == 'sqlite': exprs.append('zl_eqb (%s) %s' % (want_tail, zs(tail)))
            else: exprs.append('zl_eqb (%s) %s' % (want_tail, zs(tail.lstrip('\n') + '\n')))
        meta.append(x); dist['sql_text_cases'] += 1
        nontrivial.add(json.dumps([x['provider'], x['form'], x['nowait'], x['skip_locked']]))
    bad = cc.run_bools(ctx, exprs, chunk=200, name='sql', header=C35_HEADER)
    for i in bad[:8]:
        disagreements.append({'what': 'SQL text of a for_update query differs from the translated SELECT_FOR_UPDATE', 'input': meta[i], 'coq_case': exprs[i][:400]})
    # (2) thread schedules against the global model
    texprs, tmeta = [], []
    for c, o in zip(r['tcases'], r['touts']):
        if o.get('skipped') or o.get('failed'): continue
        if 'harness_error' in o:
            disagreements.append({'what': 'implementation driver failed on a thread schedule', 'input': c, 'impl': o['harness_error'][-600:]}); continue
        try: texprs.append(cc.coq_thread_case(c, o)); tmeta.append((c, o))
        except cc.Unmodelled as e:
            disagreements.append({'what': 'thread observation outside the modelled vocabulary: %s' % e, 'input': c, 'impl': o.get('effective')}); continue
        dist['thread_cases'] += 1
        nb = sum(1 for e in o['effective'] if e[3] == 'blocked'); dist['blocked_steps'] += nb
        if nb: nontrivial.add(json.dumps(['threads', c['steps'], c['faults']], sort_keys=True))
    tbad = cc.run_bools(ctx, texprs, chunk=25, name='thr', header=cc.THREAD_HEADER)
    for i in tbad[:5]:
        c, o = tmeta[i]
        disagreements.append({'what': 'model and implementation differ on a thread schedule', 'input': c, 'impl': {'effective': o['effective'], 'traces': o['traces']}})
    # (3) sessions with locking reads under faults: trace correspondence
    sexprs, smeta = [], []
    for c, o in zip(r['scases'], r['souts']):
        if o.get('skipped'): continue
        if 'harness_error' in o:
            disagreements.append({'what': 'implementation driver failed on a session case', 'input': c, 'impl': o['harness_error'][-600:]}); continue
        try: sexprs.append(cc.coq_case(c, o)); smeta.append((c, o)); dist['session_cases'] += 1
        except cc.Unmodelled as e:
            disagreements.append({'what': 'observation outside the modelled vocabulary: %s' % e, 'input': c}); continue
        if c['shape'] != 'opt': dist['statements_in_immediate_sessions'] += sum(1 for e in o['trace'] if e[0] == 'execute' and e[1] in ('select', 'write'))
    sbad = cc.run_bools(ctx, sexprs, chunk=300, name='ses')
    for i in sbad[:5]:
        c, o = smeta[i]
        disagreements.append({'what': 'model and implementation differ on a session program', 'input': c, 'impl': cc.coq_observation(o)[:1200]})
    samples = [{'sql_case': meta[1] if len(meta) > 1 else None}]
    if tmeta: samples.append({'thread_schedule': tmeta[0][0]['steps'], 'effective': tmeta[0][1]['effective']})
    return Corr(cases=len(exprs) + len(texprs) + len(sexprs), nontrivial=len(nontrivial), disagreements=disagreements, samples=samples, distribution=dist,
                note='booleans computed by vm_compute inside coqc: text after the plain SELECT = concat (generic_for_update / sqlite_for_update flags); '
                     'thread_case / obs_eqb as in C19')


def locking_read_anomalies(c, o):
    """every successful get_for_update / for_update() of a session leaves the lock held (observed right after the operation)"""
    res = []
    for (op, _catch, arg), oc, lk in zip(c['ops'], o['sessions'][0]['outcomes'], o['sessions'][0].get('lock_after_op', [])):
        if op in ('forupd', 'forupd_u', 'forupd_c', 'forupd_r', 'forupd_rt', 'qforupd') and oc == 'ok' and not lk:
            res.append(('locking-read-without-lock:%s:%s' % (op, c['shape']), '%s(%s) returned without the provider lock being held (%s session, ops %s, faults %s)' % (op, arg, c['shape'], c['ops'], c['faults'])))
            break
    return res


def session_stmt_anomalies(c, o):
    """C35_serializable_begin on the real trace: in an immediate-shape session every select/write runs inside a transaction with the lock held"""
    res = []
    if c['shape'] == 'opt': return res
    for i, e in enumerate(o['trace']):
        if e[0] == 'execute' and e[1] in ('select', 'write') and not (e[4] and e[5]):
            res.append(('statement-outside-immediate-transaction:%s:%s' % (c['shape'], e[1]),
                        'a %s of a %s session ran %s (%s, faults %s, call %d)' % (e[1], c['shape'], 'without the provider lock' if not e[4] else 'outside BEGIN IMMEDIATE', c['ops'], c['faults'], i)))
            break
    return res


def sql_anomalies(sqlrecs):
    """property-level oracle on the SQL text, independent of the translated builder"""
    res = []
    plain = {(x['provider'], x['form']): x.get('sql') for x in sqlrecs if not x['for_update']}
    for x in sqlrecs:
        if not x['for_update'] or (x['nowait'] and x['skip_locked']): continue
        tag = '%s:%s:nowait=%s:skip_locked=%s' % (x['provider'], x['form'], x['nowait'], x['skip_locked'])
        if 'error' in x:
            res.append(('for-update-sql-error:' + tag, 'building the SQL of a for_update query fails: %s (%s)' % (x['error'], tag), x)); continue
        sql = x['sql'] or ''
        if x['provider'] == 'sqlite':
            if sql != plain.get((x['provider'], x['form'])):
                res.append(('sqlite-for-update-text:' + tag, 'SQLite: the SQL of the locking query differs from the plain query (SQLite has no FOR UPDATE): %r' % sql[-60:], x))
        else:
            tail = sql[sql.rfind('FOR UPDATE'):] if 'FOR UPDATE' in sql else ''
            want = 'FOR UPDATE' + (' NOWAIT' if x['nowait'] else '') + (' SKIP LOCKED' if x['skip_locked'] else '')
            if tail.strip() != want:
                res.append(('for-update-text:' + tag, '%s: the locking query ends with %r, expected %r' % (x['provider'], tail.strip() or sql[-40:], want), x))
    return res


def failures_of(r):
    fl, seen = [], set()
    def add(key, what, payload):
        if key in seen: return
        seen.add(key); fl.append(Failure(key, what, payload))
    for key, what, x in sql_anomalies(r['sql']):
        add(key, what, {'kind': 'sql', 'case': x, 'key': key})
    for c, o in zip(r['rcases'], r['routs']):
        if 'harness_error' in o:
            add('rmw-schedule-driver-error', 'driver failed: %s' % o['harness_error'][-300:], {'kind': 'rmw', 'case': c}); continue
        for key, what in rmw_anomalies(c, o): add(key, what, {'kind': 'rmw', 'case': c, 'key': key})
    for c, o in zip(r['tcases'], r['touts']):
        if 'harness_error' in o or o.get('skipped'): continue
        for key, what in rmw_anomalies(dict(c, name=c.get('name')), dict(o, rows_after=None)): add(key, what, {'kind': 'threads', 'case': c, 'key': key})
    for c, o in zip(r['scases'], r['souts']):
        if 'harness_error' in o or o.get('skipped'): continue
        for key, what in session_stmt_anomalies(c, o) + locking_read_anomalies(c, o): add(key, what, {'kind': 'session', 'case': c, 'key': key})
    return fl


def search(ctx, deep):
    r = runs(ctx, deep or ctx.thorough)
    fl = failures_of(r)
    nontriv = set()
    dist = {'rmw_schedules': 0, 'rmw_with_blocking': 0, 'rmw_same_row_two_sessions': 0, 'rmw_failed_sessions': 0, 'sessions': len(r['scases'])}
    for c, o in zip(r['rcases'], r['routs']):
        if 'harness_error' in o: continue
        dist['rmw_schedules'] += 1
        blocked = any(e[3] == 'blocked' for e in o['effective'])
        rows = {}
        for t, op, arg, outc, _ in o['effective']:
            if op in ('set', 'forupd', 'qforupd', 'load') and outc not in ('skipped', 'noop'): rows.setdefault(arg, set()).add(t)
        shared = any(len(v) > 1 for v in rows.values())
        dist['rmw_with_blocking'] += blocked; dist['rmw_same_row_two_sessions'] += shared
        dist['rmw_failed_sessions'] += sum(1 for e in o['effective'] if e[3] not in ('ok', 'skipped', 'noop', 'blocked', 'rolled-back'))
        if blocked or shared: nontriv.add(json.dumps(c['steps']))
    dist['sql_texts'] = len(r['sql'])
    return Search(evaluations=dist['rmw_schedules'] + len(r['tcases']) + len(r['scases']) + len(r['sql']), failures=fl, nontrivial=len(nontriv), distribution=dist, exhaustive=False,
                  samples=[{'oracle': 'every row ends with 100 x (number of sessions that committed an increment on it); driver-level transactions of different threads never overlap; '
                                      'no write outside / during a foreign transaction; statements of immediate-shape sessions run inside BEGIN IMMEDIATE with the lock held'}])


def replay(ctx, data):
    c = data['case']
    if data.get('kind') == 'sql':
        recs = cc.run_driver({'mode': 'sql_text', 'providers': [c['provider']], 'forms': [c['form']]})
        for key, what, x in sql_anomalies(recs):
            if data.get('key') is None or key == data['key']: return Failure(key, what, data)
        return None
    if data.get('kind') == 'session':
        o = cc.run_driver({'mode': 'sessions', 'cases': [c]})[0]
        an = [] if 'harness_error' in o else session_stmt_anomalies(c, o) + locking_read_anomalies(c, o)
    else:
        o = cc.run_driver({'mode': 'threads', 'cases': [c]})[0]
        if 'harness_error' in o: an = [('rmw-schedule-driver-error', o['harness_error'][-300:])]
        else: an = rmw_anomalies(c, o if data.get('kind') == 'rmw' else dict(o, rows_after=None))
    for key, what in an:
        if data.get('key') is None or key == data['key']: return Failure(key, what, data)
    return None


LEVEL_TEXT = ('Machine-checked proof (Coq 8.16.1) on SQLite\'s mechanism: in every reachable state of any number of threads a session holding objects loaded with for_update()/get_for_update() '
              'is in an immediate transaction, holds the provider lock, and no other session of the process is in a transaction (C35_sqlite_mutex); meanwhile any step of another thread '
              'blocks or issues no write (C35_no_concurrent_write); every statement of a serializable (immediate, ddl) session - under any faults - runs inside BEGIN IMMEDIATE with the lock held '
              '(C35_serializable_begin); get_for_update through the pk / unique-key / composite-key / one-to-one routes, object cached or not, leaves the session in its transaction with the lock held, '
              'or fails loudly for the column-less one-to-one side (C35_get_for_update_locks, C35_get_for_update_reverse); the SQL builders append FOR UPDATE [NOWAIT] [SKIP LOCKED] for PostgreSQL/MySQL and nothing for SQLite (C35_for_update_sql, builder re-translated from '
              'source on every run). Tied by trace correspondence on deterministic thread schedules and by SQL text correspondence over (provider, form, nowait, skip_locked).')
LEVEL_NOTE = ('Partial: PostgreSQL/MySQL/Oracle row locking and PostgreSQL serializable isolation are trusted (only the SQL text is checked; Oracle by text comparison only); '
              'cross-process SQLite file locking itself is trusted (Pony\'s reaction to a write lock held by another process - failing BEGIN IMMEDIATE, lock released, later session succeeds, no committed write lost - is tied by a real two-process run in C19); "no committed write lost" for ORM read-modify-write (optimistic checks, C20) is checked by the schedule search, not proved here.')
TECHNIQUE = ('Coq invariant proof over the C19 state-machine model lifted to thread schedules; py2coq-style translation of SELECT_FOR_UPDATE; vm_compute correspondence of SQL text and of '
             'deterministic two/three-thread schedules on a SQLite file; no-lost-committed-write / disjoint-transaction search oracle')
DESIGN_REF = 'DESIGN.md section 5, C35'
