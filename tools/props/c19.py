"""C19 - Connections and the SQLite transaction lock are always released."""
import json
import vlib
import c19_common as cc
from vlib import Corr, Search, Failure

ID = 'C19'
LEVEL = 'proof'
PROPS = ['Props/C19.v']
TRUSTED = [
    'hand-written model Model/C19Txn.v of SQLiteProvider (acquire_lock, release_lock, set_transaction_mode, commit, rollback, drop, release), '
    'SQLitePool._connect, Pool.connect/release/drop, DBAPIProvider.connect/commit/rollback/release/drop/execute, SessionCache.connect/reconnect/'
    'prepare_connection_for_query_execution/flush/commit/rollback/release/close, Database._exec_sql/_get_cache/commit/rollback/get_connection, '
    'module-level flush/commit/rollback/rollback_and_reraise and DBSessionContextManager._commit_or_rollback; tied to /repo on every run: the model '
    'and real Pony are run on the same session programs with the same DB-API calls made to fail and must produce the same driver-call trace '
    '(call, connection, outcome, lock state, driver transaction flag), the same exception, lock, pool, close counts and pragma state (vm_compute inside coqc)',
    'fault injection harness tools/c19_driver.py (proxy for pony.orm.dbproviders.sqlite.sqlite; a failing call raises sqlite3.OperationalError instead of being performed; '
    'a failing close() still gives the handle up)',
    'threading.Lock is a mutex; localbase (Pool, local.db2cache) is per thread; a thread blocked in acquire_lock has only performed thread-local work (connect) before',
    'several threads are modelled at the granularity of one session operation per atomic step; the real runs use a deterministic scheduler that replaces '
    'provider.transaction_lock / pre_transaction_lock by an instrumented lock',
]
ASSUMPTIONS = [
    'file database (SQLitePool.drop closes the connection; :memory: and shared-memory databases keep it)',
    'no on_connect hooks, no after-save hooks that modify objects, one Database per session, allowed_exceptions = (), no retry; interactive mode and fork are outside (C36)',
    'executemany (many-to-many link tables) is not used by the programs; it is one more execute as far as the transaction machinery is concerned',
    'faults are exceptions of the DB-API module raised by the listed calls; KeyboardInterrupt-like asynchronous exceptions are outside',
]
RULE = ('session programs: hand-written templates for the shapes read-only / optimistic write / immediate / serializable / ddl (with mid-session commit, rollback, '
        'Database.commit/rollback, get_connection, for_update, caught exceptions, raising bodies) plus seeded random bodies and two-session sequences, each started with a '
        'pooled connection, after a disconnect, and in a fresh thread; faults: every single call index (exhaustive), seeded pairs and triples. Thread schedules: templates + seeded '
        'random schedules of 2-3 threads with per-thread faults. non-trivial = a fault hit a call that was actually made (the trace contains a failed call) or a step blocked; '
        'distinct = distinct (program, start, fault set)')

_cache = {}


def runs(ctx, deep=False):
    """the executed session cases and thread cases of this run (shared by correspondence and search)"""
    key = (id(ctx), bool(deep))
    if key in _cache: return _cache[key]
    base = cc.session_base_cases(ctx, deep)
    outs0 = cc.run_driver({'mode': 'sessions', 'cases': base})
    fault_cases = cc.session_fault_cases(ctx, base, outs0, deep)
    outs1 = cc.run_driver({'mode': 'sessions', 'cases': fault_cases})
    tcases = cc.thread_cases(ctx, deep)
    touts = cc.run_driver({'mode': 'threads', 'cases': tcases})
    r = {'cases': base + fault_cases, 'outs': outs0 + outs1, 'tcases': tcases, 'touts': touts}
    _cache[key] = r
    return r


def case_key(c):
    return json.dumps([c['shape'], c.get('start'), c['ops'], c.get('more', []), c.get('faults', [])], sort_keys=True)


def correspondence(ctx):
    r = runs(ctx, ctx.thorough)
    exprs, meta, disagreements = [], [], []
    nontrivial = set()
    dist = {'session_cases': 0, 'fault_free': 0, 'single_fault': 0, 'multi_fault': 0, 'by_shape': {}, 'by_start': {}, 'exceptions': {}, 'thread_cases': 0, 'blocked_steps': 0}
    for c, o in zip(r['cases'], r['outs']):
        if o.get('skipped'): continue
        if 'harness_error' in o:
            disagreements.append({'what': 'implementation driver failed on a session case', 'input': c, 'impl': o['harness_error'][-800:]})
            continue
        try:
            exprs.append(cc.coq_case(c, o)); meta.append(('session', c, o))
        except cc.Unmodelled as e:
            disagreements.append({'what': 'observation outside the modelled vocabulary: %s' % e, 'input': c, 'impl': o.get('sessions')})
            continue
        dist['session_cases'] += 1
        nf = len(c.get('faults', []))
        dist['fault_free' if nf == 0 else 'single_fault' if nf == 1 else 'multi_fault'] += 1
        dist['by_shape'][c['shape']] = dist['by_shape'].get(c['shape'], 0) + 1
        dist['by_start'][c.get('start')] = dist['by_start'].get(c.get('start'), 0) + 1
        ex = o['sessions'][-1]['exc']
        dist['exceptions'][ex] = dist['exceptions'].get(ex, 0) + 1
        if any(not e[3] for e in o['trace']): nontrivial.add(case_key(c))
    bad = cc.run_bools(ctx, exprs, chunk=300, name='ses')
    for i in bad[:10]:
        _, c, o = meta[i]
        d = {'what': 'model and implementation differ on a session program', 'input': c, 'impl': cc.coq_observation(o)[:1500]}
        try: d['model'] = cc.model_observation(ctx, c)[:1500]
        except Exception as e: d['model'] = 'n/a: %s' % e
        disagreements.append(d)
    # threads
    texprs, tmeta = [], []
    for c, o in zip(r['tcases'], r['touts']):
        if o.get('skipped'): continue
        if 'harness_error' in o:
            disagreements.append({'what': 'implementation driver failed on a thread schedule', 'input': c, 'impl': o['harness_error'][-800:]})
            continue
        if o.get('failed'):
            continue        # reported by the search oracle
        try:
            texprs.append(cc.coq_thread_case(c, o)); tmeta.append((c, o))
        except cc.Unmodelled as e:
            disagreements.append({'what': 'thread observation outside the modelled vocabulary: %s' % e, 'input': c, 'impl': o.get('effective')})
            continue
        dist['thread_cases'] += 1
        nb = sum(1 for e in o['effective'] if e[3] == 'blocked')
        dist['blocked_steps'] += nb
        if nb: nontrivial.add(json.dumps(['threads', c['steps'], c['faults']], sort_keys=True))
    tbad = cc.run_bools(ctx, texprs, chunk=25, name='thr', header=cc.THREAD_HEADER)
    for i in tbad[:5]:
        c, o = tmeta[i]
        disagreements.append({'what': 'model and implementation differ on a thread schedule', 'input': c, 'impl': {'effective': o['effective'], 'traces': o['traces']}})
    samples = []
    if meta: samples.append({'case': {k: meta[0][1][k] for k in ('shape', 'start', 'ops', 'faults')}, 'coq_case': exprs[0][:600]})
    for kind, c, o in meta:
        if len(c.get('faults', [])) == 2 and o['sessions'][-1]['exc'] == 'ECommit':
            samples.append({'case': {k: c[k] for k in ('shape', 'start', 'ops', 'faults')}, 'trace': o['trace'], 'after': o['after']}); break
    if tmeta: samples.append({'thread_schedule': tmeta[0][0]['steps'], 'effective': tmeta[0][1]['effective']})
    return Corr(cases=len(exprs) + len(texprs), nontrivial=len(nontrivial), disagreements=disagreements, samples=samples, distribution=dist,
                note='every case is one boolean computed by vm_compute inside coqc: obs_eqb (observe (run_sessions oracle sessions start)) <implementation observation>, '
                     'resp. thread_case (global run of the effective schedule) <per-step outcomes, final lock, per-thread traces>')


def failures_of(r):
    fl, seen = [], set()
    for c, o in zip(r['cases'], r['outs']):
        if o.get('skipped'): continue
        if 'harness_error' in o:
            key = 'session-deadlock' if o.get('deadlock') else 'session-harness-error'
            if key not in seen:
                seen.add(key)
                fl.append(Failure(key, 'the session did not finish / the driver failed: %s' % o['harness_error'][-300:], {'kind': 'session', 'case': c, 'key': key}))
            continue
        for key, what in cc.session_anomalies(c, o):
            if key in seen: continue
            seen.add(key)
            fl.append(Failure(key, what, {'kind': 'session', 'case': {k: c[k] for k in c if k not in ('n',)}, 'key': key}))
    for c, o in zip(r['tcases'], r['touts']):
        if 'harness_error' in o: continue
        for key, what in cc.thread_anomalies(c, o):
            if key in seen: continue
            seen.add(key)
            fl.append(Failure(key, what, {'kind': 'threads', 'case': {k: c[k] for k in c if k not in ('n',)}, 'key': key}))
    return fl


def search(ctx, deep):
    r = runs(ctx, deep or ctx.thorough)
    fl = failures_of(r)
    nontriv = set()
    dist = {'sessions_checked': 0, 'with_failed_call': 0, 'schedules_checked': 0, 'schedules_with_blocking': 0}
    for c, o in zip(r['cases'], r['outs']):
        if 'harness_error' in o: continue
        dist['sessions_checked'] += 1
        if any(not e[3] for e in o['trace']):
            dist['with_failed_call'] += 1; nontriv.add(case_key(c))
    for c, o in zip(r['tcases'], r['touts']):
        if 'harness_error' in o: continue
        dist['schedules_checked'] += 1
        if any(e[3] == 'blocked' for e in o['effective']):
            dist['schedules_with_blocking'] += 1; nontriv.add(json.dumps(['threads', c['steps'], c['faults']], sort_keys=True))
    return Search(evaluations=dist['sessions_checked'] + dist['schedules_checked'], failures=fl, nontrivial=len(nontriv), distribution=dist,
                  exhaustive=False,
                  samples=[{'oracle': 'after the session(s): lock free, no cache registered, every connection pooled-after-rollback or closed exactly once, '
                                      'pooled connection fully initialised, a following immediate session works in the same and in another thread'}])


def replay(ctx, data):
    if data.get('kind') == 'threads':
        o = cc.run_driver({'mode': 'threads', 'cases': [data['case']]})[0]
        an = [] if 'harness_error' in o else cc.thread_anomalies(data['case'], o)
    else:
        o = cc.run_driver({'mode': 'sessions', 'cases': [data['case']]})[0]
        if 'harness_error' in o:
            an = [('session-deadlock' if o.get('deadlock') else 'session-harness-error', o['harness_error'][-300:])]
        else:
            an = cc.session_anomalies(data['case'], o)
    want = data.get('key')
    for key, what in an:
        if want is None or key == want:
            return Failure(key, what, data)
    return None


LEVEL_TEXT = ('Machine-checked proof (Coq 8.16.1) over an executable model of the SQLite provider / Pool / SessionCache / db_session-exit code: for every session shape '
              '(read-only, optimistic write, immediate, serializable, ddl), every body (any operation list incl. raw writes, many-to-many-only flushes, locking lookups, caught exceptions, '
              'repeated mid-session commit/rollback) and every fault oracle (any set of DB-API calls raising), the session terminates, the provider lock is free, no cache is registered, '
              'the connection is pooled after a successful rollback or closed exactly once, and no protocol violation (double release, stolen lock) occurs (C19_released); for every schedule '
              'of any number of threads the lock is held iff exactly one cache is in an (immediate) transaction (C19_lock_inv); following sessions never block, the holder\'s exit frees the '
              'lock (C19_progress, C19_progress_threads); after ANY faulty sessions a session whose own calls do not fail succeeds (C19_following_session_succeeds); Database.disconnect() '
              'closes every connection exactly once (C19_disconnect). Tied to /repo on every run by trace/end-state correspondence under exhaustive single-fault injection (plus pairs, '
              'triples, real "database is locked" COMMIT/BEGIN failures caused by a second connection and by a second PROCESS, thread schedules).')
LEVEL_NOTE = ('No open findings (three were fixed by /repo 54964b5; their oracles remain). Trusted: the hand-written model (correspondence is differential testing), threading.Lock, '
              'per-thread locals, atomic-step granularity of the thread model; connections of threads that simply exit are left to the garbage collector (outside the statement).')
TECHNIQUE = ('Coq state-machine model with a fault oracle; invariant proved by exhaustive symbolic execution of the provider-level blocks and Hoare-style composition '
             '(induction over pending writes, operation lists, session lists, schedules); vm_compute correspondence of driver-call traces and end states against real Pony with faults '
             'injected through a sqlite3 proxy; deterministic thread scheduler; exhaustive single-fault search with a property oracle')
DESIGN_REF = 'DESIGN.md section 5, C19'
