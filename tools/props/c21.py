"""C21 - Repeated reads in a session return the same value or fail loudly."""
import itertools, json
import vlib
from vlib import Corr, Search, Failure

ID = 'C21'
LEVEL = 'proof'
PROPS = ['Props/C21.v']
TRUSTED = [
    'hand-written model Model/C21Reload.v of Entity._db_set_ / Attribute.db_set (per-attribute reload decision), Attribute.__get__/__set__ bits, '
    'volatile exemption, Set.load / copy / __len__, Set.db_reverse_add, Set.db_reverse_remove (with its phantom-disappeared check) and the many-to-many phantom checks; tied on every '
    'run by replaying every enumerated history (reader operations with committed writer sessions inserted at every position) on real '
    'db_sessions over a SQLite file and comparing failure flag and every observation with the model inside Coq (vm_compute)',
    'the harness (tools/c20_sessions.py, c21_driver.py): worker threads stepped by a controller (a hard timeout only reports a hang; whether a writer action can be applied is decided by reading provider.transaction_lock.locked()); the external values a re-fetch brings are read '
    'from the file with a raw sqlite3 connection just before the reader operation; for len() the set content and, after every observation, the read bits of the members\' back-reference are peeked from obj._vals_ / item._rbits_',
]
ASSUMPTIONS = [
    'a re-fetch of a row is a query in the reading session that returns the object again (or the first access, or a lazy attribute load); '
    'its columns arrive in attribute order; a query or commit() of the reading session while it has unflushed writes flushes first (Flush event: UPDATE with the optimistic criteria, read bits kept, written attributes gain one); writer actions are skipped while the reader holds the write lock',
    'identical queries are answered from the session\'s query-result cache without touching the database: the harness makes every re-fetch a distinct query',
    'collections: one collection of one object; batch prefetching of other objects\' collections is switched off (nplus1_threshold=1000); '
    'the reading session does not modify the collection itself',
    'the statement is about values observed THROUGH AN OBJECT (attribute access, collection of an object): a scalar projection (select(p.a for p in P)) creates no object state and no read bit, so a value seen only in a projection is not protected, and a projection itself always shows the current database value even if the session holds an older one '
    '(pinned by a decision test on every run: 4 scenarios); re-fetching the OBJECT by a query is protected',
]
RULE = ('exhaustive: every reader program of a fixed pool (scalar: reads / re-fetch queries / own writes over plain, volatile and lazy attributes; '
        'one-to-many (back-reference plain / member of a secondary unique key / member of the primary key) and many-to-many collections: len / iteration / re-fetch of items / load of the other side) x every writer action '
        '(committed by another session) x every insertion position (pairs of writer actions for a seed-dependent subset of programs in the quick tier, for all in thorough; triples for two programs in thorough); a to-one reference re-pointed under the reader; '
        'non-trivial = the run ended in UnrepeatableReadError or an observation was made after a writer action; distinct = distinct operation sequences')

VOL = '[false; false; true; false]'
VOLATILE = [False, False, True, False]

SC_PROGS = [
    [['R', 0], ['F'], ['R', 0]],
    [['R', 0], ['R', 1], ['F'], ['R', 1], ['R', 0]],
    [['F'], ['R', 0], ['F'], ['R', 0]],
    [['R', 2], ['F'], ['R', 2]],
    [['R', 3], ['F'], ['R', 3]],
    [['R', 0], ['R', 3], ['R', 0]],
    [['R', 1], ['F'], ['F'], ['R', 0], ['R', 1]],
    [['R', 0], ['W', 0, 5], ['R', 0]],
    [['W', 1, 5], ['R', 1], ['R', 0]],
    [['R', 2], ['W', 2, 5], ['R', 2]],
    # own writes followed by a flush (query / commit() in the middle of the session) and later re-fetches: the flush keeps the read bits
    [['R', 0], ['W', 1, 5], ['K'], ['F'], ['R', 0]],
    [['R', 0], ['W', 1, 5], ['F'], ['R', 0], ['K'], ['F'], ['R', 0]],
    [['R', 0], ['W', 0, 5], ['K'], ['F'], ['R', 0]],
    [['R', 0], ['R', 1], ['W', 1, 6], ['K'], ['F'], ['R', 1], ['R', 0]],
    [['R', 1], ['W', 2, 5], ['K'], ['R', 2], ['F'], ['R', 1], ['R', 2]],
    [['W', 1, 5], ['K'], ['R', 0], ['F'], ['R', 0]],
    [['R', 0], ['W', 1, 5], ['R', 3], ['K'], ['F'], ['R', 0], ['R', 3]],
    # blind write -> dirty read (no read bit while the write bit is set) -> flush/commit (the written attribute gains its read bit) -> re-fetch -> read
    [['W', 0, 5], ['R', 0], ['K'], ['F'], ['R', 0]],
    [['W', 1, 5], ['R', 1], ['F'], ['R', 1], ['K'], ['F'], ['R', 1]],
]
SC_ACTS = [['X', 0, 9], ['X', 1, 9], ['X', 2, 9], ['X', 3, 9], ['X', 0, None]]
SC_DB0 = [1, 2, 3, 4]

O2M_PROGS = [
    [['len'], ['refetch_items'], ['len']],
    [['copy'], ['refetch_items'], ['len']],
    [['len'], ['refetch_items'], ['copy']],
    [['len'], ['refetch_item', 1], ['len'], ['refetch_item', 3], ['len']],
    [['refetch_item', 3], ['len'], ['refetch_item', 3], ['copy']],
    [['refetch_items'], ['copy'], ['refetch_items'], ['copy']],
    [['len'], ['len']],
]
O2M_ACTS = [['move', i, g] for i in (1, 2, 3) for g in (1, 2, None) if not (i in (1, 2) and g == 1) and not (i == 3 and g == 2)]
PK_ACTS = [['move', 1, 2], ['move', 2, 2], ['move', 3, 1]]      # pk-member back-reference: only moves between existing owners
M2M_PROGS = [
    [['len'], ['load_rev', 1], ['len']],
    [['len'], ['load_rev', 3], ['len']],
    [['copy'], ['load_rev', 2], ['copy']],
    [['load_rev', 3], ['len'], ['load_rev', 1], ['len']],
    [['load_rev', 1], ['load_rev', 3], ['copy'], ['load_rev', 2], ['len']],
    [['len'], ['len']],
]
M2M_ACTS = [['link', 3], ['unlink', 1], ['unlink', 2]]


def insertions(prog, acts, m):
    """all ways to insert a sequence of m writer actions at (non-decreasing) positions of prog"""
    n = len(prog)
    for seq in itertools.product(range(len(acts)), repeat=m):
        for pos in itertools.combinations_with_replacement(range(n + 1), m):
            out, k = [], 0
            for i in range(n + 1):
                while k < m and pos[k] == i:
                    out.append(acts[seq[k]]); k += 1
                if i < n: out.append(prog[i])
            yield out


def valid_scalar(ops):
    """every sequence is valid now: a query of the reader after an own write flushes first (Flush event); writer actions that would
    block on the reader's open transaction are skipped by the driver"""
    return True


def valid_coll(ops):
    """writer actions must be applicable: link only a missing tag, unlink only a present one"""
    tags = {1, 2}
    for op in ops:
        if op[0] == 'link':
            if op[1] in tags: return False
            tags.add(op[1])
        if op[0] == 'unlink':
            if op[1] not in tags: return False
            tags.discard(op[1])
    return True


def gen_cases(ctx, deep=False):
    big = ctx.thorough or deep          # pairs of writer actions for every program
    huge = ctx.thorough                 # triples of writer actions
    cases, seen = [], set()
    def put(c):
        k = json.dumps(c, sort_keys=True)
        if k not in seen:
            seen.add(k); cases.append(c)
    for k, prog in enumerate(SC_PROGS):
        for m in (0, 1) + ((2,) if big or k in ((0, 10) if ctx.seed % 2 == 0 else (1, 7)) else ()):
            for ops in insertions(prog, SC_ACTS, m):
                if valid_scalar(ops): put({'kind': 'scalar', 'db0': SC_DB0, 'ops': ops})
    # to-one reference (I[1].owner) changing under the reader: the value is the identity of the referenced row
    for prog in ([['R'], ['F'], ['R']], [['F'], ['R'], ['F'], ['R']], [['R'], ['F'], ['F'], ['R']]):
        for db0 in (1, None):
            for m in (0, 1) + ((2,) if big else ()):
                for ops in insertions(prog, [['X', 2], ['X', None], ['X', 1]], m):
                    put({'kind': 'ref', 'db0': db0, 'ops': ops})
    put({'kind': 'proj'})
    for k, prog in enumerate(O2M_PROGS):
        for m in (0, 1) + ((2,) if big or k == ctx.seed % 2 else ()) + ((3,) if huge and k == 0 else ()):
            for ops in insertions(prog, O2M_ACTS, m):
                put({'kind': 'coll', 'm2m': False, 'ops': ops})
    # the same reader programs on a one-to-many whose back-reference is a member of a secondary unique key (composite_key(owner, number))
    # and on one whose back-reference is a member of the primary key (the exempt case of Set.copy; items are moved by a raw connection)
    for k, prog in enumerate(O2M_PROGS):
        for m in (0, 1) + ((2,) if big and k in (0, 1, 5) else ()):
            for ops in insertions(prog, O2M_ACTS, m):
                put({'kind': 'coll', 'm2m': False, 'ref': 'unique', 'ops': ops})
            for ops in insertions(prog, PK_ACTS, m):
                put({'kind': 'coll', 'm2m': False, 'ref': 'pk', 'ops': ops})
    for k, prog in enumerate(M2M_PROGS):
        for m in (0, 1) + ((2,) if big or k == (0, 3)[ctx.seed % 2] else ()) + ((3,) if huge and k in (0, 3) else ()):
            for ops in insertions(prog, M2M_ACTS + ([['link', 1], ['link', 2], ['unlink', 3]] if m >= 2 else []), m):
                if valid_coll(ops): put({'kind': 'coll', 'm2m': True, 'ops': ops})
    return cases


# ------------------------------------------------------------------------------------------------ implementation runs (cached)

_cache = {}

def case_key(c):
    return json.dumps(c, sort_keys=True)

class DriverProblem(Exception):
    def __init__(self, what, case):
        Exception.__init__(self, str(what)); self.what = what; self.case = case

def run_real(cases):
    todo = [c for c in cases if case_key(c) not in _cache]
    if todo:
        out = vlib.run_impl('c21_driver.py', {'cases': todo}, timeout=1500)
        for c, r in zip(todo, out['results']):
            _cache[case_key(c)] = r
        if out.get('error') or out.get('stuck'):
            k = len(out['results'])
            raise DriverProblem(out.get('stuck') or out.get('error'), todo[k] if k < len(todo) else None)
    return [_cache[case_key(c)] for c in cases]


# ------------------------------------------------------------------------------------------------ Coq serialisation

def cval(v):
    return 'None' if v is None else '(Some %s)' % vlib.cz(v)

def clist(xs, f):
    return '[' + '; '.join(f(x) for x in xs) + ']'

def cnats(xs):
    return '(' + clist(xs, str) + '%nat : list nat)' if xs else '(@nil nat)'

def cev(e):
    if e[0] in ('Read', 'Write', 'Load'): return '(%s %d %s)' % (e[0], e[1], cval(e[2]))
    if e[0] == 'Flush': return '(Flush [%s])' % '; '.join('(%d%%nat, %s)' % (a, cval(v)) for a, v in e[1])
    if e[0] in ('CObsCopy', 'CObsLen'): return '(%s %s)' % (e[0], cnats(e[1]))
    if e[0] == 'Copy': return '(copy_event %s %s)' % (vlib.cbool(e[1]), cnats(e[2]))
    if e[0] in ('CItemReload', 'CRevLoad'): return '(%s %d %s)' % (e[0], e[1], vlib.cbool(e[2]))
    raise ValueError(e)

def coq_case(c, r):
    if c['kind'] in ('scalar', 'ref'):
        tev = clist(r['events'], lambda e: '(%s %d %s)' % ('TObs' if e[0] == 'obs' else 'TWrite', e[1], cval(e[2])))
        return 'outcome_eqb (outcome VOL %s) (%s, %s)' % (clist(r['model'], cev), vlib.cbool(r['failed']), tev)
    obs = '[' + '; '.join(cnats(e[2]) for e in r['events']) + ']'
    pins = '[' + '; '.join(cnats(e[3]) for e in r['events']) + ']'
    if not r['events']: obs = pins = '(@nil (list nat))'
    evs = clist(r['model'], cev)
    return ('coutcome_eqb (coutcome %s %s) (%s, %s) && list_eqb (list_eqb Nat.eqb) (cpins %s cinit %s) %s'
            % (vlib.cbool(c['m2m']), evs, vlib.cbool(r['failed']), obs, vlib.cbool(c['m2m']), evs, pins))

HEADER = ('From Coq Require Import ZArith List Bool.\nImport ListNotations.\nRequire Import PonyV.Model.C21Reload.\n\nOpen Scope nat_scope.\n'
          'Definition VOL : list bool := %s.\n' % VOL)


def run_bools(ctx, exprs, chunk=900):
    chunks = []
    for i in range(0, len(exprs), chunk):
        chunks.append('Definition cases : list bool := [\n' + ';\n'.join(exprs[i:i + chunk]) + '].\nEval vm_compute in (failing cases).\n')
    outs = vlib.coq_eval_many(ctx, HEADER, chunks)
    bad = []
    for k, out in enumerate(outs):
        vals = vlib.parse_eval_outputs(out)
        assert len(vals) == 1, out[-500:]
        inner = vals[0].strip().strip('[]').strip()
        if inner:
            for tok in inner.split(';'):
                bad.append(k * chunk + int(tok.strip().replace('%nat', '')))
    return bad


def nontrivial_case(c, r):
    if c['kind'] == 'proj': return False
    if r['failed']: return True
    seen_writer = False
    for op in c['ops']:
        if op[0] in ('X', 'move', 'link', 'unlink'): seen_writer = True
        elif seen_writer and op[0] in ('R', 'copy', 'len'): return True
    return False


def correspondence(ctx):
    cases = gen_cases(ctx)
    disagreements, samples = [], []
    dist = {'scalar': 0, 'one_to_many': 0, 'one_to_many_ref_in_unique_key': 0, 'one_to_many_ref_in_pk': 0, 'many_to_many': 0, 'ended_in_UnrepeatableReadError': 0, 'writer_actions': 0, 'observations': 0}
    try:
        results = run_real(cases)
    except DriverProblem as e:
        return Corr(cases=len(_cache), disagreements=[{'what': 'real sessions did not finish (deadlock or driver error)', 'input': e.case, 'impl': str(e.what)[:1500]}])
    exprs, meta, nontriv = [], [], set()
    for c, r in zip(cases, results):
        if c['kind'] == 'proj':
            want = [{'name': 'projection, then attribute of the (not yet loaded) object', 'first': 1, 'second': 9},
                    {'name': 'attribute of the object, then projection', 'first': 1, 'second': 9},
                    {'name': 'projection, then another projection', 'first': 1, 'second': 9},
                    {'name': 'attribute, then re-fetch of the object by a query', 'first': 1, 'second': 'UnrepeatableReadError'}]
            dist['projection_decisions'] = len(r['table'])
            if r['table'] != want:
                disagreements.append({'what': 'values observed through scalar projections: pinned behaviour changed', 'input': 'proj', 'impl': r['table'], 'model': want})
            continue
        if c['kind'] == 'ref': dist['to_one_reference'] = dist.get('to_one_reference', 0) + 1
        dist['scalar' if c['kind'] in ('scalar', 'ref') else 'many_to_many' if c['m2m'] else {'plain': 'one_to_many', 'unique': 'one_to_many_ref_in_unique_key', 'pk': 'one_to_many_ref_in_pk'}[c.get('ref', 'plain')]] += 1
        dist['ended_in_UnrepeatableReadError'] += bool(r.get('failed'))
        dist['writer_actions'] += sum(1 for op in c['ops'] if op[0] in ('X', 'move', 'link', 'unlink'))
        dist['observations'] += len(r['events'])
        if r['other'] or r['lock_left_held']:
            disagreements.append({'what': 'unexpected exception or lock left held', 'input': c, 'impl': [r['other'], r['lock_left_held']]})
            continue
        if c['kind'] == 'coll':
            for e in r['events']:
                if e[0] == 'len' and e[1] != len(e[2]):
                    disagreements.append({'what': 'len() differs from the size of the set data', 'input': c, 'impl': e})
        exprs.append(coq_case(c, r)); meta.append((c, r))
        if nontrivial_case(c, r): nontriv.add(case_key(c))
    bad = run_bools(ctx, exprs) if exprs else []
    for i in bad[:20]:
        c, r = meta[i]
        disagreements.append({'what': 'model and real session differ (failure flag / observations / read bits set on the members by copy)', 'input': c,
                              'impl': {'failed': r['failed'], 'events': r['events'], 'model_events': r['model']}, 'coq_case': exprs[i][:1500]})
    picks = [x for x in zip(cases, results) if x[1].get('failed')][:2] + [x for x in zip(cases, results) if x[0]['kind'] == 'coll' and not x[1]['failed']][-1:]
    for c, r in picks:
        samples.append({'case': c, 'failed': r['failed'], 'observed': r['events'], 'model_events': r['model']})
    return Corr(cases=len(exprs), nontrivial=len(nontriv), disagreements=disagreements, samples=samples, distribution=dist,
                note='every case: one Coq bool = outcome_eqb (model outcome of the event history) (real outcome), evaluated by vm_compute')


# ------------------------------------------------------------------------------------------------ search (property oracle)

def oracle(c, r):
    """C21 checked directly on what the real reading session observed (no model). Returns list of (key, what)."""
    bad = []
    if c['kind'] == 'proj': return bad
    if c['kind'] in ('scalar', 'ref'):
        last = {}
        for e in r['events']:
            a = e[1]
            if e[0] == 'obs' and not VOLATILE[a] and a in last and last[a][1] != e[2]:
                bad.append(('scalar:attr=%s:after-%s' % ('abvz'[a], last[a][0]),
                            'attribute %s read as %r after the session had %s %r for it, and no error was raised'
                            % ('abvz'[a], e[2], 'read' if last[a][0] == 'obs' else 'written', last[a][1])))
            last[a] = (e[0], e[2])
    else:
        rel = 'm2m' if c['m2m'] else {'plain': 'o2m', 'unique': 'o2m-ref-in-unique-key', 'pk': 'o2m-ref-in-pk'}[c.get('ref', 'plain')]
        first = None
        for e in r['events']:
            size = e[1] if e[0] == 'len' else len(e[1])
            if first is None:
                first = e; fsize = size; continue
            if size != fsize or (first[0] == 'copy' and e[0] == 'copy' and first[1] != e[1]):
                change = 'shrunk' if size < fsize else 'grown' if size > fsize else 'changed'
                bad.append(('%s:first=%s:%s' % (rel, first[0], change),
                            '%s collection observed with %s as %r, later with %s as %r, and no error was raised'
                            % (rel, first[0], first[1], e[0], e[1])))
                break
    return bad


def touch_cases():
    """search only: the reader iterates the collection (sees member 1), another session moves member 1 away (or not), the reader
    then updates another attribute of member 1 and commits.  Having iterated the collection it has READ the member's back-reference:
    the commit must fail (optimistic check / primary key no longer there) iff the member was moved."""
    out = []
    for ref in ('plain', 'unique', 'pk'):
        targets = [2] if ref == 'pk' else [2, None]
        for obs in ('copy',):
            out.append({'kind': 'coll', 'm2m': False, 'ref': ref, 'commit': True, 'ops': [[obs], ['touch', 1]]})
            for g in targets:
                out.append({'kind': 'coll', 'm2m': False, 'ref': ref, 'commit': True, 'ops': [[obs], ['move', 1, g], ['touch', 1]]})
                out.append({'kind': 'coll', 'm2m': False, 'ref': ref, 'commit': True, 'ops': [['len'], [obs], ['move', 2, g], ['move', 1, g], ['touch', 1]]})
    return out


def touch_oracle(c, r):
    if r['failed'] or r['other']:
        return [('harness:touch-case-failed-early', 'touch scenario ended before the commit: %r %r' % (r['failed'], r['other']))]
    rel = {'plain': 'o2m', 'unique': 'o2m-ref-in-unique-key', 'pk': 'o2m-ref-in-pk'}[c['ref']]
    moved = any(op[0] == 'move' and op[1] == 1 for op in c['ops'])
    if moved and r['commit'] == 'committed':
        return [('%s:iterated-then-updated-moved-member:committed' % rel,
                 '%s collection iterated (member 1 seen), another session moved member 1 away and committed, the reader then updated member 1 and '
                 'its commit succeeded: the back-reference it had read through the iteration was not checked' % rel)]
    if not moved and r['commit'] != 'committed':
        return [('%s:iterated-then-updated-member:spurious-%s' % (rel, r['commit']), 'nothing changed but the commit ended in %s' % r['commit'])]
    return []


def search(ctx, deep):
    cases = gen_cases(ctx, deep) + touch_cases()
    failures, nontriv, seen_keys = [], set(), {}
    dist = {'cases': len(cases), 'reused_from_correspondence': sum(1 for c in cases if case_key(c) in _cache)}
    try:
        results = run_real(cases)
    except DriverProblem as e:
        return Search(evaluations=len(_cache), failures=[Failure('deadlock-or-driver-error', 'real sessions did not finish: %s' % str(e.what)[:500], {'case': e.case})],
                      distribution=dist)
    for c, r in zip(cases, results):
        for key, what in (touch_oracle(c, r) if c.get('commit') else oracle(c, r)):
            if seen_keys.setdefault(key, 0) < 1:
                failures.append(Failure(key, '%s  [%s operations %r]' % (what, c.get('ref', ''), c['ops']), {'case': c}))
            seen_keys[key] += 1
        if nontrivial_case(c, r): nontriv.add(case_key(c))
    dist['failing_cases_by_key'] = seen_keys
    return Search(evaluations=len(cases), failures=failures, nontrivial=0 if dist['reused_from_correspondence'] == len(cases) else len(nontriv),
                  distribution=dist, exhaustive=True,
                  samples=[{'oracle': 'every read of a non-volatile attribute equals the previous read/own write of it; all observations of a collection have the same size/content; unless an error was raised'}])


def replay(ctx, data):
    c = data['case']
    if c is None: return None
    _cache.pop(case_key(c), None)
    try:
        r = run_real([c])[0]
    except DriverProblem as e:
        return Failure('deadlock-or-driver-error', str(e.what)[:500], data)
    bad = touch_oracle(c, r) if c.get('commit') else oracle(c, r)
    if bad: return Failure(bad[0][0], bad[0][1], data)
    return None


LEVEL_TEXT = ('Machine-checked proof (Coq 8.16.1) over an executable model of Pony\'s reload logic: for ALL histories of reads, own writes, own flushes '
              '(a query after a write, commit() in the middle of the session: read bits are kept, written attributes gain one) and re-fetched columns carrying arbitrary external values, every value read for a non-volatile attribute equals the previous value '
              'read or written for it, or the run has ended in UnrepeatableReadError (and the error is raised exactly when a read column comes '
              'back different). Collections (one-to-many and many-to-many): all observations of a collection are equal under all histories of '
              'observations, re-fetched member rows and loads of the other side (the former defect - a member silently dropped from a collection '
              'known only through len() - was repaired in the repo, commit a9972eb, and is now part of the model). Every run replays every reader '
              'program x writer action x insertion position on real sessions over a SQLite file and compares with the model by vm_compute.')
LEVEL_NOTE = ('Partial: one object / one collection; Attribute.db_set is tied only through lazy loads (one-to-one reverse updates are not); the `wbits` branch of _db_set_ '
              '(a reload while writes are pending, reachable only under flush_disabled) is modelled and proved but not tied; batch prefetching is switched off; '
              'scalar projections and values of objects never read are outside the statement (documented, pinned by a decision test); the tie also compares the read bits that iterating a one-to-many collection puts on the members (exempt only for a primary-key back-reference). Trusted: Coq kernel + vm_compute; the session-stepping harness; raw-connection snapshots of '
              'the external values.')
TECHNIQUE = 'Coq invariant proof over all event histories of an executable model; vm_compute correspondence with real reader/writer sessions at every insertion position; property oracle search'
DESIGN_REF = 'DESIGN.md section 5, C21'
