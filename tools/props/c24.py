"""C24 - Query methods agree with list semantics of the full ordered result."""
import itertools, json, sqlite3
import vlib
from vlib import Corr, Search, Failure, cz
from py2coq import querywindow
import c24_chain as C

ID = 'C24'
LEVEL = 'proof'
PROPS = ['Props/C24.v', 'Findings/C24.v']
GEN = [('Gen/C24Window.v', querywindow.generate)]
TRUSTED = [
    'py2coq translator (tools/py2coq/core.py, querywindow.py): combine_limit_and_offset, Query.__getitem__, Query.page/limit/fetch and the DISTINCT decision of '
    'construct_sql_ast are re-translated from /repo on every run; the translation is cross-checked against the real functions on every generated case',
    'hand-written model Model/C24Query.v of how Query._actual_fetch / construct_sql_ast / process_query_qual(try_extend_prev_query) / first / get / exists / _aggregate / '
    'delete compose those pieces; tied by executing generated method chains on real Pony + SQLite and evaluating the same chain in the model by vm_compute',
    'reference semantics: Python list slicing (Base/Seg.v py_slice), SQL LIMIT/OFFSET, DISTINCT (first occurrence kept), ORDER BY (stable sort on integer keys), '
    'SUM/MIN/MAX/AVG/COUNT over a row list -- validated against CPython and the linked SQLite on every run; PostgreSQL LIMIT NULL and MySQL 2^64-1 are documentation models',
    'the exact-list comparison of unordered results relies on SQLite returning rows of a single-table scan in rowid order and DISTINCT rows in first-occurrence order',
]
ASSUMPTIONS = [
    'bounds (limit, offset, slice start/stop, page number >= 1, page size) are non-negative integers or omitted; a negative slice stop silently yields [] and page 0 yields page 1 (outside the statement)',
    'rows are modelled as values with decidable equality; ORDER BY terms as integer-valued keys (DESC = negated key); aggregates over one integer column; avg compared as the exact pair (sum, count)',
    'random(n) is judged as: n (or all) rows, a sub-multiset of R; group_concat of an unordered query is judged up to the order of its parts',
    'joins, GROUP BY/HAVING, prefetch, for_update and the object-loading layer are outside the model (C01/C23); only SQLite executes, PostgreSQL/MySQL/Oracle differ from it here only in the spelling of "no limit"',
]
RULE = ('correspondence: exhaustive small grid for combine_limit_and_offset (None + 0..5 in every position, plus seeded large/negative values), every slice key over -2..4 x step, '
        'pages/limits, every DISTINCT-decision input, every LIMIT-section shape on three dialects; generated method chains (length 0..3 exhaustive for length <= 1, seeded sample above) over '
        'integer-row queries executed on SQLite and evaluated in the model; search: the same chain language on four result shapes, judged against Python list operations on list(q). '
        'non-trivial = the chain contains at least one rewriting op or a non-identity window; distinct = distinct canonical chains / inputs')

HEADER = ('Require Import PonyV.Base.PyBase PonyV.Base.Seg PonyV.Gen.C24Window PonyV.Model.C24Query PonyV.Model.C24More.\nOpen Scope Z_scope.\n'
          'Definition oz_eq := oz_eqb.\n'
          'Definition roz_eqb (a b : result (option Z)) : bool := match a, b with Ok x, Ok y => oz_eqb x y | Err i, Err j => Nat.eqb i j | _, _ => false end.\n'
          'Definition idk : list (Z -> Z) := [fun x => x].\n'
          'Definition idkk : list (Z * Z -> Z) := [fun x => fst x; fun x => snd x].\n'
          'Fixpoint zzlist_eqb (a b : list (Z * Z)) : bool := match a, b with [], [] => true | x :: r, y :: s => zz_eqb x y && zzlist_eqb r s | _, _ => false end.\n'
          'Definition rzzlist_eqb (a b : result (list (Z * Z))) : bool := match a, b with Ok x, Ok y => zzlist_eqb x y | Err i, Err j => Nat.eqb i j | _, _ => false end.\n'
          'Definition rozz_eqb (a b : result (option (Z * Z))) : bool := match a, b with Ok None, Ok None => true | Ok (Some x), Ok (Some y) => zz_eqb x y | Err i, Err j => Nat.eqb i j | _, _ => false end.\n'
          'Definition avg_matches (r : result aggval) (n d : Z) : bool := match r with Ok (VRat s c) => s * d =? n * c | _ => false end.\n')


def copt(x):
    return 'None' if x is None else '(Some %s)' % cz(x)

def cwin(l, o):
    return '(%s, %s)' % (copt(l), copt(o))

def clistz(xs):
    return '[' + '; '.join(cz(x) for x in xs) + ']' if xs else '(@nil Z)'


def run_bools(ctx, exprs, extra_header='', chunk=1000):
    """exprs: Coq bool terms. Returns indexes of the ones that do not evaluate to true."""
    chunks = []
    for i in range(0, len(exprs), chunk):
        part = exprs[i:i + chunk]
        chunks.append('Definition cases : list bool := [\n' + ';\n'.join(part) + '].\nEval vm_compute in (failing cases).\n')
    outs = vlib.coq_eval_many(ctx, HEADER + extra_header, chunks)
    bad = []
    for k, out in enumerate(outs):
        vals = vlib.parse_eval_outputs(out)
        assert len(vals) == 1, out[-500:]
        inner = vals[0].strip().strip('[]').strip()
        if inner:
            for tok in inner.split(';'):
                bad.append(k * chunk + int(tok.strip().replace('%nat', '')))
    return bad


# ------------------------------------------------------------------------------------------------ real pure functions

class FakeQuery(object):
    """stands in for a Query where only `_fetch` is called (Query.__getitem__/page/limit/fetch never touch anything else)"""
    def _fetch(self, limit=None, offset=None, lazy=False):
        return ('fetch', limit, offset, lazy)

def real_method(name, *args):
    from pony.orm.core import Query
    try:
        r = getattr(Query, name)(FakeQuery(), *args)
    except TypeError: return '(Err 0%nat)'
    except AssertionError: return '(Err 2%nat)'
    assert r[0] == 'fetch'
    return '(Ok %s)' % cwin(r[1], r[2])


# ------------------------------------------------------------------------------------------------ chains -> model terms

def dataset_header():
    out = []
    for name, rows in C.DATASETS.items():
        arms_a = ' '.join('| %d => %s' % (i + 1, cz(r[1])) for i, r in enumerate(rows))
        arms_n = ' '.join('| %d => %d' % (i + 1, ord(r[0])) for i, r in enumerate(rows))
        out.append('Definition A_%s (i : Z) : Z := match i with %s | _ => 0 end.' % (name, arms_a))
        out.append('Definition N_%s (i : Z) : Z := match i with %s | _ => 0 end.' % (name, arms_n))
    return '\n'.join(out) + '\n'

class Unmodelled(Exception): pass

PRED_COQ = {'a>1': '(1 <? %s)', 'a<=2': '(%s <=? 2)', 'a>100': '(100 <? %s)', 'a!=3': '(negb (%s =? 3))',
            'name!=b': '(negb (%s =? 98))', 'name>a': '(97 <? %s)'}

def fld(kind, data, f):
    """Coq expression (in variable x) for field f of a row of this kind"""
    if kind in ('a', 'name'):
        if f != kind: raise Unmodelled(f)
        return 'x'
    if kind == 'pair':
        if f not in ('name', 'a'): raise Unmodelled(f)
        return '(fst x)' if f == 'name' else '(snd x)'
    if f == 'id': return 'x'
    return '(%s_%s x)' % ({'a': 'A', 'name': 'N'}[f], data)

def pred_coq(kind, data, pname):
    f = C.PREDS[pname][0]
    return '(fun x => %s)' % (PRED_COQ[pname] % fld(kind, data, f))

def model_chain(chain):
    """Coq terms (query, terminal bool builder) for a chain over kind 'a' or 'ent'. Raises Unmodelled."""
    kind, data = chain['base'], chain['data']
    rows = C.DATASETS[data]
    keepc = pred_coq(kind, data, chain['where']) if chain.get('where') and C.applicable(kind, C.PREDS[chain['where']][0]) else None
    if chain.get('where') and keepc is None:
        # the base query's WHERE is on a column the projection does not keep: fold it into the rows
        rows = [r for r in rows if C.PREDS[chain['where']][1]({'name': r[0], 'a': r[1]}[C.PREDS[chain['where']][0]])]
    if kind == 'name':
        q = 'zquery %s %s false true None no_window' % (clistz([ord(r[0]) for r in rows]), keepc or '(fun _ => true)')
    elif kind == 'pair':
        rowsc = '[' + '; '.join('(%d, %s)' % (ord(r[0]), cz(r[1])) for r in rows) + ']' if rows else '(@nil (Z * Z))'
        q = 'zzquery %s %s false true None no_window' % (rowsc, keepc or '(fun _ => true)')
    elif kind == 'a':
        q = 'zquery %s %s false true None no_window' % (clistz([r[1] for r in rows]),
                                                         pred_coq(kind, data, chain['where']) if chain.get('where') else '(fun _ => true)')
    else:
        q = 'zquery %s %s false false None no_window' % (clistz(list(range(1, len(rows) + 1))),
                                                          pred_coq(kind, data, chain['where']) if chain.get('where') else '(fun _ => true)')
    ordered, total = False, True
    for op in chain.get('ops', []):
        n = op[0]
        if n == 'order':
            spec = C.ORDERS[op[1]]
            ks = []
            for f, dsc in spec:
                if not C.applicable(kind, f): raise C.Unsupported(op[1])
                e = fld(kind, data, f)
                ks.append('(fun x => %s)' % ('- ' + e if dsc else e))
            q = 'add_order [%s] (%s)' % ('; '.join(ks), q)
            ordered = True
        elif n in ('filter', 'where'):
            if not C.applicable(kind, C.PREDS[op[1]][0]): raise C.Unsupported(op[1])
            q = 'add_filter %s (%s)' % (pred_coq(kind, data, op[1]), q)
        elif n == 'kw':
            if kind != 'ent': raise C.Unsupported('kw')
            f, val = C.KWPREDS[op[1]]
            q = 'add_filter (fun x => %s =? %s) (%s)' % (fld(kind, data, f), cz(val if isinstance(val, int) else ord(val)), q)
        elif n in ('hfilter', 'hwhere'):
            e = fld(kind, data, 'a')
            q = 'add_filter (fun x => %s) (%s)' % (('(%s <? %s)' % (cz(op[2]), e)) if op[1] == 'gt' else ('(negb (%s =? %s))' % (e, cz(op[2]))), q)
        elif n == 'horder':
            q = 'add_order [(fun x => %s * %s)] (%s)' % (fld(kind, data, 'a'), cz(op[1]), q)
            ordered = True
        elif n == 'distinct': q = 'set_distinct true (%s)' % q
        elif n == 'without_distinct': q = 'set_distinct false (%s)' % q
        elif n == 'nest':
            if op[4]: raise Unmodelled('projection')
            q = 'nest (%s) %s' % (q, cwin(op[1], op[2]))
            if op[3]:
                if not C.applicable(kind, C.PREDS[op[3]][0]): raise C.Unsupported(op[3])
                q = 'add_filter %s (%s)' % (pred_coq(kind, data, op[3]), q)
        elif n == 'nestpage':
            q = 'nest (%s) %s' % (q, cwin(op[2], (op[1] - 1) * op[2]))
        else: raise Unmodelled(n)
    # is the accumulated ORDER BY total on the rows?  ('a': equal keys are equal rows; 'ent': needs the id)
    if kind == 'ent' and ordered:
        total = any(f == 'id' for op in chain.get('ops', []) if op[0] == 'order' for f, _ in C.ORDERS[op[1]])
    return q, total


EXC_CODE = {'EXC:TypeError': 0, 'EXC:MultipleObjectsFoundError': 1, 'EXC:AssertionError': 2}

def real_chain_value(chain):
    """Execute chain on the real implementation; returns the canonical terminal value (ints for 'a', ids for 'ent')."""
    from pony import orm
    db, P = C.get_db(chain['data'])
    term = chain['term']
    with orm.db_session:
        try:
            st = C.build_base(P, chain)
            for op in chain.get('ops', []):
                new, _ = C.apply_op(P, st, op)
                if op[0] not in ('nest', 'nestpage'): new.varkind = st.varkind
                st = new
            if term[0] == 'delete':
                before = sorted(row[0] for row in db.execute('select id from P').fetchall())
                try:
                    st.q.delete(bulk=term[1]); orm.flush()
                except Exception as e:
                    return C.exc_name(e)
                after = sorted(row[0] for row in db.execute('select id from P').fetchall())
                return sorted(set(before) - set(after))
            v = C.real_terminal(st, term)
            return v
        except C.Unsupported:
            raise
        except Exception as e:
            return C.exc_name(e)
        finally:
            orm.rollback()


def ids(v):
    return [one(x) for x in v]

def one(x):
    if isinstance(x, list): return x[1] if x and x[0] == 'P' else (ord(x[0]), x[1])
    if isinstance(x, str): return ord(x)
    return x

def cval(x):
    return '(%d, %s)' % (x[0], cz(x[1])) if isinstance(x, tuple) else cz(x)

def clistv(xs):
    if not xs: return '[]'
    return '[' + '; '.join(cval(x) for x in xs) + ']'

def chain_bool(chain):
    """Coq bool: the model's value of the chain's terminal equals the value the implementation returned."""
    q, total = model_chain(chain)
    kind = chain['base']
    term = chain['term']
    t = term[0]
    if not total and t not in ('count', 'exists', 'len', 'sum', 'min', 'max', 'avg'): raise Unmodelled('order is not total')
    if not C.terminal_applicable(kind, term): raise C.Unsupported(t)
    real = real_chain_value(chain)
    if isinstance(real, str) and real.startswith('EXC:'):
        if real not in EXC_CODE: raise Unmodelled(real)
        err = '(Err %d%%nat)' % EXC_CODE[real]
    else: err = None
    pair = kind == 'pair'
    EQ = 'zz_eqb' if pair else 'Z.eqb'
    LEQ, OEQ, DFLT = ('rzzlist_eqb', 'rozz_eqb', 'idkk') if pair else ('rzlist_eqb', 'roz_eqb', 'idk')
    def lst(v): return '(Ok %s)' % clistv(ids(v))
    def oitem(v): return 'None' if v is None else '(Some %s)' % cval(one(v))
    if t == 'list': return '%s (Ok (q_list %s (%s))) %s' % (LEQ, EQ, q, err or lst(real)), real
    if t == 'len': return 'rz_eqb (Ok (zlen (q_list %s (%s)))) %s' % (EQ, q, err or '(Ok %s)' % cz(real)), real
    if t == 'slice': return '%s (q_getitem %s (%s) %s %s) %s' % (LEQ, EQ, q, copt(term[1]), copt(term[2]), err or lst(real)), real
    if t == 'limit': return '%s (q_limit %s (%s) %s %s) %s' % (LEQ, EQ, q, copt(term[1]), copt(term[2]), err or lst(real)), real
    if t == 'page': return '%s (q_page %s (%s) %s %s) %s' % (LEQ, EQ, q, cz(term[1]), cz(term[2]), err or lst(real)), real
    if t == 'first': return '%s (Ok (q_first %s %s (%s))) %s' % (OEQ, EQ, DFLT, q, err or '(Ok %s)' % oitem(real)), real
    if t == 'get': return '%s (q_get %s (%s)) %s' % (OEQ, EQ, q, err or '(Ok %s)' % oitem(real)), real
    if t == 'exists':
        if err: raise Unmodelled('exists raised')
        return 'Bool.eqb (q_exists %s (%s)) %s' % (EQ, q, 'true' if real else 'false'), real
    if t == 'count' and pair: return 'rz_eqb (q_count_pair None (%s)) %s' % (q, err or '(Ok %s)' % cz(real)), real
    if pair: raise Unmodelled(t)
    if t == 'count' and kind == 'ent': return 'rz_eqb (q_count_rows (%s)) %s' % (q, err or '(Ok %s)' % cz(real)), real
    if t in ('count', 'sum', 'min', 'max', 'avg'):
        f = {'count': 'ACount', 'sum': 'ASum', 'min': 'AMin', 'max': 'AMax', 'avg': 'AAvg'}[t]
        if err: val = err
        elif real is None: val = '(Ok VNone)'
        elif t == 'avg':
            from fractions import Fraction
            fr = Fraction(real[1]).limit_denominator(10 ** 6)         # exact for the mean of a few small integers
            return 'avg_matches (q_aggregate AAvg None (%s)) %s %s' % (q, cz(fr.numerator), cz(fr.denominator)), real
        else: val = '(Ok (VInt %s))' % cz(one(real))
        return 'raggval_eqb (q_aggregate %s None (%s)) %s' % (f, q, val), real
    if t == 'group_concat':
        if err: val = err
        elif real is None: val = '(Ok (@nil Z))'
        else: val = '(Ok %s)' % clistz([int(x) if kind == 'a' else ord(x) for x in real.split(',')])
        # SQL group_concat of no rows is NULL; the model's list of parts is then empty
        return 'rzlist_eqb (q_group_concat None (%s)) %s' % (q, val), real
    if t == 'delete':
        if err: raise Unmodelled('delete raised')
        m = 'bulk_deleted Z.eqb (%s)' % q if term[1] else 'q_list Z.eqb (%s)' % q
        return 'zlist_eqb (isort idk (%s)) %s' % (m, clistz(sorted(real))), real
    raise Unmodelled(t)


def avg_bool(chain):
    """avg(): the float the implementation returns must be the quotient of the model's exact pair (checked in Python from the
    model's pair printed by Coq would need parsing; instead: the implementation's value times the model's count equals the model's sum,
    expressed with the integer numerator real*den rounded -- only used when the value is an exact binary fraction)."""
    raise Unmodelled('avg')



# ------------------------------------------------------------------------------------------------ Oracle (text level, not executable here)

_ora = {}

def oracle_sql(tl, to, l, o):
    """SQL text and LIMIT section OraBuilder produces for a query whose translator carries (tl, to) and that is fetched with (l, o)."""
    from pony import orm
    if 'db' not in _ora:
        mdb = vlib.mock_database('oracle')
        class OP(mdb.Entity):
            a = orm.Required(int)
        mdb.generate_mapping()
        _ora['db'] = mdb; _ora['OP'] = OP
    mdb, OP = _ora['db'], _ora['OP']
    with orm.db_session:
        tr = orm.select('p for p in OP', {'OP': OP}).order_by(OP.id)._translator.deepcopy()
        tr.limit, tr.offset = tl, to
        ast_, _ = tr.construct_sql_ast(l, o)
        sql, _ = mdb.provider.ast2sql(ast_)
    secs = [x for x in ast_ if isinstance(x, list) and x and x[0] == 'LIMIT']
    sec = None if not secs else (secs[0][1], secs[0][2] if len(secs[0]) > 2 else None)
    return sql, sec

def oracle_shape(sql):
    """read the ROWNUM form back from the SQL text: ('plain',) | ('le', n) | ('win', n|None, m)"""
    import re
    le = re.findall(r'WHERE ROWNUM <= (\d+)', sql)
    gt = re.findall(r'WHERE "row-num" > (\d+)', sql)
    if len(le) > 1 or len(gt) > 1 or ('ROWNUM' in sql and not le and not gt): raise Unmodelled('oracle text')
    if not le and not gt: return ('plain',)
    if gt: return ('win', int(le[0]) if le else None, int(gt[0]))
    return ('le', int(le[0]))

def oracle_rows(shape, R):
    """documented ROWNUM semantics on an ordered row list"""
    if shape[0] == 'plain': return list(R)
    if shape[0] == 'le': return R[:shape[1]]
    rows = R if shape[1] is None else R[:shape[1]]
    return rows[shape[2]:]

def oracle_failure(tl, to, l, o):
    from pony.orm.sqltranslation import combine_limit_and_offset
    sql, sec = oracle_sql(tl, to, l, o)
    shape = oracle_shape(sql)
    R = list(range(7))
    got = oracle_rows(shape, R)
    want = R
    for (ll, oo) in ((tl, to), (l, o)):
        lo = 0 if oo is None else oo
        want = want[lo:] if ll is None else want[lo:lo + ll]
    if got == want: return None
    cl, co = combine_limit_and_offset(tl, to, l, o)
    key = 'unlisted:oracle-window:%s%s' % (shape[0], ':limit-zero-selects-all-rows' if cl == 0 else '')
    return Failure(key, 'oracle (documented ROWNUM semantics): translator window %r fetched with %r builds %r, which selects %r of 0..6; list semantics gives %r'
                   % ((tl, to), (l, o), ' '.join(sql.split())[-90:], got, want), {'oracle_window': [tl, to, l, o]})

# ------------------------------------------------------------------------------------------------ chain generators

ORDERS_A = ['a', '-a', 'lambda a', 'lambda -a']
ORDERS_ENT = ['id', 'name,id', '-a,id', 'a', '-a', 'name', 'lambda -a', 'a,-name']
PREDS_A = ['a>1', 'a<=2', 'a>100', 'a!=3']
NESTS = [['nest', 2, 1, None, None], ['nest', None, 2, None, None], ['nest', 3, None, None, None], ['nest', 0, 0, None, None],
         ['nest', 0, 3, None, None], ['nest', 1, 0, None, None], ['nest', 3, 1, 'a>1', None], ['nest', None, 1, 'a<=2', None],
         ['nestpage', 1, 2], ['nestpage', 2, 2], ['nestpage', 3, 3]]
TERMS = [['list'], ['slice', 1, 3], ['slice', None, 2], ['slice', 2, None], ['slice', 3, 1], ['slice', 0, 0], ['slice', None, None], ['slice', 1, 100],
         ['limit', 2, 1], ['limit', None, 1], ['limit', 0, None], ['limit', 3, None], ['page', 1, 2], ['page', 2, 2], ['page', 3, 1],
         ['first'], ['get'], ['exists'], ['count'], ['len'], ['sum'], ['min'], ['max'], ['avg'], ['group_concat'],
         ['random', 2], ['random', 10], ['delete', True], ['delete', False]]

def helper_ops(kind):
    if not C.applicable(kind, 'a'): return []
    ops = [['hfilter', 'gt', 1], ['hfilter', 'gt', 2], ['hfilter', 'ne', 3], ['hfilter', 'ne', 1], ['hwhere', 'gt', 0], ['hwhere', 'ne', 2], ['hwhere', 'ne', 7]]
    if kind != 'pair': ops += [['horder', 1], ['horder', -1]]
    return ops

def helper_chains(kinds, datasets):
    """two or three chained steps built by the SAME helper (one code object) with different captured values, and mixed helpers"""
    for data in datasets:
        for kind in kinds:
            hs = helper_ops(kind)
            for o1, o2 in itertools.product(hs, repeat=2):
                for term in (['list'], ['count'], ['first'], ['slice', 1, 3]):
                    yield {'data': data, 'base': kind, 'where': None, 'ops': [list(o1), list(o2)], 'term': list(term)}
            for o1, o2, o3 in ((['hfilter', 'ne', 1], ['hfilter', 'ne', 2], ['hfilter', 'ne', 3]), (['hwhere', 'ne', 3], ['hwhere', 'ne', 1], ['hwhere', 'ne', 2]),
                               (['hfilter', 'gt', 0], ['nest', 4, 1, None, None], ['hfilter', 'gt', 2]), (['hwhere', 'gt', 1], ['order', 'a'], ['hwhere', 'gt', 2]),
                               (['kw', 'a=1'], ['kw', 'name=a'], ['hfilter', 'ne', 7])):
                yield {'data': data, 'base': kind, 'where': None, 'ops': [list(o1), list(o2), list(o3)], 'term': ['list']}

def ops_for(kind):
    orders = {'a': ORDERS_A, 'ent': ORDERS_ENT, 'name': ['name', '-name', 'lambda name'], 'pair': ['a', '-a', 'name', 'a,-name']}[kind]
    preds = [p for p in C.PREDS if C.applicable(kind, C.PREDS[p][0])]
    ops = [['order', o] for o in orders] + [['filter', p] for p in preds] + [['where', p] for p in preds[:2]]
    if kind == 'ent': ops += [['kw', k] for k in C.KWPREDS] + [['nest', 3, 1, None, 'a']]
    ops += [['distinct'], ['without_distinct']]
    ops += helper_ops(kind)
    for n in NESTS:
        if n[0] == 'nest' and n[3] and not C.applicable(kind, C.PREDS[n[3]][0]): continue
        ops.append(n)
    return ops

def random_term(rng):
    k = rng.random()
    if k < 0.25: return ['slice', rng.choice([None, 0, 1, 2, 3, 5, 8]), rng.choice([None, 0, 1, 2, 3, 4, 6, 9])]
    if k < 0.4: return ['limit', rng.choice([None, 0, 1, 2, 3, 7]), rng.choice([None, 0, 1, 2, 4])]
    if k < 0.5: return ['page', rng.choice([1, 2, 3, 4]), rng.choice([0, 1, 2, 3, 5])]
    return rng.choice(TERMS)

def random_nest(rng, kind):
    if rng.random() < 0.2: return ['nestpage', rng.choice([1, 2, 3]), rng.choice([1, 2, 3])]
    pred = None
    if rng.random() < 0.25:
        preds = [p for p in C.PREDS if C.applicable(kind, C.PREDS[p][0])]
        pred = rng.choice(preds)
    return ['nest', rng.choice([None, 0, 1, 2, 3, 4, 6]), rng.choice([None, 0, 1, 2, 3, 5]), pred, None]

def gen_chains(rng, kinds, datasets, exhaustive_len, n_random, max_len=3, wheres=(None, 'a>1')):
    seen = set()
    def emit(ch):
        key = json.dumps(ch, sort_keys=True)
        if key in seen: return None
        seen.add(key); return ch
    for data in datasets:
        for kind in kinds:
            for where in wheres:
                for k in range(exhaustive_len + 1):
                    for ops in itertools.product(ops_for(kind), repeat=k):
                        for term in TERMS:
                            if not C.terminal_applicable(kind, term): continue
                            ch = emit({'data': data, 'base': kind, 'where': where, 'ops': [list(o) for o in ops], 'term': list(term)})
                            if ch: yield ch
    for _ in range(n_random):
        kind = rng.choice(kinds)
        ops = []
        for _ in range(rng.randint(1, max_len)):
            if rng.random() < 0.35: ops.append(random_nest(rng, kind))
            else: ops.append(list(rng.choice(ops_for(kind))))
        term = random_term(rng)
        if not C.terminal_applicable(kind, term): term = ['list']
        ch = emit({'data': rng.choice(datasets), 'base': kind, 'where': rng.choice([None, None, 'a>1', 'a<=2']), 'ops': ops, 'term': term})
        if ch: yield ch


def nontrivial_chain(ch):
    return bool(ch['ops']) or ch['term'][0] not in ('list', 'len', 'exists') or bool(ch.get('where'))


# ------------------------------------------------------------------------------------------------ correspondence

def correspondence(ctx):
    exprs, meta = [], []
    dist = {}
    disagreements = []
    nontrivial = set()
    samples = []
    def add(kind, expr, inp, impl, nt=True):
        exprs.append(expr); meta.append((kind, inp, impl)); dist[kind] = dist.get(kind, 0) + 1
        if nt: nontrivial.add(kind + ':' + json.dumps(inp, sort_keys=True, default=str))

    # (1) combine_limit_and_offset: translated model vs the real function
    from pony.orm.sqltranslation import combine_limit_and_offset
    grid = [None, 0, 1, 2, 3, 5]
    quads = list(itertools.product(grid, repeat=4))
    rng = ctx.rng
    big = [None, 0, 1, 2, 7, 10 ** 6, 2 ** 63, 2 ** 64 + 1]
    for _ in range(ctx.scale(400, 4000)):
        quads.append((rng.choice(big), rng.choice(big + [-1, -5]), rng.choice(big), rng.choice(big + [-1, -3])))
    for l in (-1, -7):                      # the asserts: a negative limit is refused
        quads += [(l, None, None, None), (None, 2, l, 1), (l, 1, l, 1)]
    for l, o, l2, o2 in quads:
        try:
            r = combine_limit_and_offset(l, o, l2, o2)
            add('combine', 'window_eqb (combine_limit_and_offset %s %s %s %s) %s && combine_pre %s %s %s %s' % (
                copt(l), copt(o), copt(l2), copt(o2), cwin(*r), copt(l), copt(o), copt(l2), copt(o2)), [l, o, l2, o2], list(r),
                nt=any(x is not None for x in (l2, o2)))
        except AssertionError:
            add('combine', 'negb (combine_pre %s %s %s %s)' % (copt(l), copt(o), copt(l2), copt(o2)), [l, o, l2, o2], 'AssertionError')
    samples.append({'combine_limit_and_offset': [3, 1, 2, 1], 'impl': list(combine_limit_and_offset(3, 1, 2, 1))})

    # (2) Query.__getitem__ / page / limit / fetch on a stand-in receiver
    vals = [None, -2, -1, 0, 1, 2, 3, 4] + ([7, 50] if ctx.thorough else [])
    for a in vals:
        for b in vals:
            for step in (None, 1, 2, 0, -1):
                r = real_method('__getitem__', slice(a, b, step))
                add('getitem', 'rwindow_eqb (query_getitem true %s %s %s) %s' % (copt(a), copt(b), copt(step), r), [a, b, step], r)
    for key in (0, 3, -1):
        r = real_method('__getitem__', key)
        add('getitem', 'rwindow_eqb (query_getitem false None None None) %s' % r, ['index', key], r)
    for n in range(-1, 6):
        for size in range(0, 5):
            r = real_method('page', n, size)
            add('page', 'rwindow_eqb (query_page %s %s) %s' % (cz(n), cz(size), r), [n, size], r)
    r = real_method('page', 3)                       # default page size
    add('page', 'rwindow_eqb (query_page 3 10) %s' % r, [3, 'default'], r)
    for l in [None, 0, 1, 5]:
        for o in [None, 0, 2]:
            r1, r2 = real_method('limit', l, o), real_method('fetch', l, o)
            add('limit', 'rwindow_eqb (query_limit %s %s) %s && rwindow_eqb (query_fetch %s %s) %s' % (copt(l), copt(o), r1, copt(l), copt(o), r2), [l, o], r1)

    # (3) DISTINCT decision and (4) LIMIT section of construct_sql_ast, on the real translator
    from pony import orm
    db, P = C.get_db('dups')
    with orm.db_session:
        for src, tdist in (('p for p in P', False), ('p.a for p in P', True), ('(p.name, p.a) for p in P', True)):
            for ordered in (False, True):
                q = orm.select(src, {'P': P})
                if ordered: q = q.order_by(1)
                tr = q._translator
                if bool(tr.distinct) != tdist:
                    disagreements.append({'what': 'translator.distinct is not what the model assumes for %r' % src, 'input': src, 'impl': tr.distinct})
                for d in (None, True, False):
                    ast_, _ = tr.construct_sql_ast(None, None, d)
                    kw = ast_[1][0]
                    if kw not in ('DISTINCT', 'ALL'):
                        disagreements.append({'what': 'unexpected select keyword', 'input': [src, ordered, d], 'impl': kw}); continue
                    add('distinct', 'Bool.eqb (select_distinct %s %s %s) %s' % ('None' if d is None else '(Some %s)' % ('true' if d else 'false'),
                        'true' if ordered else 'false', 'true' if tdist else 'false', 'true' if kw == 'DISTINCT' else 'false'), [src, ordered, d], kw)
    for prov, dname in (('sqlite', 'DSQLite'), ('postgres', 'DPostgreSQL'), ('mysql', 'DMySQL')):
        mdb = vlib.mock_database(prov)
        class MP(mdb.Entity):
            a = orm.Required(int)
        mdb.generate_mapping()
        with orm.db_session:
            base = orm.select('p for p in MP', {'MP': MP})._translator
            for tl, to, l, o in itertools.product([None, 0, 2], [None, 0, 3], [None, 0, 1, 4], [None, 0, 2]):
                tr = base.deepcopy()
                tr.limit, tr.offset = tl, to
                try:
                    ast_, _ = tr.construct_sql_ast(l, o)
                except Exception as e:
                    disagreements.append({'what': 'construct_sql_ast raised', 'input': [prov, tl, to, l, o], 'impl': '%s: %s' % (type(e).__name__, e)}); continue
                secs = [s for s in ast_ if isinstance(s, list) and s and s[0] == 'LIMIT']
                if not secs: real = 'None'
                else:
                    s = secs[0]
                    real = '(Some %s)' % cwin(s[1], s[2] if len(s) > 2 else None)
                add('limit_section', 'osection_eqb (limit_section %s (combine %s %s)) %s' % (dname, cwin(tl, to), cwin(l, o), real), [prov, tl, to, l, o], real,
                    nt=any(x is not None for x in (tl, to, l, o)))

    # (4b) Oracle: the section the builder receives and the ROWNUM form it writes (SQL text), vs ora_section / ora_select
    for tl, to, l, o in itertools.product([None, 0, 2], [None, 0, 3], [None, 0, 1, 4], [None, 0, 2]):
        try:
            sql, sec = oracle_sql(tl, to, l, o)
            shape = oracle_shape(sql)
        except Exception as e:
            disagreements.append({'what': 'oracle SQL could not be built / read', 'input': [tl, to, l, o], 'impl': '%s: %s' % (type(e).__name__, e)}); continue
        secc = 'None' if sec is None else '(Some %s)' % cwin(sec[0], sec[1])
        shc = {'plain': lambda: 'OraPlain', 'le': lambda: '(OraLe %s)' % cz(shape[1]), 'win': lambda: '(OraWin %s %s)' % (copt(shape[1]), cz(shape[2]))}[shape[0]]()
        add('oracle', 'osection_eqb (ora_section (combine %s %s)) %s && ora_shape_eqb (ora_select %s) %s' % (cwin(tl, to), cwin(l, o), secc, secc, shc),
            ['oracle', tl, to, l, o], [sec, shape], nt=any(x is not None for x in (tl, to, l, o)))

    # (5) method chains on integer-row queries: model vs real Pony on SQLite
    skipped = {}
    n_chain = 0
    if ctx.thorough: chains = gen_chains(rng, ['a', 'ent', 'name', 'pair'], list(C.DATASETS), 1, 20000)
    else: chains = itertools.chain(gen_chains(rng, ['a', 'ent', 'name', 'pair'], ['dups'], 1, 0, wheres=(None,)), gen_chains(rng, ['a', 'ent', 'name', 'pair'], ['seven', 'empty', 'one'], 0, 1500))
    chains = itertools.chain(helper_chains(['a', 'ent', 'pair'], ['seven']), chains)
    for ch in chains:
        if ch['term'][0] == 'random': continue
        try:
            b, real = chain_bool(ch)
        except C.Unsupported:
            continue
        except Unmodelled as e:
            k = str(e).split(':')[0]
            skipped[k] = skipped.get(k, 0) + 1
            continue
        add('chain', b, ch, real, nt=nontrivial_chain(ch))
        n_chain += 1
        if len(samples) < 4 and len(ch['ops']) >= 2 and any(o[0] == 'nest' for o in ch['ops']): samples.append({'chain': ch, 'impl': real, 'coq_case': b})
    dist['chain_skipped_unmodelled'] = skipped

    # (5b) count() of tuple queries: every (WHERE, ordered, distinct flag, count(distinct=..)) on the real translator vs q_count_pair
    for data in ('dups', 'seven', 'same', 'empty'):
        pdb, PP = C.get_db(data)
        rows = C.DATASETS[data]
        rowsc = '[' + '; '.join('(%d, %s)' % (ord(r[0]), cz(r[1])) for r in rows) + ']' if rows else '(@nil (Z * Z))'
        with orm.db_session:
            for where, keepc in ((None, '(fun _ => true)'), ('p.a > 1', '(fun x => 1 <? snd x)')):
                for ordered in (False, True):
                    for d in (None, True, False):
                        for arg in (None, True, False):
                            q = orm.select('(p.name, p.a) for p in P' + (' if ' + where if where else ''), {'P': PP})
                            if ordered: q = q.order_by(2, 1)
                            if d is not None: q = q.distinct() if d else q.without_distinct()
                            try:
                                v = q.count() if arg is None else q.count(distinct=arg)
                                real = '(Ok %s)' % cz(v)
                            except AssertionError: real = '(Err 2%nat)'
                            except Exception as e:
                                disagreements.append({'what': 'count() of a tuple query raised', 'input': [data, where, ordered, d, arg], 'impl': '%s: %s' % (type(e).__name__, e)}); continue
                            cb = lambda x: 'None' if x is None else '(Some %s)' % ('true' if x else 'false')
                            add('count_pair', 'rz_eqb (q_count_pair %s (zzquery %s %s %s true %s no_window)) %s' % (cb(arg), rowsc, keepc, 'true' if ordered else 'false', cb(d), real),
                                [data, where, ordered, d, arg], real)

    # (6) reference semantics against CPython / the linked SQLite
    con = sqlite3.connect(':memory:')
    for n in range(0, 4):
        s = list(range(10, 10 + n))
        for a in [None] + list(range(-4, 5)):
            for b in [None] + list(range(-4, 5)):
                add('py_slice', 'zlist_eqb (py_slice %s %s %s) %s' % (clistz(s), copt(a), copt(b), clistz(s[a:b])), [s, a, b], s[a:b], nt=False)
    for _ in range(ctx.scale(80, 600)):
        s = [rng.randint(0, 4) for _ in range(rng.randint(0, 7))]
        add('dedup', 'zlist_eqb (dedup Z.eqb %s) %s' % (clistz(s), clistz(list(dict.fromkeys(s)))), s, None, nt=False)
        add('isort', 'zlist_eqb (isort idk %s) %s' % (clistz(s), clistz(sorted(s))), s, None, nt=False)
        add('isort', 'zlist_eqb (isort [fun x => - x] %s) %s' % (clistz(s), clistz(sorted(s, reverse=True))), s, None, nt=False)
        l, o = rng.choice([None, 0, 1, 2, 5]), rng.choice([None, 0, 1, 3])
        con.execute('drop table if exists t'); con.execute('create table t (i integer primary key, x integer)')
        con.executemany('insert into t (x) values (?)', [(x,) for x in s])
        if l is None and o is None: got = [r[0] for r in con.execute('select x from t order by i')]
        else: got = [r[0] for r in con.execute('select x from t order by i limit ? offset ?', (-1 if l is None else l, 0 if o is None else o))]
        add('win_sqlite', 'zlist_eqb (win %s %s) %s' % (cwin(l, o), clistz(s), clistz(got)), [s, l, o], got, nt=False)
        add('distinct_sqlite', 'zlist_eqb (dedup Z.eqb %s) %s' % (clistz(s), clistz([r[0] for r in con.execute('select distinct x from t')])), s, None, nt=False)
        for f, fn in (('ASum', 'sum'), ('AMin', 'min'), ('AMax', 'max'), ('ACount', 'count')):
            v = con.execute('select %s(x) from t' % fn).fetchone()[0]
            add('sql_aggregate', 'aggval_eqb (sql_aggregate %s %s) %s' % (f, clistz(s), 'VNone' if v is None else '(VInt %s)' % cz(v)), [f, s], v, nt=False)

    bad = run_bools(ctx, exprs, dataset_header())
    for i in bad[:20]:
        kind, inp, impl = meta[i]
        disagreements.append({'what': 'model and implementation differ (%s)' % kind, 'input': inp, 'impl': impl, 'coq_case': exprs[i][:1500]})
    return Corr(cases=len(exprs), nontrivial=len(nontrivial), disagreements=disagreements, samples=samples, distribution=dist,
                note='every case is a boolean computed by vm_compute inside Coq from the model and the serialised implementation output')


# ------------------------------------------------------------------------------------------------ search (property oracle)

def corpus_chains():
    """minimised past failures (corpus/C24/*.json), run first"""
    import glob, os
    for f in sorted(glob.glob(os.path.join(vlib.VERIF, 'corpus', 'C24', '*.json'))):
        yield json.load(open(f))['chain']


def failure_of(chain, m):
    key = C.classify(m)
    detail = m.detail if isinstance(m.detail, dict) else {'query': m.detail}
    what = '%s: step %s of %s gives %s, Python on R gives %s' % (m.cls, m.step, detail.get('query', ''), json.dumps(detail.get('got', detail.get('remaining')), default=str)[:160],
                                                                json.dumps(detail.get('want', detail.get('want_remaining')), default=str)[:160])
    return Failure(key, what, {'chain': chain, 'class': m.cls})


def search(ctx, deep):
    failures, evals, nontriv = [], 0, set()
    per_key = {}
    dist = {'by_base': {}, 'by_terminal': {}, 'chain_length': {}}
    kinds = ['ent', 'a', 'name', 'pair']
    if deep:
        gen = gen_chains(ctx.rng, kinds, ['dups', 'seven', 'empty', 'one', 'uniq', 'same'], 1, 40000)
    else:
        gen = itertools.chain(gen_chains(ctx.rng, kinds, ['dups'], 1, 0, wheres=(None,)),
                              gen_chains(ctx.rng, kinds, ['empty', 'seven'], 0, 2500))
    for ch in itertools.chain(corpus_chains(), helper_chains(kinds, ['seven'] if not deep else ['seven', 'dups', 'uniq']), gen):
        try:
            mism, _ = C.check_chain(ch)
        except C.Unsupported:
            continue
        evals += 1
        dist['by_base'][ch['base']] = dist['by_base'].get(ch['base'], 0) + 1
        dist['by_terminal'][ch['term'][0]] = dist['by_terminal'].get(ch['term'][0], 0) + 1
        dist['chain_length'][str(len(ch['ops']))] = dist['chain_length'].get(str(len(ch['ops'])), 0) + 1
        if nontrivial_chain(ch): nontriv.add(json.dumps(ch, sort_keys=True))
        if mism:
            f = failure_of(ch, mism[0])         # later mismatches of one chain are consequences of the first
            per_key[f.key] = per_key.get(f.key, 0) + 1
            if per_key[f.key] == 1: failures.append(f)
    for tl, to, l, o in itertools.product([None, 0, 2], [None, 0, 3], [None, 0, 1, 4], [None, 0, 2]):
        try:
            f = oracle_failure(tl, to, l, o)
        except Exception as e:
            f = Failure('unlisted:oracle-window:raises', 'oracle: building the SQL for window %r / %r raised %s: %s' % ((tl, to), (l, o), type(e).__name__, e), {'oracle_window': [tl, to, l, o]})
        evals += 1
        dist['oracle_windows'] = dist.get('oracle_windows', 0) + 1
        if f is not None:
            per_key[f.key] = per_key.get(f.key, 0) + 1
            if per_key[f.key] == 1: failures.append(f)
    dist['failing_chains_by_key'] = per_key
    return Search(evaluations=evals, failures=failures, nontrivial=len(nontriv), distribution=dist, exhaustive=True,
                  samples=[{'chain': {'data': 'dups', 'base': 'ent', 'where': None, 'ops': [['order', 'id'], ['nest', 2, 1, None, None]], 'term': ['slice', 1, None]},
                            'oracle': 'list(q)[1:] computed in Python on the real list(q)'}])


def replay(ctx, data):
    if 'oracle_window' in data: return oracle_failure(*data['oracle_window'])
    chain = data['chain']
    mism, _ = C.check_chain(chain)
    if not mism: return None
    if data.get('expect_key'):          # a recorded finding: it still reproduces only if THIS defect shows, not an earlier step's
        for m in mism:
            if C.classify(m) == data['expect_key']: return failure_of(chain, m)
        return None
    return failure_of(chain, mism[0])


LEVEL_TEXT = ('Machine-checked proof (Coq 8.16.1), for all row lists and all non-negative bounds, that the window arithmetic of /repo (combine_limit_and_offset, '
              'Query.__getitem__, page, limit -- re-translated from source on every run) selects exactly the Python slice R[a:b] / page / nested window of the full result; that '
              'get/exists/first/random/filter/order_by/distinct/count/sum/min/max/avg/group_concat/bulk delete in a list-semantics model of the query pipeline agree with the Python operation on '
              'list(q) on the exact complement of the recorded defect classes (each refuted by a witness); that chained lambda steps sharing one code object read their own captured values '
              '(filter-number rule scanned from Query._process_lambda); and a characterisation of the limited-subquery family: the code MERGES a limited subquery into the outer query, which '
              'equals the nested list semantics iff the combined window keeps every row or none (sufficiency for all inputs, and for every other window a constructed counterexample). '
              'SQLite/PostgreSQL/MySQL LIMIT sections and Oracle\'s ROWNUM form (text level) mean the window. The model is compared with real Pony on SQLite on '
              'generated method chains over entity, integer, string and tuple queries by vm_compute; a chain oracle against Python list operations searches for failing inputs.')
LEVEL_NOTE = ('Trusted: Coq kernel + vm_compute; py2coq translator and source scans; the correspondence harness; list-semantics models of LIMIT/OFFSET, DISTINCT, ORDER BY and the SQL aggregates '
              '(validated against SQLite); PostgreSQL/MySQL/Oracle by documentation only (no server). Partial: first() after distinct() is proved when the ORDER BY keys identify the row; avg is '
              'an exact (sum, count) pair in the model and compared with the float by cross-multiplication; joins/GROUP BY/prefetch and projecting nests are covered by the search only.')
TECHNIQUE = 'Coq proof (seg normal form + lia, stable-sort/dedup lemmas) over functions regenerated from source by py2coq; vm_compute correspondence of method chains; exhaustive small-scope chain oracle'
DESIGN_REF = 'DESIGN.md section 5, C24'
