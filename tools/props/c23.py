"""C23 - The loading strategy never changes the data a program observes (partial: lemma + differential)."""
import itertools, json, os, random
import vlib
from vlib import Corr, Search, Failure

ID = 'C23'
LEVEL = 'proof'
PROPS = ['Props/C23.v']
from py2coq import containsorder
GEN = [('Gen/ContainsOrder.v', containsorder.generate)]
EXPLANATION = ('Level "proof" refers to the collection core, not to whole programs. Proved (Coq 8.16.1, closed under the global context, hand models tied by '
               'vm_compute correspondence on every run): (1) for one owner and its collection - many-to-many, and one-to-many incl. the item side - every '
               'loading path (whole-collection load = batch member = prefetch, load of the asked items, flush, an item\'s row being fetched) keeps the SetData '
               'consistent with the link rows and iteration / len / count / contains / is_empty are functions of the abstract collection only, so they agree '
               'whichever paths ran; add / remove change it by exactly the item; (2) the batch WHERE criteria select exactly the batch keys; (3) membership '
               'after in-session add / remove for the check order of SetInstance.__contains__ read from the source; (4) a scalar read returns the written or '
               'the database value after any row merges, lazy or not. NOT proved: the statement over whole programs (several entities, seeds, prefetch '
               'traversal, Set.__set__ assignment, the many-to-many other side): generated programs are run on SQLite under five regimes (default, every '
               'attribute lazy, prefetch of every relation, nplus1_threshold=0, nplus1_threshold=10**9) and must produce identical observations - '
               'differential testing with a seeded generator.')
TRUSTED = [
    'hand models Model/C23Load.v (Set.load / load(obj, items) / batch / flush / count / is_empty / __contains__ / add / remove on one owner\'s many-to-many '
    'SetData; the same for one-to-many collections plus the item side: load_item = db_reverse_add, loaded set, link invariant) and Model/C23Scalar.v; the former tied on every run to the real SetData fields after each step of generated histories (invariant as a boolean, '
    'result, next state), the latter only through the differential runs',
    'tools/py2coq/containsorder.py (ast scan of the early-exit checks of SetInstance.__contains__, fail-closed) and the hand model Model/C23SetData.v of SetData / add / remove',
    'hand-written model Model/C23Batch.v of construct_batchload_criteria_list and of the meaning of EQ / IN / row-value IN / OR-of-ANDs on non-NULL integer keys',
    'implementation driver tools/c23_driver.py (five regimes as separate Database objects over identical data; SELECT counts via sqlite3 trace callback)',
    'the differential oracle compares canonicalised observations (sets sorted, objects as Class#pk, exceptions by class)',
]
ASSUMPTIONS = [
    'key column values are non-NULL (primary-key columns) and compared as integers in the lemma',
    'programs read attributes, references and collections, optionally after unflushed collection / reference changes; no concurrent writers',
    'SQLite only; its translator sets row_value_syntax = False, so end to end only the "=", IN and OR-of-ANDs shapes occur; the row-value shape is covered by the lemma, the structural correspondence and the SQL-semantics validation (SQLite executes row values when given them)',
]
RULE = ('lemma tie: exhaustive shapes ncols 1..3 x batch 1..4 x start 0..2 x row_value_syntax, plus SQL-semantics cases on SQLite; differential: seeded random '
        'programs (0-3 groups, 1-7 students, 0-5 courses with a composite key, random enrolments; 5-14 steps: get / select / reference / attribute / '
        'collection list,len,count,is_empty,contains,bool / per-object sweeps / unflushed add, remove (from either side, also on the one-to-many collection), '
        're-point / flush / membership windows), each under five regimes; SetData tie: generated histories on one owner (m2m and o2m, students loaded one by one) '
        'with len, iter, count, is_empty, contains, add, remove, reverse-side changes, assignment, flush, loads of other owners; '
        'non-trivial = the regimes issued different numbers of SELECTs for the program; distinct = distinct program JSON')


def gen_program(rng):
    ng, ns, nc = rng.randint(0, 3), rng.randint(1, 7), rng.randint(0, 5)
    groups = [[i + 1, 'g%d' % (i + 1)] for i in range(ng)]
    students = [[i + 1, 's%d' % (i + 1), rng.choice([None, '', 'n%d' % i]), rng.choice([None] + [g[0] for g in groups])] for i in range(ns)]
    cnames = ['math', 'phys', 'chem']
    courses, seen = [], set()
    for _ in range(nc):
        k = (rng.choice(cnames), rng.randint(1, 2))
        if k in seen: continue
        seen.add(k); courses.append([k[0], k[1], rng.choice(['', 'T'])])
    enrol = sorted({(s[0], c[0], c[1]) for s in students for c in courses if rng.random() < 0.4})
    data = {'groups': groups, 'students': students, 'courses': courses, 'enrol': [list(e) for e in enrol]}
    steps, vars_ = [], {'S': [], 'G': [], 'C': [], 'LS': [], 'LG': [], 'LC': []}
    def newvar(kind):
        v = '%s%d' % (kind.lower(), len(steps)); vars_[kind].append(v); return v
    def pk_of(kind):
        if kind == 'S': return rng.randint(1, max(1, ns + 1))
        if kind == 'G': return rng.randint(1, max(1, ng + 1))
        return list(rng.choice(courses)[:2]) if courses and rng.random() < 0.9 else ['math', 9]
    target = rng.randint(5, 14)
    for _ in range(60):
        if len(steps) >= target: break
        r = rng.random()
        if r < 0.15 or not (vars_['S'] or vars_['G'] or vars_['C'] or vars_['LS'] or vars_['LG'] or vars_['LC']):
            kind = rng.choice('SGC')
            if rng.random() < 0.5: steps.append(['get', newvar(kind), kind, pk_of(kind)])
            else:
                pks = None if kind == 'C' or rng.random() < 0.5 else sorted({pk_of(kind) for _ in range(rng.randint(1, 4))})
                steps.append(['select', newvar('L' + kind), kind, pks])
        elif r < 0.22 and vars_['S']:
            steps.append(['ref', newvar('G'), rng.choice(vars_['S']), 'group'])
        elif r < 0.35:
            kind = rng.choice([k for k in 'SGC' if vars_[k]] or ['S'])
            if not vars_[kind]: continue
            attr = {'S': ['name', 'note', 'group', 'id'], 'G': ['name', 'id'], 'C': ['title', 'name', 'sem']}[kind]
            steps.append(['attr', rng.choice(vars_[kind]), rng.choice(attr)])
        elif r < 0.6:
            kind = rng.choice([k for k in 'SGC' if vars_[k]] or ['S'])
            if not vars_[kind]: continue
            cname = {'S': 'courses', 'G': 'students', 'C': 'students'}[kind]
            how = rng.choice(['list', 'len', 'count', 'is_empty', 'contains', 'bool'])
            st = ['coll', rng.choice(vars_[kind]), cname, how]
            if how == 'contains': st.append(pk_of('C') if cname == 'courses' else pk_of('S'))
            steps.append(st)
        elif r < 0.82:
            kind = rng.choice([k for k in 'SGC' if vars_['L' + k]] or ['S'])
            if not vars_['L' + kind]: continue
            what = rng.choice({'S': ['name', 'note', 'group', ['courses', 'list'], ['courses', 'len'], ['courses', 'count']],
                               'G': ['name', ['students', 'list'], ['students', 'len'], ['students', 'is_empty']],
                               'C': ['title', ['students', 'list'], ['students', 'count']]}[kind])
            steps.append(['each', rng.choice(vars_['L' + kind]), what])
        elif r < 0.96 and vars_['S']:
            c = rng.random()
            sv = rng.choice(vars_['S'])
            if not any(x[0] == 'get' and x[1] == sv for x in steps): continue
            if c < 0.45 and courses:
                # membership window: `x in c` / link change from either side / `x in c` again, nothing that queries in between
                ck = list(rng.choice(courses)[:2])
                if not any(x[0] == 'select' and x[2] == 'C' for x in steps): steps.append(['select', newvar('LC'), 'C', None])
                side = rng.choice(['courses', 'students'])
                def member():
                    if side == 'courses': return ['coll', sv, 'courses', 'contains', ck]
                    cv = next((x[1] for x in steps if x[0] == 'get' and x[2] == 'C' and x[3] == ck), None)
                    spk = next(x[3] for x in steps if x[0] == 'get' and x[1] == sv)
                    return None if cv is None else ['coll', cv, 'students', 'contains', spk]
                if side == 'students' and member() is None: steps.append(['get', newvar('C'), 'C', ck])
                steps.append(member())
                for _ in range(rng.randint(1, 2)):
                    steps.append([rng.choice(['add', 'add', 'add_rev', 'remove', 'remove_rev']), sv, ck])
                    steps.append(member())
            elif c < 0.6 and courses: steps.append([rng.choice(['add', 'add_rev']), sv, list(rng.choice(courses)[:2])])
            elif c < 0.75 and courses: steps.append([rng.choice(['remove', 'remove_rev']), sv, list(rng.choice(courses)[:2])])
            else: steps.append(['set_group', sv, rng.choice([None] + [g[0] for g in groups])])
        elif r < 0.98 and vars_['G'] and students:
            gv = rng.choice(vars_['G'])
            sp = rng.choice(students)[0]
            steps.append([rng.choice(['gadd', 'gremove', 'gremove']), gv, sp])
            steps.append(['coll', gv, 'students', rng.choice(['count', 'len', 'list', 'is_empty'])])
        else:
            steps.append(['flush'])
    return {'data': data, 'steps': steps}


FIXED = [
    {'data': {'groups': [[1, 'g1'], [2, 'g2']], 'students': [[1, 's1', 'n', 1], [2, 's2', None, 1], [3, 's3', '', 2], [4, 's4', 'x', None]],
              'courses': [['math', 1, 'T'], ['math', 2, ''], ['phys', 1, 'T']],
              'enrol': [[1, 'math', 1], [1, 'phys', 1], [2, 'math', 1], [3, 'math', 2], [4, 'math', 1], [4, 'math', 2], [4, 'phys', 1]]},
     'steps': [['select', 'ls', 'S', None], ['each', 'ls', ['courses', 'list']], ['each', 'ls', 'group'], ['select', 'lg', 'G', None],
               ['each', 'lg', ['students', 'list']], ['select', 'lc', 'C', None], ['each', 'lc', ['students', 'list']], ['each', 'lc', 'title']]},
    {'data': {'groups': [[1, 'g1']], 'students': [[1, 's1', 'n', 1], [2, 's2', None, 1]], 'courses': [['math', 1, 'T'], ['phys', 2, '']],
              'enrol': [[1, 'math', 1], [2, 'math', 1], [2, 'phys', 2]]},
     'steps': [['select', 'lc', 'C', None], ['get', 's', 'S', 1], ['ref', 'g', 's', 'group'], ['attr', 'g', 'name'], ['coll', 'g', 'students', 'contains', 2], ['coll', 'g', 'students', 'len'],
               ['add', 's', ['phys', 2]], ['coll', 's', 'courses', 'list'], ['get', 'c', 'C', ['phys', 2]], ['coll', 'c', 'students', 'list'],
               ['remove', 's', ['math', 1]], ['coll', 's', 'courses', 'count'], ['flush'], ['coll', 's', 'courses', 'list']]},
    # membership windows: `x in c` (False, cached as absent) / link from this side or from the other side / `x in c` again, no query in between
    {'data': {'groups': [], 'students': [[1, 's1', None, None], [2, 's2', None, None]], 'courses': [['math', 1, ''], ['chem', 1, ''], ['phys', 2, '']],
              'enrol': [[1, 'math', 1], [2, 'math', 1]]},
     'steps': [['select', 'lc', 'C', None], ['get', 's', 'S', 1], ['coll', 's', 'courses', 'contains', ['chem', 1]], ['add', 's', ['chem', 1]],
               ['coll', 's', 'courses', 'contains', ['chem', 1]], ['coll', 's', 'courses', 'contains', ['phys', 2]], ['add_rev', 's', ['phys', 2]],
               ['coll', 's', 'courses', 'contains', ['phys', 2]], ['coll', 's', 'courses', 'list'], ['remove', 's', ['chem', 1]],
               ['coll', 's', 'courses', 'contains', ['chem', 1]]]},
    {'data': {'groups': [], 'students': [[1, 's1', None, None], [2, 's2', None, None]], 'courses': [['math', 1, ''], ['chem', 1, '']],
              'enrol': [[2, 'chem', 1], [1, 'math', 1]]},
     'steps': [['select', 'ls', 'S', None], ['get', 'c', 'C', ['chem', 1]], ['get', 's', 'S', 1], ['coll', 'c', 'students', 'contains', 1],
               ['add', 's', ['chem', 1]], ['coll', 'c', 'students', 'contains', 1], ['remove_rev', 's', ['chem', 1]], ['coll', 'c', 'students', 'contains', 1],
               ['add_rev', 's', ['chem', 1]], ['coll', 'c', 'students', 'contains', 1], ['coll', 'c', 'students', 'list']]},
    # one-to-many collection changed from the group side, count known (prefetched) vs unknown
    {'data': {'groups': [[1, 'g1']], 'students': [[1, 's1', None, 1], [2, 's2', None, 1], [3, 's3', None, None]], 'courses': [], 'enrol': []},
     'steps': [['get', 'g', 'G', 1], ['select', 'ls', 'S', None], ['gremove', 'g', 1], ['coll', 'g', 'students', 'count'], ['coll', 'g', 'students', 'len'],
               ['gadd', 'g', 3], ['coll', 'g', 'students', 'count'], ['coll', 'g', 'students', 'list']]},
]


def programs_for(ctx, n):
    rng = random.Random(ctx.seed * 15485863 + 23)
    out, seen = [], set()
    d = os.path.join(vlib.VERIF, 'corpus', 'C23')
    corpus = []
    if os.path.isdir(d):
        for f in sorted(os.listdir(d)):
            if f.endswith('.json'):
                j = json.load(open(os.path.join(d, f))); corpus.append(j.get('program', j))
    for p in FIXED + corpus:
        k = json.dumps(p, sort_keys=True)
        if k not in seen: seen.add(k); out.append(p)
    while len(out) < n:
        p = gen_program(rng); k = json.dumps(p, sort_keys=True)
        if k in seen: continue
        seen.add(k); out.append(p)
    return out


def shapes():
    return [[nc, b, st, rvs] for nc in (1, 2, 3) for b in (1, 2, 3, 4) for st in (0, 1, 2) for rvs in (0, 1)]


def sql_cases(ctx):
    rng = random.Random(ctx.seed + 2323)
    out = []
    for nc in (1, 2, 3):
        for b in (1, 2, 3):
            for rvs in (0, 1):
                for st in (0, 2):
                    keys = [[rng.randint(0, 2) for _ in range(nc)] for _ in range(b)]
                    rows = [list(r) for r in itertools.product(range(3), repeat=nc)]
                    out.append([nc, keys, rows, rvs, st])
    return out


def gen_coll_history(rng):
    n = rng.randint(1, 5)
    rows = sorted(rng.sample(range(n), rng.randint(0, n)))
    others = [[sid, sorted(rng.sample(range(n), rng.randint(0, n)))] for sid in range(2, 2 + rng.randint(0, 2))]
    ops = []
    for _ in range(rng.randint(3, 10)):
        k = rng.choice(['len', 'iter', 'count', 'count', 'is_empty', 'is_empty', 'contains', 'contains', 'contains', 'add', 'add', 'remove', 'remove',
                        'add_rev', 'remove_rev', 'flush', 'other_len'])
        if k in ('contains', 'add', 'remove', 'add_rev', 'remove_rev'): ops.append([k, rng.randrange(n)])
        elif k == 'other_len': ops.append([k, rng.choice([2, 3])])
        elif k == 'flush' and rng.random() < 0.5: ops.append(['assign', sorted(rng.sample(range(n), rng.randint(0, n)))])
        else: ops.append([k])
    kind = rng.choice(['m2m', 'm2m', 'o2m'])
    lazy_items = kind == 'o2m' and rng.random() < 0.6
    if lazy_items:
        ops2 = []
        for o in ops:
            if rng.random() < 0.5: ops2.append(['load_item', rng.randrange(n)])
            ops2.append(o)
        ops = ops2
    if kind == 'o2m': ops = [o for o in ops if o[0] != 'assign']
    if kind == 'o2m': ops = [(['len'] if o[0] == 'other_len' and rng.random() < 0.5 else ([o[0]] if o[0] == 'other_len' else o)) for o in ops]
    return {'kind': kind, 'lazy_items': lazy_items, 'regime': rng.choice(['default', 'np0', 'nphuge', 'lazy']), 'courses': n, 'rows': rows, 'others': others,
            'preload': rng.choice(['none', 'none', 'partial', 'full']), 'ops': ops}


def coll_histories(ctx, n):
    rng = random.Random(ctx.seed * 99991 + 2399)
    return [gen_coll_history(rng) for _ in range(n)]


def o2m_repaired():
    """True when /repo's SetInstance.remove skips its tail for one-to-many collections (proposed repair applied)"""
    try: return 'one-to-many: reverse_remove (called through the item)' in open(os.path.join(vlib.REPO, 'pony/orm/core.py')).read()
    except IOError: return False


def csd(sd):
    if sd is None: return '(mksd [] false [] [] None None)'
    nl = lambda xs: '[' + '; '.join(str(x) for x in xs) + ']'
    return '(mksd %s %s %s %s %s %s)' % (nl(sd['items']), 'true' if sd['full'] else 'false', nl(sd['added']), nl(sd['removed']),
                                         'None' if sd['absent'] is None else '(Some %s)' % nl(sd['absent']),
                                         'None' if sd['count'] is None else '(Some (%d)%%Z)' % sd['count'])


def coll_exprs(h, steps):
    """Coq booleans for one recorded history of the owner's collection (Model/C23Load.v)"""
    nl = lambda xs: '[' + '; '.join(str(x) for x in xs) + ']'
    out = []
    for st in steps:
        op, res = st['op'], st['result']
        rb, sb = st['before'][0], st['before'][1]
        ra, sa = st['after'][0], st['after'][1]
        lb = st['before'][2] if len(st['before']) > 2 else None
        la = st['after'][2] if len(st['after']) > 2 else None
        if res[0] != 'v':
            out.append((st, None)); continue
        R, S, RA, SA = nl(rb), csd(sb), nl(ra), csd(sa)
        inv = 'inv_b %s %s && inv_b %s %s' % (R, S, RA, SA)
        k = op[0]
        o2m = h.get('kind') == 'o2m'
        if k in ('len', 'iter'):
            val = ('Nat.eqb (length r) %d' % res[1]) if k == 'len' else 'same_elems r %s' % nl(res[1])
            e = "let '(r, (rows1, sd1)) := do_copy %s %s in %s && same_elems rows1 %s && sd_same sd1 %s" % (R, S, val, RA, SA)
        elif k == 'count':
            e = "let '(n, sd1) := do_count %s %s in Z.eqb n (%d)%%Z && sd_same sd1 %s" % (R, S, res[1], SA)
        elif k == 'is_empty':
            first = '(fun _ => %s)' % ('Some %d' % sa['items'][0] if (sa and sa['items'] and not res[1]) else 'None')
            e = "let '(b, (rows1, sd1)) := do_is_empty %s %s %s in Bool.eqb b %s && same_elems rows1 %s && sd_same sd1 %s" % (
                first, R, S, 'true' if res[1] else 'false', RA, SA)
        elif k == 'contains' and o2m:      # answered from the item's own attribute: must be membership in the abstract collection; SetData untouched
            e = 'Bool.eqb (memn %d (abstract %s %s)) %s && same_elems %s %s' % (op[1], R, S, 'true' if res[1] else 'false', R, RA)
            if sb is not None: e += ' && sd_same %s %s' % (S, SA)
        elif k == 'contains':
            e = "let '(b, (rows1, sd1)) := do_contains %d %s %s in Bool.eqb b %s && same_elems rows1 %s" % (op[1], R, S, 'true' if res[1] else 'false', RA)
            if sb is not None: e += ' && sd_same sd1 %s' % SA
        elif k == 'add' and o2m: e = 'sd_same (do_add_o (fun _ => true) %d %s %s) %s && same_elems %s %s' % (op[1], R, S, SA, R, RA)
        elif k == 'remove' and o2m: e = 'sd_same (' + ('do_remove_o_fixed' if o2m_repaired() else 'do_remove_o') + ' (fun _ => true) %d %s %s) %s && same_elems %s %s' % (op[1], R, S, SA, R, RA)
        elif k == 'add': e = 'sd_same (do_add %d %s %s) %s && same_elems %s %s' % (op[1], R, S, SA, R, RA)
        elif k == 'remove': e = 'sd_same (do_remove %d %s %s) %s && same_elems %s %s' % (op[1], R, S, SA, R, RA)
        elif k == 'flush' and sb is not None and (sb['added'] or sb['removed']):
            e = 'same_elems (flush_rows %s %s) %s && sd_same (flush_sd %s) %s' % (R, S, RA, S, SA)
        else: e = 'true'
        if o2m and lb is not None and o2m_repaired():
            OB = '(mkos %s %s %s)' % (R, S, nl(lb)); OA = '(mkos %s %s %s)' % (RA, SA, nl(la))
            if k == 'load_item': tr = 'os_same (query_item %d %s) %s' % (op[1], OB, OA)
            elif k == 'add': tr = 'os_same_ext (o_add %d %s) %s' % (op[1], OB, OA)
            elif k == 'remove': tr = 'os_same_ext (o_remove %d %s) %s' % (op[1], OB, OA)
            elif k == 'flush' and sb is not None and (sb['added'] or sb['removed']): tr = 'os_same (o_flush %s) %s' % (OB, OA)
            else: tr = 'true'
            out.append((st, '(negb (linv_b %s)) || ((%s) && (%s) && linv_b %s)' % (OB, e, tr, OA)))
        elif o2m:
            # the recorded one-to-many remove() defect breaks the invariant: from a state where it holds the model step must reproduce
            # the real step; the invariant is demanded afterwards except after a remove (and after anything that starts from a broken state)
            inv_a = 'true' if (k in ('remove', 'remove_rev') and not o2m_repaired()) else 'inv_b %s %s' % (RA, SA)
            out.append((st, '(negb (inv_b %s %s)) || ((%s) && %s)' % (R, S, e, inv_a)))
        else:
            out.append((st, '(%s) && (%s)' % (inv, e)))
    return out


_cache = {}

def run_all(ctx, n):
    if n not in _cache:
        progs = programs_for(ctx, n)
        _cache[n] = (progs, vlib.run_impl('c23_driver.py', {'criteria': shapes(), 'sql': sql_cases(ctx), 'programs': progs,
                                                            'colls': coll_histories(ctx, max(60, n // 8))}, timeout=1500))
    return _cache[n]


# ------------------------------------------------------------------------------------------------ Coq side

def cp(p): return '(%d, %d)' % (p[0], p[1])
def cl(xs): return '[' + '; '.join(xs) + ']'

def ccrit(c):
    if c[0] == 'EQ': return '(CEq %d %s)' % (c[1], cp(c[2]))
    if c[0] == 'IN': return '(CIn %d %s)' % (c[1], cl([cp(p) for p in c[2]]))
    if c[0] == 'INROW': return '(CInRow %s %s)' % (cl([str(x) for x in c[1]]), cl([cl([cp(p) for p in r]) for r in c[2]]))
    if c[0] == 'OR': return '(COr %s)' % cl([cl(['(%d, %s)' % (e[0], cp(e[1])) for e in conj]) for conj in c[1]])
    raise ValueError(c[0])

HEADER = ('Require Import PonyV.Base.PyBase PonyV.Model.C23Batch PonyV.Model.C23SetData PonyV.Gen.ContainsOrder PonyV.Model.C23Load.\n'
          'Open Scope nat_scope.\n')


def run_bools(ctx, exprs, chunk=200):
    chunks = []
    for i in range(0, len(exprs), chunk):
        part = exprs[i:i + chunk]
        chunks.append('Definition cases : list bool := [\n' + ';\n'.join(part) + '].\nEval vm_compute in (failing cases).\n')
    outs = vlib.coq_eval_many(ctx, HEADER, chunks)
    bad = []
    for k, out in enumerate(outs):
        vals = vlib.parse_eval_outputs(out)
        assert len(vals) == 1, out[-500:]
        inner = vals[0].strip().strip('[]').strip()
        if inner:
            for tok in inner.split(';'):
                bad.append(k * chunk + int(tok.strip().replace('%nat', '')))
    return bad


def correspondence(ctx):
    progs, res = run_all(ctx, ctx.scale(500, 5000))
    exprs, meta, disagreements = [], [], []
    dist = {'criteria_shapes': 0, 'sql_semantics_rows': 0}
    nontrivial = set()
    for sh, got in zip(shapes(), res['criteria']):
        if isinstance(got, dict):
            disagreements.append({'what': 'construct_batchload_criteria_list raised', 'input': sh, 'impl': got}); continue
        exprs.append('list_eqb crit_eqb (construct %d %d %d %s) %s' % (sh[0], sh[1], sh[2], 'true' if sh[3] else 'false', cl([ccrit(c) for c in got])))
        meta.append(('criteria', sh, got)); dist['criteria_shapes'] += 1
        nontrivial.add(json.dumps(sh))
    for (nc, keys, rows, rvs, st), got in zip(sql_cases(ctx), res['sql']):
        args = cl(['[%s]%%Z' % '; '.join('0' for _ in range(nc))] * st + ['[%s]%%Z' % '; '.join(str(v) for v in k) for k in keys])
        for row in rows:
            rowf = '(fun j => nth j [%s]%%Z 0%%Z)' % '; '.join(str(v) for v in row)
            exprs.append('Bool.eqb (sem_all %s %s (construct %d %d %d %s)) %s' % (args, rowf, nc, len(keys), st, 'true' if rvs else 'false',
                                                                                'true' if row in got else 'false'))
            meta.append(('sql-semantics', [nc, keys, row, rvs, st], got)); dist['sql_semantics_rows'] += 1
    dist['setdata_steps'] = 0
    for h, steps in zip(coll_histories(ctx, max(60, ctx.scale(500, 5000) // 8)), res['colls']):
        for st, e in coll_exprs(h, steps):
            if e is None:
                disagreements.append({'what': 'collection operation raised', 'input': {'history': h, 'op': st['op']}, 'impl': st['result']}); continue
            exprs.append(e); meta.append(('setdata-step', {'history': h, 'op': st['op']}, st)); dist['setdata_steps'] += 1
    bad = run_bools(ctx, exprs)
    for i in bad[:20]:
        kind, inp, impl = meta[i]
        disagreements.append({'what': 'model and implementation differ (%s)' % kind, 'input': inp, 'impl': impl, 'coq_case': exprs[i][:800]})
    return Corr(cases=len(exprs), nontrivial=len(nontrivial), disagreements=disagreements, distribution=dist,
                samples=[{'coq_case': exprs[0]}, {'coq_case': exprs[-1]}],
                note='structural equality of the criteria AST for every small shape; the model semantics of each shape vs SQLite running the real SQL')


# ------------------------------------------------------------------------------------------------ differential search

def judge(prog, r):
    base = r['default']['obs']
    for regime in ('lazy', 'prefetch', 'np0', 'nphuge'):
        o = r[regime]['obs']
        if o != base:
            k = next((i for i in range(min(len(o), len(base))) if o[i] != base[i]), min(len(o), len(base)))
            step = prog['steps'][k] if k < len(prog['steps']) else ['?']
            what_step = step[0] + (':' + (step[3] if step[0] == 'coll' else (step[2] if isinstance(step[2], str) else step[2][1])) if step[0] in ('coll', 'each', 'attr') else '')
            got, want = (o[k] if k < len(o) else None), (base[k] if k < len(base) else None)
            kind = 'exception' if (got and got[0] != 'v') or (want and want[0] != 'v') else 'value'
            what = 'step %d %s: default observes %s, %s observes %s' % (k, json.dumps(step), json.dumps(want), regime, json.dumps(got))
            how = step[3] if step[0] == 'coll' else (step[2][1] if step[0] == 'each' and not isinstance(step[2], str) else None)
            # root-cause class: an unflushed many-to-many add/remove earlier in the session (flushed by a later query) leaves stale
            # SetData.added/removed on one side; count() and add()/remove() then behave differently depending on what was loaded
            if how in ('count', 'is_empty') and step[2] == 'students' and any(x[0] == 'gremove' for x in prog['steps'][:k]):
                return ('o2m-remove:%s-differs' % how, what)
            changed = any(x[0] in ('add', 'remove') for x in prog['steps'][:k])
            if changed and step[0] in ('add', 'remove'): return ('m2m-change-then-flush:%s-differs' % step[0], what)
            if changed and how == 'count': return ('m2m-change-then-flush:count-differs', what)
            return ('%s-differs-from-default:%s:%s' % (regime, what_step, kind), what)
    return None


def search(ctx, deep):
    progs, res = run_all(ctx, ctx.scale(500, 5000) if not deep else 5000)
    failures, nontriv = {}, set()
    dist = {'programs': len(progs), 'select_counts_differ': 0, 'steps_total': 0, 'exceptions_observed': 0}
    for p, r in zip(progs, res['programs']):
        dist['steps_total'] += len(p['steps'])
        if any(o[0] != 'v' for o in r['default']['obs']): dist['exceptions_observed'] += 1
        if len({r[k]['selects'] for k in r}) > 1:
            dist['select_counts_differ'] += 1; nontriv.add(json.dumps(p, sort_keys=True))
        j = judge(p, r)
        if j is None: continue
        key, what = j
        if key not in failures or len(json.dumps(p)) < len(json.dumps(failures[key].data['program'])):
            failures[key] = Failure(key, what, {'program': p})
    return Search(evaluations=len(progs) * 5, failures=list(failures.values()), nontrivial=len(nontriv), distribution=dist,
                  samples=[{'program': progs[0], 'selects': {k: v['selects'] for k, v in res['programs'][0].items()}}])


def replay(ctx, data):
    p = data['program']
    r = vlib.run_impl('c23_driver.py', {'programs': [p]}, timeout=300)['programs'][0]
    j = judge(p, r)
    if j is None: return None
    return Failure(j[0], j[1], data)


LEVEL_TEXT = ('Machine-checked proof (Coq 8.16.1, closed) of the collection core of the loading machinery over a hand model tied to the real SetData: for a '
              'many-to-many collection of one owner, every loading path (whole-collection Set.load = what each member of an nplus1 batch or of '
              'prefetch_load_all receives, with its OWN count; load of just the asked items; flush) keeps the SetData consistent with the link rows and '
              'leaves the abstract collection (rows minus pending removals plus pending additions) unchanged, and iteration, len, count, contains and '
              'is_empty are functions of that abstract collection only, so they agree whichever paths ran (C23_collection_path_independent); add / remove '
              'change it by exactly the item. Also proved: the batch WHERE criteria select exactly the batch keys (C23_batch_criteria), membership after '
              'in-session add/remove for the check order read from the source, and that a scalar read returns the written or the database value after any '
              'row merges, lazy or not (C23_scalar_read). The statement over whole programs (all entities, one-to-many collections, seeds, prefetch '
              'traversal) is checked differentially under five regimes.')
LEVEL_NOTE = ('Proved over hand models (Model/C23Load.v, C23SetData.v, C23Scalar.v, C23Batch.v) for ONE owner and its many-to-many collection without concurrent '
              'writers; the tie is vm_compute correspondence: the model invariant holds on every recorded real SetData, every own-side operation reproduces the '
              'recorded result and next SetData (~800 steps quick, ~8000 thorough), the criteria AST equals the real one. One-to-many collections share the load / count / is_empty / '
              'iteration model and have their own add / remove (item loaded; remove() as repaired by /repo 11753a1); the reverse-side '
              'bookkeeping (db_reverse_add) enters only as a hypothesis; seeds and prefetch traversal order are covered only by the five-regime differential runs on SQLite.')
TECHNIQUE = 'Coq proof of the pure batch-criteria lemma (hand model, vm_compute structural tie, SQLite semantic validation) + five-regime differential execution of generated programs'
DESIGN_REF = 'DESIGN.md section 5, C23'
