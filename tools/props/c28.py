"""C28 - In-place changes to Json and array values are persisted."""
import copy, json
import vlib
from vlib import Corr, Search, Failure, cz, cbool
import c28_scan, c28_impl
from c28_impl import LIST_OPS, DICT_OPS, PYNAME, plain_step, navigate

ID = 'C28'
LEVEL = 'proof'
PROPS = ['Props/C28.v']
GEN = [('Gen/Mutators.v', c28_scan.generate)]
TRUSTED = [
    'tools/c28_scan.py: the mutator names of list / dict are derived from the running CPython (every name of dir() is called on samples), the wrapped '
    'method tables are read with ast from ormtypes.py on every run (Gen/Mutators.v); the scan refuses files it does not recognise',
    'Model/C28Multi.v: several owners (2 objects x 2 Json attributes in the harness) with copy-on-store between them, tied by the same whole-trace comparison',
    'hand-written model Model/C28Tracked.v (TrackedValue.make, tracked_method, list / dict semantics, write bit, commit, reload with sorted keys), tied by '
    'vm_compute comparison of whole state traces (value tree with per-container tracking tags, write bit, stored JSON text) with real Pony on SQLite',
    'the harness tools/c28_impl.py (observation of tracking tags via obj_ref()/attr, write bit via obj._wbits_, raw column read on the session connection)',
    'only SQLite executes; other providers share ormtypes.py and core.py but their Json converters (dumps options) are not exercised',
]
ASSUMPTIONS = [
    'Json values are trees of None / bool / int / str / list / dict with str keys (no floats, tuples or custom objects in the Coq model; the search also uses nothing else)',
    'mutations reach a nested container through a chain of __getitem__ calls from the attribute value (handles kept across operations are path-addressed; '
    'a handle to a container that was removed from the document is outside the model)',
    'lst *= n with n >= 2 on a list that holds containers makes the copies share them (aliasing): outside the tree model, not generated',
    'extended slices (step != 1), sort(key=...) and list.sort on mixed-type lists are exercised by the search only, not in the Coq model',
    'TrackedArray is modelled as a TrackedList of ints with the method table TrackedArray exposes; item validation (Int / Str / Float arrays, 7 mutating forms, valid and wrong-typed items) is checked by the search only',
    'a value assigned through the Json wrapper is the wrapped value (fix 50830fa): checked by the search; whole-attribute assignment itself belongs to C07',
    'values move between owners only through the storing methods (which copy via TrackedValue.make); whole-attribute assignment obj.j = other.j[..] is not in the operation language',
    'the object is alive and its session is open (tracked_method skips everything for a dead weakref; a closed session raises)',
]
RULE = ('correspondence: seeded random scenarios = (document of depth <= 3, sequence of 1..10 operations drawn from every list / dict mutator at random depths, '
        'reads, commit, new session; ~12% deliberately invalid indexes / keys / receiver types), plus one scenario per mutator and depth; each scenario is one vm_compute '
        'boolean comparing the full state trace. search: sweep over every CPython mutator name x argument shape x container position, every reader name, '
        'seeded random sequences with commit + reload in a fresh session, and worlds of 2 objects x 2 Json attributes where nested containers read from one owner are stored into another '
        '(every storing method, same object / other object, commit / flush) and then changed in place through the new owner; non-trivial = the sequence changed the value (distinct canonical scenarios counted)')

KEYS = ['a', 'b', 'c', 'd', 'k1', 'x y']
STRS = ['', 'a', 'b', 'ab', 'z']


# ------------------------------------------------------------------------------------------------ generators

def gen_scalar(rng):
    r = rng.random()
    if r < 0.15: return None
    if r < 0.3: return rng.random() < 0.5
    if r < 0.7: return rng.randint(-3, 9)
    return rng.choice(STRS)

def gen_value(rng, depth):
    if depth <= 0 or rng.random() < 0.45: return gen_scalar(rng)
    if rng.random() < 0.5:
        return [gen_value(rng, depth - 1) for _ in range(rng.randint(0, 3))]
    return {k: gen_value(rng, depth - 1) for k in rng.sample(KEYS, rng.randint(0, 3))}

def gen_doc(rng):
    if rng.random() < 0.7:
        d = {k: gen_value(rng, 2) for k in rng.sample(KEYS, rng.randint(1, 4))}
        if not any(isinstance(v, (list, dict)) for v in d.values()): d['a'] = [1, [2], {'b': []}]
        return d
    return [gen_value(rng, 2) for _ in range(rng.randint(1, 4))]

def containers(v, path=()):
    out = [(list(path), v)]
    if isinstance(v, dict):
        for k, x in v.items():
            if isinstance(x, (list, dict)): out += containers(x, path + (k,))
    else:
        for i, x in enumerate(v):
            if isinstance(x, (list, dict)): out += containers(x, path + (i,))
    return out

def gen_index(rng, n, valid=True):
    if valid and n > 0: return rng.randint(-n, n - 1)
    return rng.choice([n, n + 1, -n - 1, -n - 2])

def gen_bound(rng, n):
    return rng.choice([None, None] + list(range(-n - 1, n + 2)))

def sortable(c):
    return len(c) <= 1 or all(type(x) is int for x in c) or all(type(x) is str for x in c)

def gen_list_op(rng, c, scalars_only=False, array=False):
    n = len(c)
    val = (lambda: rng.randint(-3, 9)) if array else (lambda: gen_scalar(rng) if scalars_only else gen_value(rng, 2))
    ops = list(LIST_OPS)
    if array: ops.remove('setslice')
    m = rng.choice(ops)
    if m == 'setitem': return m, [gen_index(rng, n, rng.random() < 0.85), val()]
    if m == 'setslice': return m, [gen_bound(rng, n), gen_bound(rng, n), rng.random() < 0.75, [val() for _ in range(rng.randint(0, 3))]]
    if m == 'delitem': return m, [gen_index(rng, n, rng.random() < 0.85)]
    if m == 'delslice': return m, [gen_bound(rng, n), gen_bound(rng, n)]
    if m == 'append': return m, [val()]
    if m == 'extend': return m, [rng.random() < 0.75, [val() for _ in range(rng.randint(0, 3))]]
    if m == 'insert': return m, [rng.randint(-n - 2, n + 2), val()]
    if m == 'pop': return m, [rng.choice([None, None, gen_index(rng, n, rng.random() < 0.85)])]
    if m == 'remove':
        cands = [x for x in c if not isinstance(x, (list, dict))]
        return m, [rng.choice(cands) if cands and rng.random() < 0.8 else 77]
    if m == 'sort':
        if not sortable(c): return 'reverse', []
        return m, [rng.random() < 0.4]
    if m == 'iadd': return m, [[val() for _ in range(rng.randint(0, 2))]]
    if m == 'imul':
        # lst *= n (n >= 2) makes the copies share their nested containers; the model is a tree, so only scalar lists are multiplied
        if any(isinstance(x, (list, dict)) for x in c): return m, [rng.choice([0, 1, -1])]
        return m, [rng.choice([0, 1, 2, 2, -1])]
    return m, []

def gen_dict_op(rng, c):
    m = rng.choice(DICT_OPS)
    have = list(c.keys())
    key = lambda: rng.choice(have) if have and rng.random() < 0.6 else rng.choice(KEYS)
    kvs = lambda: [[k, gen_value(rng, 2)] for k in rng.sample(KEYS, rng.randint(0, 3))]
    if m == 'dsetitem': return m, [key(), gen_value(rng, 2)]
    if m == 'ddelitem': return m, [key()]
    if m == 'update':
        form = rng.choice(['dict', 'pairs', 'kwargs'])
        kv = kvs()
        if form == 'kwargs': kv = [p for p in kv if p[0].isidentifier()]
        return m, [form, kv]
    if m == 'setdefault': return m, [key(), gen_value(rng, 2)]
    if m == 'dpop':
        hd = rng.random() < 0.5
        return m, [key(), hd, gen_scalar(rng) if hd else None]
    if m == 'ior': return m, [kvs()]
    return m, []

def gen_ops(rng, kind, doc, n, p_invalid=0.12):
    """-> ops; drives a plain shadow copy to keep most operations valid"""
    shadow = copy.deepcopy(doc)
    ops = []
    for _ in range(n):
        r = rng.random()
        if r < 0.08: ops.append({'m': 'commit'}); continue
        if r < 0.15: ops.append({'m': 'newsession'}); continue
        if r < 0.19: ops.append({'m': 'touch_other', 'a': [rng.randint(0, 9)]}); continue
        path, c = rng.choice(containers(shadow))
        if r < 0.28:
            names = READERS['list' if isinstance(c, list) else 'dict']
            op = {'p': path, 'm': 'read', 'a': [rng.choice(names)]}
        elif rng.random() < p_invalid:
            # invalid: a path that does not exist, or a method of the other container type
            if rng.random() < 0.5:
                op = {'p': path + [rng.choice([99, 'nokey'])], 'm': 'append', 'a': [1]}
            elif isinstance(c, list): op = {'p': path, 'm': rng.choice(['update', 'setdefault', 'popitem']), 'a': ['dict', []]}
            else: op = {'p': path, 'm': rng.choice(['append', 'insert', 'reverse', 'extend']), 'a': [True, []]}
            if op['m'] == 'setdefault': op['a'] = ['a', 1]
            if op['m'] == 'popitem' or op['m'] == 'reverse': op['a'] = []
            if op['m'] == 'insert': op['a'] = [0, 1]
            if op['m'] == 'append': op['a'] = [1]
        elif isinstance(c, list):
            m, a = gen_list_op(rng, c, array=(kind == 'array'))
            op = {'p': path, 'm': m, 'a': a}
        else:
            m, a = gen_dict_op(rng, c)
            op = {'p': path, 'm': m, 'a': a}
        ops.append(op)
        if op['m'] != 'read': plain_step(shadow, op)
    return ops


READERS = {}
def load_tables():
    if not READERS:
        # only the CPython side: the search must keep working when the scan of ormtypes.py refuses the file
        lm, lr = c28_scan.cpython_mutators(list)
        dm, dr = c28_scan.cpython_mutators(dict)
        t = {'cpython_list_mutators': lm, 'cpython_dict_mutators': dm, 'cpython_list_readers': lr, 'cpython_dict_readers': dr}
        skip = {'__class__', '__new__', '__init_subclass__', '__subclasshook__', '__class_getitem__', '__doc__', '__setattr__', '__delattr__', '__hash__'}
        READERS['list'] = [n for n in t['cpython_list_readers'] if n not in skip]
        READERS['dict'] = [n for n in t['cpython_dict_readers'] if n not in skip]
        READERS['list_mut'] = t['cpython_list_mutators']
        READERS['dict_mut'] = t['cpython_dict_mutators']
    return READERS


# ------------------------------------------------------------------------------------------------ Coq literals

def czs(s): return '[' + '; '.join(str(ord(ch)) for ch in s) + ']'
def copt_z(x): return 'None' if x is None else '(Some %s)' % cz(x)

def cjv(v):
    if v is None: return 'JNull'
    if v is True: return '(JBool true)'
    if v is False: return '(JBool false)'
    if isinstance(v, int): return '(JNum %s)' % cz(v)
    if isinstance(v, str): return '(JStr %s)' % czs(v)
    if isinstance(v, (list, tuple)): return '(JList [%s])' % '; '.join(cjv(x) for x in v)
    if isinstance(v, dict): return '(JDict [%s])' % '; '.join('(%s, %s)' % (czs(k), cjv(x)) for k, x in v.items())
    raise ValueError('not a modelled Json value: %r' % (v,))

def ckvs(kvs): return '[%s]' % '; '.join('(%s, %s)' % (czs(k), cjv(x)) for k, x in kvs)
def cjvs(xs): return '[%s]' % '; '.join(cjv(x) for x in xs)

def ctag(t): return 'None' if t is None else '(Some (%d%%nat, 1%%nat))' % (t if t >= 0 else 999)

def ctv(t):
    """observed tree (c28_impl.observe) -> tv literal"""
    if isinstance(t, list) and len(t) == 3 and t[0] == 'D':
        return '(TDict %s [%s])' % (ctag(t[1]), '; '.join('(%s, %s)' % (czs(k), ctv(x)) for k, x in t[2]))
    if isinstance(t, list) and len(t) == 3 and t[0] == 'L':
        return '(TList %s [%s])' % (ctag(t[1]), '; '.join(ctv(x) for x in t[2]))
    if t is None: return 'TNull'
    if t is True: return '(TBool true)'
    if t is False: return '(TBool false)'
    if isinstance(t, int): return '(TNum %s)' % cz(t)
    if isinstance(t, str): return '(TStr %s)' % czs(t)
    raise ValueError('not a modelled value: %r' % (t,))

def _cjv_obs(t):
    if isinstance(t, list) and len(t) == 3 and t[0] == 'D':
        return '(JDict [%s])' % '; '.join('(%s, %s)' % (czs(k), _cjv_obs(x)) for k, x in t[2])
    if isinstance(t, list) and len(t) == 3 and t[0] == 'L':
        return '(JList [%s])' % '; '.join(_cjv_obs(x) for x in t[2])
    if isinstance(t, list): return '(JList [%s])' % '; '.join(_cjv_obs(x) for x in t)
    return cjv(t)

def cpath(p):
    return '[%s]' % '; '.join('(KIdx %s)' % cz(k) if isinstance(k, int) else '(KKey %s)' % czs(k) for k in p)

def cact(m, a):
    if m == 'setitem': return '(AL (LSetItem %s %s))' % (cz(a[0]), cjv(a[1]))
    if m == 'setslice': return '(AL (LSetSlice %s %s %s %s))' % (copt_z(a[0]), copt_z(a[1]), cbool(a[2]), cjvs(a[3]))
    if m == 'delitem': return '(AL (LDelItem %s))' % cz(a[0])
    if m == 'delslice': return '(AL (LDelSlice %s %s))' % (copt_z(a[0]), copt_z(a[1]))
    if m == 'append': return '(AL (LAppend %s))' % cjv(a[0])
    if m == 'extend': return '(AL (LExtend %s %s))' % (cbool(a[0]), cjvs(a[1]))
    if m == 'insert': return '(AL (LInsert %s %s))' % (cz(a[0]), cjv(a[1]))
    if m == 'pop': return '(AL (LPop %s))' % copt_z(a[0])
    if m == 'remove': return '(AL (LRemove %s))' % cjv(a[0])
    if m == 'reverse': return '(AL LReverse)'
    if m == 'sort': return '(AL (LSort %s))' % cbool(a[0])
    if m == 'clear': return '(AL LClear)'
    if m == 'iadd': return '(AL (LIAdd %s))' % cjvs(a[0])
    if m == 'imul': return '(AL (LIMul %s))' % cz(a[0])
    if m == 'dsetitem': return '(AD (DSetItem %s %s))' % (czs(a[0]), cjv(a[1]))
    if m == 'ddelitem': return '(AD (DDelItem %s))' % czs(a[0])
    if m == 'update': return '(AD (DUpdate %s))' % ckvs(a[1])
    if m == 'setdefault': return '(AD (DSetDefault %s %s))' % (czs(a[0]), cjv(a[1]))
    if m == 'dpop': return '(AD (DPop %s %s))' % (czs(a[0]), '(Some %s)' % cjv(a[2]) if a[1] else 'None')
    if m == 'popitem': return '(AD DPopItem)'
    if m == 'dclear': return '(AD DClear)'
    if m == 'ior': return '(AD (DIOr %s))' % ckvs(a[0])
    if m == 'read': return 'ARead'
    raise ValueError(m)

def cops(ops):
    out, sess = [], 0
    for op in ops:
        if op['m'] == 'commit': out.append('OCommit')
        elif op['m'] == 'newsession':
            sess += 1; out.append('(ONewSession (%d%%nat, 1%%nat))' % sess)
        elif op['m'] == 'touch_other': out.append('(OAct [] ARead)')
        else: out.append('(OAct %s %s)' % (cpath(op['p']), cact(op['m'], op['a'])))
    return '[%s]' % ';\n  '.join(out)

def cstate(st):
    return '{| root := %s; dirty := %s; dbval := %s |}' % (ctv(st['root']), cbool(st['dirty']), _cjv_obs(st['db']))

HEADER = ('Require Import PonyV.Base.PyBase PonyV.Model.C28Tracked PonyV.Gen.Mutators PonyV.Model.C28Wrapped PonyV.Model.C28Multi.\n#[local] Open Scope Z_scope.\n')


def run_bools(ctx, exprs, chunk=280):
    chunks = []
    for i in range(0, len(exprs), chunk):
        part = exprs[i:i + chunk]
        chunks.append('Definition cases : list bool := [\n' + ';\n'.join(part) + '].\nEval vm_compute in (failing28 cases).\n')
    outs = vlib.coq_eval_many(ctx, HEADER, chunks, name='c28cases')
    bad = []
    for k, out in enumerate(outs):
        vals = vlib.parse_eval_outputs(out)
        assert len(vals) == 1, out[-500:]
        inner = vals[0].strip().strip('[]').strip()
        if inner:
            for tok in inner.split(';'):
                bad.append(k * chunk + int(tok.strip().replace('%nat', '')))
    return bad


# ------------------------------------------------------------------------------------------------ several owners (2 objects x 2 Json attributes)

HOWS_LIST = [['setl', 0], ['append'], ['insert', 0], ['extend', True], ['extend', False], ['iadd']]
HOWS_DICT = [['setd', 'k'], ['update', 'k'], ['setdefault', 'n'], ['ior', 'k'], ['embed', 'e', 'in']]

def gen_wops(rng, docs, n):
    shadow = copy.deepcopy(docs)
    ops = []
    for _ in range(n):
        r = rng.random()
        if r < 0.12: ops.append({'m': rng.choice(['commit', 'flush'])}); continue
        if r < 0.18: ops.append({'m': 'newsession'}); continue
        if r < 0.55:
            src, dst = rng.randrange(4), rng.randrange(4)
            sp, sv = rng.choice(containers(shadow[src]))
            if rng.random() < 0.25 and sp: sp = sp[:-1] + [rng.choice(['nokey', 99])]            # sometimes a source path that does not exist
            dp, c = rng.choice(containers(shadow[dst]))
            if src == dst and (sp[:len(dp)] == dp or dp[:len(sp)] == sp): continue                 # no container stored into itself / its own ancestor
            how = list(rng.choice(HOWS_LIST if isinstance(c, list) else HOWS_DICT))
            if how[0] in ('setl', 'insert'): how[1] = gen_index(rng, len(c), rng.random() < 0.85)
            if how[0] in ('setd', 'update', 'setdefault', 'ior'): how[1] = rng.choice(KEYS[:4])
            if how[0] == 'update' and not how[1].isidentifier(): how[1] = 'k'
            op = {'m': 'copy', 'src': src, 'sp': sp, 'dst': dst, 'dp': dp, 'how': how}
        else:
            s_ = rng.randrange(4)
            path, c = rng.choice(containers(shadow[s_]))
            if rng.random() < 0.2:
                op = {'s': s_, 'p': path, 'm': 'read', 'a': [rng.choice(READERS['list' if isinstance(c, list) else 'dict'])]}
            elif isinstance(c, list):
                m, a = gen_list_op(rng, c); op = {'s': s_, 'p': path, 'm': m, 'a': a}
            else:
                m, a = gen_dict_op(rng, c); op = {'s': s_, 'p': path, 'm': m, 'a': a}
        ops.append(op)
        if op['m'] != 'read': c28_impl.plain_wstep(shadow, op)
    return ops

def cstore(how):
    k = how[0]
    if k == 'setl': return '(SSetL %s)' % cz(how[1])
    if k == 'append': return 'SAppend'
    if k == 'insert': return '(SInsert %s)' % cz(how[1])
    if k == 'extend': return '(SExtend %s)' % cbool(how[1])
    if k == 'iadd': return 'SIAdd'
    if k == 'setd': return '(SSetD %s)' % czs(how[1])
    if k == 'update': return '(SUpdate %s)' % czs(how[1])
    if k == 'setdefault': return '(SSetDefault %s)' % czs(how[1])
    if k == 'ior': return '(SIOr %s)' % czs(how[1])
    if k == 'embed': return '(SEmbed %s %s)' % (czs(how[1]), czs(how[2]))
    raise ValueError(how)

def cwops(ops):
    out, sess = [], 0
    for op in ops:
        m = op['m']
        if m in ('commit', 'flush'): out.append('WCommit')
        elif m == 'newsession': sess += 1; out.append('(WNewSession %d%%nat)' % sess)
        elif m == 'copy': out.append('(WCopy %d%%nat %s %d%%nat %s %s)' % (op['src'], cpath(op['sp']), op['dst'], cpath(op['dp']), cstore(op['how'])))
        else: out.append('(WAct %d%%nat %s %s)' % (op['s'], cpath(op['p']), cact(m, op['a'])))
    return '[%s]' % ';\n  '.join(out)

def cwtag(t): return 'None' if t is None else '(Some (%d%%nat, %d%%nat))' % (t[0], t[1])

def cwtv(t):
    if isinstance(t, list) and len(t) == 3 and t[0] == 'D' and (t[1] is None or isinstance(t[1], list)):
        return '(TDict %s [%s])' % (cwtag(t[1]), '; '.join('(%s, %s)' % (czs(k), cwtv(x)) for k, x in t[2]))
    if isinstance(t, list) and len(t) == 3 and t[0] == 'L' and (t[1] is None or isinstance(t[1], list)):
        return '(TList %s [%s])' % (cwtag(t[1]), '; '.join(cwtv(x) for x in t[2]))
    return ctv(t)

def cworld(slots):
    return '[%s]' % '; '.join('{| root := %s; dirty := %s; dbval := %s |}' % (cwtv(s['root']), cbool(s['dirty']), _cjv_obs(s['db'])) for s in slots)

def world_expr(docs, ops):
    trace = c28_impl.run_wtrace(docs, ops)
    expr = 'worlds_eqb (wscan wr_gen %s (wload_from 0 0 %s)) [%s]' % (cwops(ops), cjvs(docs), ';\n '.join(cworld(t['slots']) for t in trace))
    return expr, trace

WDOCS = [{'tags': ['r', 'g'], 'opts': {'depth': {'n': 1}}, 'l': [[1], [2]]}, {'tags': [], 'opts': {}, 'l': [[0]]},
         {'tags': ['b'], 'opts': {'x': {}}, 'l': [[5]]}, {'tags': [], 'opts': {}, 'l': [[0]]}]

def world_sweep():
    """every storing method x (other object | other attribute of the same object) x (commit | flush) : read a nested container from slot 0, store it,
    write the pending change, change the stored container in place through the new owner"""
    for dst in (2, 1):
        for fl in ('commit', 'flush'):
            for sp in (['tags'], ['opts', 'depth'], ['l', 0]):
                for how in HOWS_LIST:
                    dp = ['l'] if how[0] in ('setl', 'insert') else ['tags']
                    yield dst, fl, sp, dp, list(how)
                for how in HOWS_DICT:
                    for dp in (['opts'], []):
                        yield dst, fl, sp, dp, list(how)

def sweep_ops(dst, fl, sp, dp, how):
    at = c28_impl.stored_at(dp, how)
    val = navigate(WDOCS[0], sp)
    inplace = {'s': dst, 'p': at, 'm': 'append', 'a': [9]} if isinstance(val, list) else {'s': dst, 'p': at, 'm': 'dsetitem', 'a': ['zz', 1]}
    return [{'m': 'copy', 'src': 0, 'sp': sp, 'dst': dst, 'dp': dp, 'how': how}, {'m': fl}, inplace]


# ------------------------------------------------------------------------------------------------ scenarios

def systematic_scenarios():
    """one scenario per (mutator, container position): every method of the model at depth 0, 1, 2"""
    doc = {'l': [3, 1, [5, 4], {'k': [1]}], 'd': {'x': 1, 'y': [2, 2], 'z': {'q': None}}, 's': ['b', 'a']}
    out = []
    lists = [['l'], ['l', 2], ['d', 'y'], ['l', 3, 'k'], ['s']]
    dicts = [[], ['d'], ['d', 'z'], ['l', 3]]
    nested = [[7], {'n': [8]}]
    for p in lists:
        for m, a in [('setitem', [0, nested[0]]), ('setitem', [-1, nested[1]]), ('setslice', [0, 1, True, nested]), ('setslice', [1, None, False, [1, 2]]),
                     ('delitem', [0]), ('delitem', [-1]), ('delslice', [None, 1]), ('append', [nested[1]]), ('extend', [True, nested]),
                     ('extend', [False, [1, 'a']]), ('insert', [1, nested[0]]), ('insert', [-9, 0]), ('pop', [None]), ('pop', [0]), ('remove', [2]),
                     ('reverse', []), ('sort', [False]), ('sort', [True]), ('clear', []), ('iadd', [[9]]), ('imul', [2]), ('imul', [0]),
                     ('read', ['copy']), ('read', ['__len__']), ('setitem', [5, 1]), ('pop', [9]), ('remove', [77])]:
            if m == 'sort' and p not in (['s'], ['d', 'y'], ['l', 2]): continue
            out.append(('json', doc, [{'p': p, 'm': m, 'a': a}, {'m': 'commit'}, {'p': p, 'm': 'read', 'a': ['__len__']}, {'m': 'newsession'}]))
    for p in dicts:
        for m, a in [('dsetitem', ['n', nested[0]]), ('dsetitem', ['d', nested[1]]), ('ddelitem', ['d']), ('ddelitem', ['nokey']),
                     ('update', ['dict', [['u', nested[0]], ['d', 1]]]), ('update', ['pairs', [['u', nested[1]]]]), ('update', ['kwargs', [['u', [1]]]]),
                     ('setdefault', ['n', nested[1]]), ('setdefault', ['d', 0]), ('dpop', ['d', False, None]), ('dpop', ['nokey', True, 5]),
                     ('dpop', ['nokey', False, None]), ('popitem', []), ('dclear', []), ('ior', [[['u', [1]]]]), ('read', ['keys']), ('read', ['get'])]:
            if p and m in ('ddelitem', 'dpop', 'setdefault', 'dsetitem') and a[0] == 'd': a = ['q' if p == ['d', 'z'] else ('k' if p == ['l', 3] else 'x')] + a[1:]
            out.append(('json', doc, [{'p': p, 'm': m, 'a': a}, {'m': 'commit'}, {'p': p, 'm': 'read', 'a': ['__len__']}, {'m': 'newsession'}]))
    arr = [3, 1, 2, 2]
    for m, a in [('setitem', [0, 9]), ('delitem', [-1]), ('delslice', [1, 3]), ('append', [7]), ('extend', [True, [7, 8]]), ('extend', [False, [7]]),
                 ('insert', [1, 5]), ('pop', [None]), ('pop', [1]), ('remove', [2]), ('reverse', []), ('sort', [False]), ('sort', [True]), ('clear', []),
                 ('iadd', [[9]]), ('imul', [2]), ('read', ['index'])]:
        out.append(('array', arr, [{'p': [], 'm': m, 'a': a}, {'m': 'commit'}, {'m': 'newsession'}, {'p': [], 'm': 'append', 'a': [1]}]))
    return out


def scenario_expr(kind, doc, ops):
    st0, trace = c28_impl.run_trace(kind, doc, ops)
    wr = 'wr_gen' if kind == 'json' else 'wr_gen_array'
    expected = '[%s]' % ';\n  '.join(cstate(st) for st in trace)
    expr = 'states_eqb (scan %s %s (load (0%%nat, 1%%nat) %s)) %s' % (wr, cops(ops), cjv(doc), expected)
    return expr, st0, trace


def correspondence(ctx):
    load_tables()
    rng = ctx.rng
    exprs, meta, disagreements, samples = [], [], [], []
    dist = {'scenarios_systematic': 0, 'scenarios_random_json': 0, 'scenarios_random_array': 0, 'ops': {}, 'raised': 0, 'ops_total': 0}
    nontrivial = set()
    scen = systematic_scenarios()
    dist['scenarios_systematic'] = len(scen)
    n_json, n_arr = ctx.scale(260, 2500), ctx.scale(60, 500)
    for _ in range(n_json):
        doc = gen_doc(rng)
        scen.append(('json', doc, gen_ops(rng, 'json', doc, rng.randint(1, 10))))
        dist['scenarios_random_json'] += 1
    for _ in range(n_arr):
        doc = [rng.randint(-3, 9) for _ in range(rng.randint(0, 5))]
        scen.append(('array', doc, gen_ops(rng, 'array', doc, rng.randint(1, 8))))
        dist['scenarios_random_array'] += 1
    for kind, doc, ops in scen:
        try:
            expr, st0, trace = scenario_expr(kind, doc, ops)
        except Exception as e:
            disagreements.append({'what': 'harness could not run / serialise the scenario: %s: %s' % (type(e).__name__, e), 'input': {'kind': kind, 'doc': doc, 'ops': ops}})
            continue
        exprs.append(expr); meta.append((kind, doc, ops, trace))
        for op, st in zip(ops, trace):
            dist['ops'][op['m']] = dist['ops'].get(op['m'], 0) + 1
            dist['ops_total'] += 1
            if st.get('err'): dist['raised'] += 1
        if trace and (c28_impl.untag(trace[-1]['root']) != doc or any(st['dirty'] for st in trace)):
            nontrivial.add(json.dumps([kind, doc, ops], sort_keys=True))
        if len(samples) < 3 and len(ops) >= 4: samples.append({'kind': kind, 'doc': doc, 'ops': ops, 'final_state': trace[-1]})
    # several owners: systematic store-flush-mutate traces and random worlds
    wscen = [(WDOCS, sweep_ops(*c)) for n_, c in enumerate(world_sweep()) if n_ % ctx.scale(3, 1) == 0]
    for _ in range(ctx.scale(70, 700)):
        docs = [gen_doc(rng) for _ in range(4)]
        wscen.append((docs, gen_wops(rng, docs, rng.randint(2, 9))))
    dist['scenarios_world'] = len(wscen)
    for docs, ops in wscen:
        try:
            expr, trace = world_expr(docs, ops)
        except Exception as e:
            disagreements.append({'what': 'harness could not run / serialise the world scenario: %s: %s' % (type(e).__name__, e), 'input': {'world': True, 'docs': docs, 'ops': ops}})
            continue
        exprs.append(expr); meta.append(('world', docs, ops, trace))
        for op in ops: dist['ops']['w:' + op['m']] = dist['ops'].get('w:' + op['m'], 0) + 1
        if any(s['dirty'] for t in trace for s in t['slots']): nontrivial.add(json.dumps(['world', docs, ops], sort_keys=True))
    bad = run_bools(ctx, exprs)
    for i in bad[:10]:
        kind, doc, ops, trace = meta[i]
        if kind == 'world':
            disagreements.append({'what': 'model and implementation differ (state trace, several owners)', 'input': {'world': True, 'docs': doc, 'ops': ops}, 'impl': trace[-1]})
            continue
        # locate the first differing step for the report
        first = None
        for k in range(1, len(ops) + 1):
            e = 'states_eqb (scan %s %s (load (0%%nat, 1%%nat) %s)) [%s]' % ('wr_gen' if kind == 'json' else 'wr_gen_array', cops(ops[:k]), cjv(doc),
                                                                          ';\n '.join(cstate(st) for st in trace[:k]))
            try:
                if run_bools(ctx, [e]): first = k - 1; break
            except Exception: break
        disagreements.append({'what': 'model and implementation differ (state trace)', 'input': {'kind': kind, 'doc': doc, 'ops': ops},
                              'first_differing_step': first, 'impl': trace[first] if first is not None else trace[-1]})
    return Corr(cases=len(exprs), nontrivial=len(nontrivial), disagreements=disagreements, samples=samples, distribution=dist,
                note='one vm_compute boolean per scenario: states_eqb (scan wr_gen ops (load doc)) <observed trace>; a state = value tree with the tracking '
                     'tag of every container, write bit, stored JSON document')


# ------------------------------------------------------------------------------------------------ search (property oracle, model-free)

def classify(kind, doc, ops, res):
    """finding key of a (shrunk) failing sequence"""
    cont_kind = lambda op: 'array' if kind == 'array' else ('list' if op['m'] in LIST_OPS or (op['m'] == 'raw' and op.get('t') == 'list') else 'dict')
    name = lambda op: op['a'][0] if op['m'] == 'raw' else PYNAME.get(op['m'], op['m'])
    acts = [(op, tr) for op, tr in zip(ops, res['trace']) if op['m'] not in ('commit', 'newsession', 'touch_other')]
    for op, tr in acts:
        if not tr['tagged']:
            if name(op) in ('__iadd__', '__imul__', '__ior__'):       # plain containers brought in by an unwrapped operator: same defect
                return 'unwrapped:%s.%s' % (cont_kind(op), name(op))
            form = 'non-list-iterable' if (op['m'] == 'extend' and not op['a'][0]) or (op['m'] == 'setslice' and not op['a'][2]) else 'plain-arguments'
            if tr['dirty']:
                return 'untracked-nested-after:%s.%s:%s' % (cont_kind(op), name(op), form)
            break
    for op, tr in acts:
        if tr['changed'] and not tr['dirty']:
            return 'unwrapped:%s.%s' % (cont_kind(op), name(op))
    return 'unlisted:%s' % '>'.join('%s.%s' % (cont_kind(op), name(op)) if 'p' in op else op['m'] for op in ops)


def check_seq(kind, doc, ops):
    try:
        return c28_impl.run_property(kind, doc, ops)
    except Exception as e:
        return {'lost': True, 'crash': '%s: %s' % (type(e).__name__, e), 'trace': [], 'seen': None, 'reloaded': None}


def shrink(kind, doc, ops):
    cur = list(ops)
    changed = True
    while changed:
        changed = False
        for i in range(len(cur)):
            cand = cur[:i] + cur[i + 1:]
            if cand and check_seq(kind, doc, cand)['lost']:
                cur = cand; changed = True; break
    return cur


def failure_of(kind, doc, ops, res):
    if res.get('crash'):
        key = 'crash:' + '>'.join(op['m'] for op in ops)
        return Failure(key, 'C28 harness: sequence crashed: %s' % res['crash'], {'kind': kind, 'doc': doc, 'ops': ops})
    key = classify(kind, doc, ops, res)
    what = '%s attribute, initial %r, ops %s: the program sees %r, a fresh session reloads %r' % (
        kind, doc, json.dumps(ops), res['seen'], res['reloaded'])
    return Failure(key, what[:900], {'kind': kind, 'doc': doc, 'ops': ops})


RAW_ARGS = {'list': [[], [0], [1], [2], [-1], [[7, [8]]], [0, [7]], [{'slice': [0, 1]}, [[7]]], [{'slice': [0, 1]}], [{'slice': [None, None, 2]}],
                     [{'slice': [None, None, 2]}, [5, 6]], [{'k': [1]}], ['a'], [[['k', [1]]]]],
            'dict': [[], ['a'], ['zz'], ['a', [1]], ['zz', [1]], [{'k': [1]}], [[['k', [1]]]]]}      # str keys only: anything else is not a JSON document

def sweep_cases():
    """every CPython mutator name x argument shape x container position (positions: root, depth 1, depth 2; array root)"""
    t = load_tables()
    doc = {'a': [3, 1, 2, 4], 'l': [[1, 2], {'a': 1}], 'd': {'a': 1, 'b': {'a': [1]}}}
    spots = [('list', ['a']), ('list', ['l', 0]), ('dict', []), ('dict', ['d']), ('dict', ['d', 'b']), ('dict', ['l', 1])]
    for tname, path in spots:
        for name in t[tname + '_mut']:
            for args in RAW_ARGS[tname]:
                if any(isinstance(x, dict) and 'slice' in x for x in args) and name not in ('__setitem__', '__delitem__'): continue
                yield 'json', doc, [{'p': path, 'm': 'raw', 't': tname, 'a': [name, args]}]
    for name in t['list_mut']:
        for args in [[], [0], [1], [2], [-1], [[7, 8]], [0, 7], [{'slice': [0, 1]}], [{'slice': [None, None, 2]}]]:
            if any(isinstance(x, dict) and 'slice' in x for x in args) and name not in ('__setitem__', '__delitem__'): continue
            yield 'array', [3, 1, 2, 4], [{'p': [], 'm': 'raw', 't': 'list', 'a': [name, args]}]


def search(ctx, deep):
    load_tables()
    rng = ctx.rng
    failures, evals, nontriv = [], 0, set()
    seen_keys = {}
    dist = {'sweep_mutators': 0, 'sweep_changed_value': 0, 'sweep_readers': 0, 'random_sequences': 0, 'failing_by_key': seen_keys}

    def record(f):
        if seen_keys.setdefault(f.key, 0) < 1: failures.append(f)
        seen_keys[f.key] += 1

    # (a) sweep: one call of every mutator name, leave the session, reload
    for kind, doc, ops in sweep_cases():
        res = check_seq(kind, doc, ops)
        evals += 1; dist['sweep_mutators'] += 1
        if res.get('crash') is None and res['trace'] and res['trace'][0]['changed']:
            dist['sweep_changed_value'] += 1
            nontriv.add(json.dumps([kind, ops], sort_keys=True))
        if res['lost']: record(failure_of(kind, doc, ops, res))
    # two steps: insert a container with every inserting method / argument form, commit, then change the inserted container
    doc = {'a': [1, 2], 'd': {'x': 1}}
    new = lambda: {'n': [5]}
    inserters = [{'p': ['a'], 'm': 'setitem', 'a': [0, new()]}, {'p': ['a'], 'm': 'setslice', 'a': [1, None, True, [new()]]}, {'p': ['a'], 'm': 'append', 'a': [new()]},
                 {'p': ['a'], 'm': 'extend', 'a': [True, [new()]]}, {'p': ['a'], 'm': 'insert', 'a': [1, new()]},
                 {'p': ['d'], 'm': 'dsetitem', 'a': ['k', new()]}, {'p': ['d'], 'm': 'update', 'a': ['dict', [['k', new()]]]},
                 {'p': ['d'], 'm': 'update', 'a': ['pairs', [['k', new()]]]}, {'p': ['d'], 'm': 'update', 'a': ['kwargs', [['k', new()]]]},
                 {'p': ['d'], 'm': 'setdefault', 'a': ['k', new()]}, {'p': [], 'm': 'dsetitem', 'a': ['k', new()]}]
    for ins in inserters:
        shadow = copy.deepcopy(doc)
        before = set(json.dumps(p) for p, _ in containers(shadow))
        plain_step(shadow, ins)
        fresh = [p for p, c in containers(shadow) if json.dumps(p) not in before and isinstance(c, list)]
        if not fresh: continue
        ops = [ins, {'m': 'commit'}, {'p': fresh[0], 'm': 'append', 'a': [6]}]
        res = check_seq('json', doc, ops)
        evals += 1
        nontriv.add(json.dumps(ops, sort_keys=True))
        if res['lost']: record(failure_of('json', doc, ops, res))
    # the same shape for the iterable findings: insert containers through a non-list iterable, commit, change them
    for ops in ([{'p': ['a'], 'm': 'extend', 'a': [False, [[9]]]}, {'m': 'commit'}, {'p': ['a', -1], 'm': 'append', 'a': [10]}],
                [{'p': ['a'], 'm': 'setslice', 'a': [0, 1, False, [{}]]}, {'m': 'commit'}, {'p': ['a', 0], 'm': 'dsetitem', 'a': ['z', None]}],
                [{'p': ['a'], 'm': 'extend', 'a': [True, [[9]]]}, {'m': 'commit'}, {'p': ['a', -1], 'm': 'append', 'a': [10]}],
                [{'p': ['a'], 'm': 'setslice', 'a': [0, 1, True, [{}]]}, {'m': 'commit'}, {'p': ['a', 0], 'm': 'dsetitem', 'a': ['z', None]}]):
        doc = {'a': [1, 2]}
        res = check_seq('json', doc, ops)
        evals += 1
        nontriv.add(json.dumps(ops, sort_keys=True))
        if res['lost']: record(failure_of('json', doc, ops, res))

    # (b) reads never mark the object: every non-mutating name of dir(list) / dir(dict) at three depths
    doc = {'a': [3, 1, 2], 'd': {'a': 1, 'b': {'a': [1]}}}
    for tname, paths in (('list', [['a'], ['d', 'b', 'a']]), ('dict', [[], ['d'], ['d', 'b']])):
        for name in READERS[tname]:
            for path in paths:
                ops = [{'p': path, 'm': 'read', 'a': [name]}]
                try:
                    s = c28_impl.Session('json', doc)
                    try:
                        s.step(ops[0])
                        st = s.state()
                        dirty, same = st['dirty'], c28_impl.untag(st['root']) == doc
                        status = s.obj._status_
                    finally:
                        s.cleanup()
                except Exception as e:
                    record(Failure('crash:read:%s.%s' % (tname, name), 'reader crashed the harness: %s: %s' % (type(e).__name__, e), {'kind': 'json', 'doc': doc, 'ops': ops, 'check': 'read'}))
                    continue
                evals += 1; dist['sweep_readers'] += 1
                if dirty or not same or status != 'loaded':
                    record(Failure('read-dirties:%s.%s' % (tname, name), 'reading through %s.%s marks the object modified (status %s) or changes the value' % (tname, name, status),
                                   {'kind': 'json', 'doc': doc, 'ops': ops, 'check': 'read'}))

    # (e) typed arrays: every mutator validates its items (a wrong-typed item raises TypeError and changes nothing), right-typed items are persisted
    dist['typed_array_cases'] = 0
    for akind, doc, good, bads in (('array', [1, 2], 7, ['x', 2.5, None, [1]]), ('sarray', ['a', 'b'], 'z', [1, 2.5, None, ['a']]), ('farray', [1.5, 2.0], 3.25, ['x', None, [1.0]])):
        for meth in ('append', 'insert', 'extend', 'extend_iter', 'setitem', 'iadd', 'attr_iadd'):
            for item in [good] + bads:
                try: r = c28_impl.typed_array_case(akind, doc, meth, item)
                except Exception as e:
                    record(Failure('crash:typed-array', 'typed array case crashed: %s: %s' % (type(e).__name__, e), {'typed': True, 'kind': akind, 'doc': doc, 'method': meth, 'item': item})); continue
                evals += 1; dist['typed_array_cases'] += 1
                data = {'typed': True, 'kind': akind, 'doc': doc, 'method': meth, 'item': item}
                if item is good:
                    nontriv.add(json.dumps(['typed', akind, meth]))
                    if r['err'] or r['seen'] != r['reloaded'] or good not in r['reloaded']:
                        record(Failure('typed-array:valid-item-lost:%s.%s' % (akind, meth), '%s value %r, %s(%r): error %r, the program sees %r, a fresh session reloads %r' % (akind, doc, meth, item, r['err'], r['seen'], r['reloaded']), data))
                elif r['err'] != 'TypeError' or r['seen'] != doc or r['reloaded'] != doc:
                    record(Failure('typed-array:item-not-validated:%s.%s' % (akind, meth), '%s value %r, %s(%r) must raise TypeError and change nothing: error %r, the program sees %r, a fresh session reloads %r' % (akind, doc, meth, item, r['err'], r['seen'], r['reloaded']), data))
    # (f) a value assigned through the Json wrapper
    for path, m_, a_ in (([], 'dsetitem', ['n', 1]), (['k'], 'append', [3]), (['d', 'x'], 'extend', [True, [[1]]])):
        wdoc = {'k': [1, 2], 'd': {'x': []}}
        try: r = c28_impl.json_wrapper_case(wdoc, path, m_, a_)
        except Exception as e:
            record(Failure('crash:json-wrapper', 'Json wrapper case crashed: %s: %s' % (type(e).__name__, e), {'wrapper': True, 'doc': wdoc, 'path': path, 'm': m_, 'a': a_})); continue
        evals += 1
        nontriv.add(json.dumps(['wrapper', path, m_]))
        if r['seen'] != r['reloaded']:
            record(Failure('json-wrapper-value-untracked', 'obj.j = Json(%r); commit(); in-place %s at %r: the program sees %r, a fresh session reloads %r (the attribute value is the Json wrapper itself: %s)'
                           % (wdoc, m_, path, r['seen'], r['reloaded'], r['wrapper']), {'wrapper': True, 'doc': wdoc, 'path': path, 'm': m_, 'a': a_}))

    # (d) several owners: store a container read from another owner, write, change it in place through the new owner
    def wcheck(docs, ops):
        try: return c28_impl.run_wproperty(docs, ops)
        except Exception as e: return {'lost': True, 'crash': '%s: %s' % (type(e).__name__, e), 'foreign': None, 'seen': None, 'reloaded': None}
    def wfailure(docs, ops, res):
        copies = [op for op in ops if op['m'] == 'copy']
        how = copies[-1]['how'][0] if copies else 'none'
        rel = 'none' if not copies else ('same-object' if copies[-1]['src'] // 2 == copies[-1]['dst'] // 2 else 'other-object')
        if res.get('crash'): key, what = 'crash:world', 'sequence crashed: %s' % res['crash']
        elif res['foreign']: key, what = 'cross-owner:wrong-owner-notified:%s:%s' % (how, rel), 'an operation through slot %d changed slot %d (value or write bit)' % (res['foreign']['through'], res['foreign']['slot'])
        else: key, what = 'cross-owner:change-through-new-owner-lost:%s:%s' % (how, rel), 'the program sees %r, a fresh session reloads %r' % (res['seen'], res['reloaded'])
        return Failure(key, ('several owners (slots 0,1 = object A j1,j2; 2,3 = object B), initial %s, ops %s: %s' % (json.dumps(docs), json.dumps(ops), what))[:1100],
                       {'world': True, 'docs': docs, 'ops': ops})
    dist['world_sweep'] = 0; dist['world_random'] = 0
    for c in world_sweep():
        ops = sweep_ops(*c)
        res = wcheck(WDOCS, ops)
        evals += 1; dist['world_sweep'] += 1
        nontriv.add(json.dumps(['world', ops], sort_keys=True))
        if res['lost'] or res['foreign']: record(wfailure(WDOCS, ops, res))
    for _ in range(ctx.scale(60, 600) if not deep else ctx.scale(250, 1500)):
        docs = [gen_doc(rng) for _ in range(4)]
        ops = gen_wops(rng, docs, rng.randint(2, 9))
        res = wcheck(docs, ops)
        evals += 1; dist['world_random'] += 1
        if any(op['m'] == 'copy' for op in ops): nontriv.add(json.dumps(['world', docs, ops], sort_keys=True))
        if res['lost'] or res['foreign']:
            cur = list(ops); changed = True
            while changed:
                changed = False
                for i in range(len(cur)):
                    cand = cur[:i] + cur[i + 1:]
                    r2 = wcheck(docs, cand) if cand else {'lost': False, 'foreign': None}
                    if r2['lost'] or r2['foreign']: cur, res, changed = cand, r2, True; break
            record(wfailure(docs, cur, res))

    # (c) random sequences, commit + reload in a fresh session
    n = ctx.scale(150, 1500) if not deep else ctx.scale(600, 4000)
    for i in range(n):
        kind = 'array' if rng.random() < 0.2 else 'json'
        doc = [rng.randint(-3, 9) for _ in range(rng.randint(0, 5))] if kind == 'array' else gen_doc(rng)
        ops = gen_ops(rng, kind, doc, rng.randint(1, 10), p_invalid=0.05)
        res = check_seq(kind, doc, ops)
        evals += 1; dist['random_sequences'] += 1
        if any(t['changed'] for t in res['trace']): nontriv.add(json.dumps([kind, doc, ops], sort_keys=True))
        if res['lost']:
            small = shrink(kind, doc, ops)
            record(failure_of(kind, doc, small, check_seq(kind, doc, small)))
    return Search(evaluations=evals, failures=failures, nontrivial=len(nontriv), distribution=dist, exhaustive=False,
                  samples=[{'kind': 'json', 'doc': {'a': [1, 2]}, 'ops': [{'p': ['a'], 'm': 'raw', 't': 'list', 'a': ['__iadd__', [[7, [8]]]]}]}])


def replay(ctx, data):
    load_tables()
    if data.get('wrapper'):
        r = c28_impl.json_wrapper_case(data['doc'], data['path'], data['m'], data['a'])
        return Failure('json-wrapper-value-untracked', 'Json wrapper value: the program sees %r, a fresh session reloads %r' % (r['seen'], r['reloaded']), data) if r['seen'] != r['reloaded'] else None
    if data.get('typed'):
        r = c28_impl.typed_array_case(data['kind'], data['doc'], data['method'], data['item'])
        bad = (r['err'] != 'TypeError' or r['seen'] != data['doc'] or r['reloaded'] != data['doc'])
        return Failure('typed-array', 'typed array: %r' % (r,), data) if bad else None
    if data.get('world'):
        res = c28_impl.run_wproperty(data['docs'], data['ops'])
        if res['lost'] or res['foreign']:
            return Failure('cross-owner', 'several owners: %s' % ('an operation through one owner changed another owner' if res['foreign'] else 'the program sees %r, a fresh session reloads %r' % (res['seen'], res['reloaded'])), data)
        return None
    kind, doc, ops = data['kind'], data['doc'], data['ops']
    if data.get('check') == 'read':
        s = c28_impl.Session(kind, doc)
        try:
            s.step(ops[0]); st = s.state()
            if st['dirty'] or c28_impl.untag(st['root']) != doc:
                return Failure('read-dirties:%s' % ops[0]['a'][0], 'reading marks the object modified', data)
        finally:
            s.cleanup()
        return None
    res = check_seq(kind, doc, ops)
    if res['lost']: return failure_of(kind, doc, ops, res)
    return None


LEVEL_TEXT = ('Machine-checked proof (Coq 8.16.1) over a model of Pony\'s tracked Json / array values: for all documents, all paths and all sequences of list / dict '
              'mutators (every mutating method and operator of CPython\'s list and dict, any iterable argument), reads, commits and re-loads, every reachable container stays a '
              'Tracked* instance of the same owner, every mutator that returns sets the write bit, reads change nothing, and the row after commit equals the value the program '
              'sees -- unconditionally since fix f0ecc86 (+=, *=, |= and non-list iterables). The table of wrapped methods and the list of CPython mutators are regenerated from '
              'ormtypes.py and the running interpreter on every run; the coverage theorems are computed over them. Several owners (objects x Json attributes) with values stored from one into '
              'another keep every container bound to exactly its own owner. Typed arrays (Int / Str / Float) validate items on every mutator (search). A value '
              'assigned through the Json wrapper is stored and tracked as the wrapped value (fix 50830fa; search).')
LEVEL_NOTE = ('Trusted: Coq kernel + vm_compute; the ast scan of ormtypes.py; the hand-written model, tied to real Pony on SQLite by whole-trace vm_compute comparison '
              '(tracking tag of every container, write bit, stored text). No known finding remains (fixes f0ecc86 and 50830fa are committed). Not modelled: floats / tuples, extended slices, sort(key=), aliasing through lst *= n, handles to detached containers; '
              'other providers than SQLite.')
TECHNIQUE = 'Coq invariant proof by induction over operation sequences and paths (nested-inductive value trees); tables scanned from source and the running CPython; vm_compute trace correspondence; model-free commit/reload search'
DESIGN_REF = 'DESIGN.md section 5, C28'
