"""C09 - Committed database state equals the state the program committed."""
import session_check as chk
import session_flags

ID = 'C09'
LEVEL = 'proof'
PROPS = ['Props/C09.v', 'Findings/C09.v']
GEN = [('Gen/SessionFlags.v', session_flags.generate)]     # Tie A: which shape three repaired / repairable pieces of core.py have (read from /repo on every run)
TRUSTED = [
    'hand-written model coq/Model/Session*.v of pony/orm/core.py (SessionCache indexes / objects_to_save, Attribute.__set__/db_set, '
    'Set/SetInstance, Entity.__init__/_delete_/set/_db_set_/_save_*, EntityMeta._find_in_cache_/_fetch_objects), Stage 1 schema space',
    'logical reference state tools/session_spec.py (objects with scalar and reference values, collections derived from the references; every successful '
    'operation applies its documented effect, a failing one none; commit / rollback copy the state) - hand-written, ~300 lines, reads obj._pkval_ only',
    'history fuzzer tools/session_fuzz.py / session_impl.py / session_coq.py / session_check.py: generator, handle table, canonical results, '
    'row dumps through a separate sqlite3 connection',
    'reference semantics of the SQLite tables Pony creates (coq/Model/SessionDb.v: PRIMARY KEY, UNIQUE, NOT NULL, REFERENCES with '
    'ON DELETE CASCADE / SET NULL, AUTOINCREMENT), validated by the row dumps and error classes of every run',
    'optimistic checks / rbits, query result cache, multiple concurrent sessions are not modelled (single writer)',
]
ASSUMPTIONS = [
    'Stage 1 schemas (wf_schema): single integer primary key, int/str attributes, unique scalars, many-to-one / one-to-many with Pony\'s default cascade_delete; '
    'one-to-one and many-to-many relationships and composite keys (Stage 2) are covered by the implementation-side oracles only (half of the search histories use them; the Coq model and the '
    'correspondence do not); composite primary keys and inheritance are not generated',
    'theorems hold for histories that reach no dirty site of the model (s_dirty = 0): sites 1-8 are known findings / legitimate partial failures of the code, '
    'sites 20-28 are assertion sites believed unreachable (a hit in the correspondence run is reported as a broken tie)',
    'C09 proper is explored, not proved; the theorems listed cover the transaction structure only',
    'steps the model declines (a deleted object used as a reference value, Entity.set mixing reference and collection arguments, insertion order that depends on '
    'Python set iteration) end the comparison of that history',
]
RULE = ('seeded generator of (schema, op list): 1-3 entities, 1-3 scalar attributes each, 1-3 relationships (search: also many-to-many, one-to-one, composite_key), 10-40 ops, ~85 % valid ops; '
        'non-trivial = at least three successful mutating ops; distinct = distinct canonical (schema, ops)')


def correspondence(ctx):
    import session_m2m
    return session_m2m.extend_corr(ctx, chk.correspondence(ctx, ID))
def _scenarios(cases=None):
    """tools/session_scenarios.py: fixed multi-step scenarios the history fuzzer does not generate (see its docstring)."""
    import vlib
    out = vlib.run_impl('session_scenarios.py', {'family': 'c09', 'cases': cases}, timeout=600)['results']
    return [vlib.Failure('c09-scenario:' + r['case'], 'committed link rows / session views differ from the state of the program (%s): %s' % (r['case'], r['detail'][:700]), {'scenario_case': r['case']})
            for r in out if not r['ok']], len(out)


def search(ctx, deep):
    s = chk.search(ctx, deep, ID)
    fails, n = _scenarios()
    s.failures = fails + list(s.failures)
    s.evaluations += n
    s.distribution['fixed_scenarios'] = n
    return s


def replay(ctx, data):
    if 'scenario_case' in data:
        fails, _ = _scenarios([data['scenario_case']])
        return fails[0] if fails else None
    return chk.replay(ctx, data, ID)


LEVEL_TEXT = ("Exploration plus partial proof, Stage 1 schema space. EXPLORED on every run: fixed multi-step scenarios (tools/session_scenarios.py: a pending many-to-many change from either side, then a delete() that empties the collection and FAILS - ConstraintError, caught -, then commit / flush+commit / rollback: session views, the views after the commit, the link rows read through a second connection and a new session must all equal the program's logical state; 28 cases); generated histories (creates, updates, deletes, reference and collection changes, flushes, commits, rollbacks, new sessions, ~15 % malformed ops) run on real Pony + SQLite; after every commit / rollback / db_session exit the rows read through a separate connection must equal the committed copy of an independent logical reference state (tools/session_spec.py), and objects that have to be saved must be queued. PROVED (Coq, every schema, every state / history of the executable session model): only commit / leaving the db_session change the committed database - every other operation, incl. rollback, failing operations and reads with their auto-flush, leaves it alone; a failing commit publishes nothing and the next session starts from the last commit; rollback discards database changes and the whole cache; what later sessions see after a rollback depends on the committed database only; a successful commit publishes exactly the flushed transaction; a flush that succeeds leaves no object with status created / modified / marked_to_delete, provided every such object was queued at its _save_pos_; that premise - the queue invariant: pending objects have a _save_pos_, the slot there holds them, only pending objects have one - is proved for EVERY history that reached no dirty site (every function of the model; the dirty sites are the known findings queue-not-queued@...), so in a clean history every successful flush saves every object the program created, changed or deleted. PROVED additionally for Stage 1 schemas WITHOUT Required references only (no ON DELETE CASCADE; C09_cache_database_coherence_except_known, Proofs/SessionCoh.v): cache/database coherence for scalar attributes is an invariant of every history that reached no dirty site - for the object the primary-key index names, dbvals mirror the row of the transaction's database, every value the program did not write in this transaction is the row's value, a loaded/inserted/updated object has no written bit, every non-seed object has its row; both databases keep key constraints and one column per attribute in EVERY history - and from it the first piece of the simulation, C09_committed_scalars_except_known: after a successful commit in a clean history whose transaction had something to save, for every object the program did not delete (and that is not a mere seed) the committed row exists and holds exactly the object's current scalar (int/str) attribute values (C09_committed_scalars_settled_except_known: the same without the 'something to save' premise for objects whose status is loaded/inserted/updated). STAGE 2 PIECE (many-to-many link sets): a separate executable model coq/Model/SessionM2M.v (SetData items/added/removed on both sides, Set.load with partial loads and prefetching, add/remove/assignment, reverse_add/reverse_remove/db_reverse_add, _calc_modified_m2m with remove_m2m/add_m2m, commit, rollback; fixed schema A.bs <-> B.as_ over stored objects) is compared with real Pony + SQLite on generated histories on every run (every read, every committed link-table dump, inside Coq by vm_compute; reverting fix 83f8eb8 makes it disagree), and for it C09_m2m_committed_changes_only_at_commit, C09_m2m_commit_publishes, C09_m2m_rollback_discards and C09_m2m_flush_rows (the link rows a flush writes are exactly: rows removed in the A.bs views deleted, rows added there inserted) are proved for every state and operation; the both-ends invariant of that model is not proved. Stage covered by each theorem: the C09_m2m_* theorems the Stage 2 many-to-many piece only; all other theorems Stage 1 (one-to-many relationships only; no many-to-many, one-to-one, composite keys, inheritance); the transaction-structure and queue theorems every Stage 1 schema, the coherence theorems Stage 1 schemas without Required references. PARTIAL (C09_reference_columns_partial, every Stage 1 schema, statement level only): an INSERT writes for every column attribute the image of the object's value (for a reference the referred object's primary key), an UPDATE does so for the written attributes and keeps the other columns. NOT proved: that at commit reference columns hold the referred object's key (needs: principals keep their keys, no row refers to a principal when its DELETE runs, loaded collections are complete - stated in Proofs/SessionRefs.v, checked on histories only), anything for schemas with Required references (cascade delete), that the committed database holds no other rows than the program's objects (no full simulation proof between the session model and the reference state). Two defects are refuted by model witnesses (auto-generated id clash commits an orphan row; an assignment to a seed object is lost), four queue findings of the implementation (objects live in the session but in no save queue after a failed creation / delete / collection change / Entity.set) were repaired in /repo by 751c8a4 and 6e4a87a and are recorded as fixed; one remains known (a creation on an entity with a composite key over references raises KeyError and leaves the half-built object linked and unqueued) (regression histories in corpus/C09/fixed-*.json; the model stops at those dirty sites either way).")
LEVEL_NOTE = ('Trusted: the reference state (small, but hand-written; it trusts which operations raised), the fuzzer harness, SQLite; for the theorems the Coq kernel and the hand-written session model tied by differential runs. Composite primary keys and inheritance are outside the generators; many-to-many link rows are covered by the implementation-side search (stage 2 schemas) and by the separate link-set model (fixed two-entity schema).')
TECHNIQUE = 'exploration of generated operation histories on real Pony+SQLite against a logical reference state (property oracle, ddmin shrinking); Coq theorems over the executable session model for the transaction structure / read-your-own-write; vm_compute correspondence model vs implementation'
DESIGN_REF = 'DESIGN.md section 5, C09 and Appendix A'
