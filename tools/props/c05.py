"""C05 - Query, SQL and result caches are transparent."""
import json
import vlib, c01_lib as L, c01_harness as H, c05_harness as H5
from py2coq import c05flags
from vlib import Corr, Search, Failure

ID = 'C05'
LEVEL = 'proof'
PROPS = ['Props/C05.v', 'Findings/C05.v']
GEN = [('Gen/C05Flags.v', c05flags.generate)]
TRUSTED = [
    'Tie A: tools/py2coq/c05flags.py reads from pony/orm/core.py on every run whether Query._aggregate flushes before its query_results lookup and whether '
    'Database.execute clears query_results (Gen/C05Flags.v); the session model used by the correspondence run takes these two flags from the source',
    'READ-SET HYPOTHESIS (assumed about pony/orm/sqltranslation.py, not proved): the translator produced for (code key, vartypes, parameter values) depends on the '
    'parameter values only through the keys it records in translator.fixed_param_values (string slice / index bounds, getattr names). It is a hypothesis of '
    'C05_translator / C05_sqlkey_sound; the search attacks it (same query text re-used with different values and types, warm vs cold)',
    'hand-written model Model/C05Memo.v of Query._get_translator (lookup by query key, comparison of pinned values, delete + retranslate), of the sql cache key of '
    'Query._construct_sql_and_arguments, and of SessionCache.query_results with its invalidation points (flush, commit, bulk delete; Query._actual_fetch flushes '
    'before its lookup, Query._aggregate does so as well since repo commit 2af0689 - read from the source on every run, Tie A); tied on every run: the model, fed with the translation / execution results of the cold-cache run, must reproduce '
    'the hit / miss / replaced events observed on db._translator_cache and db._constructed_sql_cache (instrumented dict subclasses) and every answer of the warm run',
    'the warm run and the cold run (every cache cleared before each step: string2ast_cache, extractors_cache, ast_cache, adapted_sql_cache, _translator_cache, '
    '_constructed_sql_cache, _insert_cache, the per-entity SQL caches, query_results) happen on two fresh in-memory SQLite databases with the same initial rows',
]
ASSUMPTIONS = [
    'one thread, one database; the histories are sequences of query executions (14 query texts - in the search 16, the two extra ones inline a plain Python helper whose free module variable changes value and type between executions - incl. string slices, getattr, in-lists of several lengths, None / bool / '
    'int / str parameters; fetch, count, exists, first, page, [:2]) interleaved with attribute assignments, creations, deletions, flush, commit, session '
    'boundaries, raw SQL writes and bulk deletes',
    'raw SQL parameter substitution (adapt_sql and its cache) is property C30; decompiler caches for lambdas / generator objects (ast_cache keyed by code object) '
    'are covered by the generic memo theorem only (the histories use query strings); thread interleavings are C22',
]
RULE = ('seeded random histories of 12-16 steps over 2-4 of 14 query texts; 25% of the steps repeat an earlier query step exactly; non-trivial = a query step whose warm '
        'execution hit at least one cache and whose cold answer was compared; distinct = distinct (query text, parameter values, fetch mode)')

QUICK = dict(corr_histories=120, search_histories=500, steps=14)
THOROUGH = dict(corr_histories=1200, search_histories=12000, steps=16)
DEEP = dict(corr_histories=120, search_histories=4000, steps=14)

HEADER = 'Require Import PonyV.Base.PyBase PonyV.Model.C05Memo PonyV.Model.C05Inst.\nOpen Scope Z_scope.\n'


def sizes(ctx, deep=False):
    return THOROUGH if ctx.thorough else (DEEP if deep else QUICK)


# ------------------------------------------------------------------------------------------------ encoding for Coq

class Intern(object):
    def __init__(self): self.d = {}
    def __call__(self, x):
        k = json.dumps(x, sort_keys=True, default=repr)
        if k not in self.d: self.d[k] = len(self.d) + 1
        return self.d[k]


def tname(v):
    if v is None: return 'NoneType'
    if isinstance(v, bool): return 'bool'
    if isinstance(v, int): return 'int'
    if isinstance(v, str): return 'str'
    if isinstance(v, (list, tuple)): return '(' + ','.join(tname(x) for x in v) + ')'
    return type(v).__name__


def pidx(name):
    return int(name[1:])


OPTS = {'all': ['fetch', None, None], 'count': ['aggregate', 'COUNT'], 'exists': ['fetch', 1, None], 'limit2': ['fetch', 2, None],
        'first': ['order_by(1)', 'fetch', 1, None], 'page': ['order_by(1)', 'fetch', 2, 0]}
EVENT = {'Hit': 0, 'Miss': 1, 'Replaced': 2}
SIMPLE_HOWS = ('all', 'count', 'exists', 'limit2', 'first', 'page')   # the first translator lookup is the one under the query's own key


def cz(n): return vlib.cz(n)
def cnat(n): return '%d%%nat' % n
def cfixed(f): return '[%s]' % '; '.join('(%s, %s)' % (cnat(p), cz(v)) for p, v in f)


def encode(history, warm, cold):
    """-> (list of Coq bools, description) for one history, or None when the history has nothing to compare."""
    vt_i, val_i, tid_i, q_i, r_i, sk_i = Intern(), Intern(), Intern(), Intern(), Intern(), Intern()
    oracle, t_req, t_obs, s_keys, s_obs = [], [], [], [], []
    exec_tab, steps, answers = [], [], []
    version = 0
    for step, w, c in zip(history, warm, cold):
        kind = step[0]
        if kind == 'query':
            if c is None or w is None or c['error'] or w['error']: continue        # a step that raises caches nothing
            _, qid, params, how = step
            vt = vt_i(sorted((k, tname(v)) for k, v in params.items()))
            vals = sorted((pidx(k), val_i([tname(v), v])) for k, v in params.items())
            fixed = sorted((pidx(k), val_i([tname(v), v])) for k, v in c['fixed'])
            tid = tid_i(c['translator_id'])
            if how in SIMPLE_HOWS:
                entry = (qid, vt, tuple(fixed), tid)
                if entry not in oracle: oracle.append(entry)
                t_req.append((qid, vt, vals))
                ev = w['translator_events']
                t_obs.append((tid_i(w['translator_id']), sorted((pidx(k), val_i([tname(v), v])) for k, v in w['fixed']),
                              EVENT.get(ev[0], 9) if len(ev) >= 1 else 9))
                # the driver pages the entity query (12) without order_by: page(1, 2) is then the same statement as [:2]
                s_keys.append(sk_i([qid, vt, fixed, OPTS['limit2' if (qid == 12 and how == 'page') else how]]))
                sev = w['sql_events']
                s_obs.append(sev == ['Hit'] if sev in (['Hit'], ['Miss']) else None)
            q = q_i([qid, vt, fixed, how, c['args'][-1:]])          # the result-cache key: query + options + ARGUMENTS reaching the SQL
            exec_tab.append((version, q, r_i(c['rows'])))
            steps.append((1 if how == 'count' else 0, q))
            answers.append(r_i(w['rows']))
        else:
            code = {'set': 2, 'create': 2, 'delete': 2, 'flush': 3, 'commit': 4, 'new_session': 4, 'bulk_delete': 5, 'raw': 6}[kind]
            steps.append((code, 0)); answers.append(None)
            if code in (2, 5, 6): version += 1
    if not steps: return None
    bools = []
    if t_req:
        o = '[%s]' % '; '.join('(%s, %s, %s, %s)' % (cnat(c), cnat(vt), cfixed(f), cz(a)) for c, vt, f, a in oracle)
        h = '[%s]' % '; '.join('(%s, %s, %s)' % (cnat(c), cnat(vt), cfixed(v)) for c, vt, v in t_req)
        obs = '[%s]' % '; '.join('(%s, %s, %s)' % (cz(a), cfixed(f), cz(e)) for a, f, e in t_obs)
        bools.append(('translator cache events and results', 'tres_eqb (run_translator %s %s) %s' % (o, h, obs)))
        if all(x is not None for x in s_obs):
            bools.append(('SQL cache hits', 'bools_eqb (sql_hits [] %s) %s' % ('[%s]' % '; '.join(cz(k) for k in s_keys),
                                                                                 '[%s]' % '; '.join('true' if x else 'false' for x in s_obs))))
        else:
            bools.append(('SQL cache hits (an execution did not do exactly one lookup)', 'false'))
    tab = '[%s]' % '; '.join('(%s, %s, %s)' % (cnat(v), cz(q), cz(r)) for v, q, r in dedup(exec_tab))
    hs = '[%s]' % '; '.join('(%s, %s)' % (cz(k), cz(q)) for k, q in steps)
    ans = '[%s]' % '; '.join('None' if a is None else '(Some %s)' % cz(a) for a in answers)
    bools.append(('session result cache answers', 'oz_eqb (run_session %s %s) %s' % (tab, hs, ans)))
    return bools


def dedup(l):
    out = []
    for x in l:
        if x not in out: out.append(x)
    return out


def run_pair(history):
    warm = H5.run_history(history, True, instrument=True)
    cold = H5.run_history(history, False, instrument=True)
    return warm, cold


def correspondence(ctx):
    z = sizes(ctx)
    exprs, meta, dis = [], [], []
    dist = {'histories': 0, 'query_steps': 0, 'translator_events': {}, 'sql_events': {}, 'steps_by_kind': {}}
    nontriv = set()
    samples = []
    for n in range(z['corr_histories']):
        h = H5.gen_history(ctx.rng, z['steps'])
        try:
            warm, cold = run_pair(h)
        except Exception as ex:
            dis.append({'what': 'history driver raised %s: %s' % (type(ex).__name__, ex), 'input': h}); continue
        dist['histories'] += 1
        for step, w in zip(h, warm):
            dist['steps_by_kind'][step[0]] = dist['steps_by_kind'].get(step[0], 0) + 1
            if w is None or step[0] != 'query': continue
            dist['query_steps'] += 1
            for e in w.get('translator_events', []): dist['translator_events'][e] = dist['translator_events'].get(e, 0) + 1
            for e in w.get('sql_events', []): dist['sql_events'][e] = dist['sql_events'].get(e, 0) + 1
            if any(e in ('Hit', 'Replaced') for e in w.get('translator_events', []) + w.get('sql_events', [])):
                nontriv.add(H5.qkey(step))
        if any(c and c.get('error') and c.get('sql') for c in cold):
            dist['histories_skipped_cold_run_raised_at_execution'] = dist.get('histories_skipped_cold_run_raised_at_execution', 0) + 1
            continue            # e.g. UnrepeatableReadError after a raw write: the session is rolled back, no oracle for the rest
        enc = encode(h, warm, cold)
        if not enc: continue
        for what, b in enc:
            exprs.append(b); meta.append({'what': what, 'history': h})
        if len(samples) < 2: samples.append({'history': h, 'warm_last': [w for w in warm if w][-1] if any(warm) else None})
    bad = H.run_bools(ctx, exprs, chunk=150, name='c05', header=HEADER) if exprs else []
    for i in bad[:10]:
        dis.append({'what': 'model and implementation differ: %s' % meta[i]['what'], 'input': meta[i]['history'], 'coq_case': exprs[i][:1500]})
    return Corr(cases=len(exprs), nontrivial=len(nontriv), disagreements=dis, samples=samples, distribution=dist,
                note='per history three Coq booleans (vm_compute): translator-cache events/results, SQL-cache hits, session answers - the model is fed the cold-run results')


# ------------------------------------------------------------------------------------------------ search

def divergences(history):
    warm, cold = H5.run_history(history, True), H5.run_history(history, False, instrument=True)
    return H5.compare(history, warm, cold), warm, cold


def fails_with(cand, key):
    bad, w, c = divergences(cand)
    return any(H5.classify(cand, j, c) == key for j, _ in bad)


def make_failure(history, i, what, warm, cold):
    key = H5.classify(history, i, cold)
    step = history[i]
    msg = 'history of %d steps, step %d %s: warm caches give %s, cold caches give %s (%s differ)' % (
        len(history), i, json.dumps(step), json.dumps(warm[i]['rows'] if warm[i] else None)[:200], json.dumps(cold[i]['rows'] if cold[i] else None)[:200], what)
    return Failure(key, msg, {'history': history})


def search(ctx, deep):
    z = sizes(ctx, deep)
    failures, seen = [], {}
    evals, nontriv = 0, set()
    dist = {'histories': 0, 'query_steps': 0, 'diverging_steps_by_key': seen}
    hs = corpus_histories()
    hs += [H5.gen_history(ctx.rng, z['steps'], helpers=True) for _ in range(z['search_histories'])]
    for h in hs:
        try:
            bad, warm, cold = divergences(h)
        except Exception as ex:
            failures.append(Failure('unlisted:driver-raised', 'history driver raised %s: %s' % (type(ex).__name__, ex), {'history': h})); continue
        dist['histories'] += 1
        for step, w in zip(h, warm):
            if step[0] == 'query' and w is not None:
                evals += 1; dist['query_steps'] += 1; nontriv.add(H5.qkey(step))
        for i, what in bad[:1]:
            key = H5.classify(h, i, cold)
            seen[key] = seen.get(key, 0) + 1
            if seen[key] <= 1:
                small = H5.shrink_history(h[:i + 1], lambda cand: fails_with(cand, key))
                b2, w2, c2 = divergences(small)
                j = [j for j, _ in b2 if H5.classify(small, j, c2) == key]
                failures.append(make_failure(small, j[0], dict(b2)[j[0]], w2, c2) if j else make_failure(h, i, what, warm, cold))
    return Search(evaluations=evals, failures=failures, nontrivial=len(nontriv), distribution=dist, exhaustive=False,
                  samples=[{'history': hs[-1]}])


def corpus_histories():
    import os
    out = []
    d = os.path.join(vlib.VERIF, 'corpus', 'C05')
    if os.path.isdir(d):
        for f in sorted(os.listdir(d)):
            if f.endswith('.json'): out.append(json.load(open(os.path.join(d, f)))['history'])
    return out


def replay(ctx, data):
    h = data['history']
    bad, warm, cold = divergences(h)
    if not bad: return None
    i, what = bad[0]
    return make_failure(h, i, what, warm, cold)


LEVEL_TEXT = ('Machine-checked proof (Coq 8.16.1, induction over request histories of any length) that the caches on the path of a declarative query are transparent: a memo '
              'table whose key determines the computed value (string2ast / extractors / decompiler / SQL caches), the translator cache with its comparison of pinned '
              'parameter values (under the read-set hypothesis about the translator), soundness of the SQL cache key as coded, and the per-session result cache with its '
              'invalidation points - on the explicit complement of one recorded hole refuted by a witness (raw SQL writes do not clear query_results; the second hole found '
              'with this model, Query._aggregate reading query_results before the session is flushed, was repaired in repo commit 2af0689 and is listed as fixed). The model reproduces, on every run, the cache events and answers observed on real Pony / SQLite; a '
              'warm-vs-cold differential search over random histories looks for any other divergence.')
LEVEL_NOTE = ('Partial: the read-set hypothesis quantifies over the whole translator and is validated (differentially), not proved; adapt_sql\'s cache is C30; thread '
              'interleavings are C22; lambdas / generator objects go through the decompiler cache, covered by the generic theorem only.')
TECHNIQUE = 'Coq proofs over memo-table models of the three cache shapes; vm_compute correspondence of cache events and answers against instrumented real runs; warm-vs-cold differential search with history shrinking'
DESIGN_REF = 'DESIGN.md section 5, C05'
