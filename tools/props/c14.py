"""C14 - Primary and unique keys are never silently duplicated."""
import session_check as chk
import session_flags

ID = 'C14'
LEVEL = 'proof'
PROPS = ['Props/C14.v']
GEN = [('Gen/SessionFlags.v', session_flags.generate)]     # Tie A: which shape three repaired / repairable pieces of core.py have (read from /repo on every run)
TRUSTED = [
    'hand-written model coq/Model/Session*.v of pony/orm/core.py (SessionCache indexes / objects_to_save, Attribute.__set__/db_set, '
    'Set/SetInstance, Entity.__init__/_delete_/set/_db_set_/_save_*, EntityMeta._find_in_cache_/_fetch_objects), Stage 1 schema space',
    'history fuzzer tools/session_fuzz.py / session_impl.py / session_coq.py / session_check.py: generator, handle table, canonical results, '
    'row dumps through a separate sqlite3 connection',
    'reference semantics of the SQLite tables Pony creates (coq/Model/SessionDb.v: PRIMARY KEY, UNIQUE, NOT NULL, REFERENCES with '
    'ON DELETE CASCADE / SET NULL, AUTOINCREMENT), validated by the row dumps and error classes of every run',
    'optimistic checks / rbits, query result cache, multiple concurrent sessions are not modelled (single writer)',
]
ASSUMPTIONS = [
    'Stage 1 schemas (wf_schema): single integer primary key, int/str attributes, unique scalars, many-to-one / one-to-many with Pony\'s default cascade_delete; '
    'one-to-one and many-to-many relationships and composite keys (Stage 2) are covered by the implementation-side oracles only (half of the search histories use them; the Coq model and the '
    'correspondence do not); composite primary keys and inheritance are not generated',
    'the theorems about the committed database are unconditional (they also cover histories that reached a dirty site of the model); only '
    'C14_duplicate_creation_reported_except_known needs a clean history (s_dirty = 0), because it rests on the C11 index invariant',
    'the database model enforces PRIMARY KEY / UNIQUE as SQLite does; that the tables Pony creates carry these constraints is checked on every history '
    '(oracle c14-ddl-missing-constraint) and the resulting rows are compared with the model after every commit',
    'steps the model declines (a deleted object used as a reference value, Entity.set mixing reference and collection arguments, insertion order that depends on '
    'Python set iteration) end the comparison of that history',
]
RULE = ('seeded generator of (schema, op list): 1-3 entities, 1-3 scalar attributes each, 1-3 relationships (search: also many-to-many, one-to-one, composite_key), 10-40 ops, ~85 % valid ops; '
        'non-trivial = at least three successful mutating ops; distinct = distinct canonical (schema, ops)')


def correspondence(ctx): return chk.correspondence(ctx, ID)


def _census(cases=None):
    """tools/c14_ddl.py: every declared key (unique attribute, composite_key, composite primary key, keys of a subclass, many-to-many
    link table) has a PRIMARY KEY / UNIQUE constraint in the schema SQLite holds, and a duplicate committed by a second session is refused."""
    import vlib
    out = vlib.run_impl('c14_ddl.py', {'cases': cases}, timeout=600)['results']
    return [vlib.Failure('c14-declared-key-not-enforced:' + r['case'], 'declared key not enforced (%s): %s' % (r['case'], r['detail'][:600]),
                         {'census_case': r['case']}) for r in out if not r['ok']], len(out)


def search(ctx, deep):
    s = chk.search(ctx, deep, ID)
    fails, n = _census()
    s.failures = fails + list(s.failures)
    s.evaluations += n
    s.distribution['declared_key_census_cases'] = n
    return s


def replay(ctx, data):
    if 'census_case' in data:
        fails, _ = _census([data['census_case']])
        return fails[0] if fails else None
    return chk.replay(ctx, data, ID)


LEVEL_TEXT = ('Machine-checked proof (Coq 8.16.1) over the executable session model, Stage 1 schema space (single integer primary key, explicit or '
              'AUTOINCREMENT; unique int/str attributes, optional ones with None): for every schema and EVERY operation history the committed database '
              'satisfies db_ok (no two rows of a table share a primary key or a non-NULL value of a unique column) - unconditionally, also after the known '
              'cache-corrupting defects of C11/C12; every operation from every state keeps db_ok of the transaction and of the committed database '
              '(inductive step); a failing commit leaves the committed database unchanged and restarts the session from it; nothing but commit / leaving '
              'the db_session changes the committed database; and, for clean histories, creating an object under the primary key of a live object of '
              'the session never succeeds (reported when the change is made). The frame argument (only _save_created_/_save_updated_/_save_deleted_ write '
              'the database) is checked function by function over the whole model. Composite keys and composite unique keys are outside the model. '
              'Tie: as for C11, plus in-session / committed duplicate oracles on the implementation and a declared-key census (tools/c14_ddl.py): for unique attributes, composite keys, composite primary keys '
              '(also containing a relationship), keys declared on a subclass and many-to-many link tables the schema SQLite holds must carry the constraint and a duplicate committed by a second session must be refused.')
LEVEL_NOTE = ('Trusted: Coq kernel + vm_compute; the hand-written model (tied by differential runs only); the fuzzer harness; the SQLite reference semantics - '
              'in particular the theorem about committed rows is as strong as the model of SQLite constraint enforcement, which the per-commit row dumps and the '
              'error class of every failing flush validate. No duplicate ever reached the database; one known finding concerns the session only (a creation that succeeds with two live objects holding one unique value - refused later by the flush); the phantom of a failed creation was repaired in /repo by 751c8a4 and is recorded as fixed. The defect "auto-generated id collides with a cached object" leaves an orphan row '
              'but no duplicate key; it is recorded under C09.')
TECHNIQUE = 'Coq inductive invariant over an executable session + database model (all histories, fold_left) with a generic frame traversal; vm_compute correspondence with real Pony+SQLite on generated histories; property-oracle search with ddmin shrinking'
DESIGN_REF = 'DESIGN.md section 5, C14 and Appendix A'
