"""C18 - A db_session commits exactly when its body succeeds."""
import itertools, json, os
from concurrent.futures import ThreadPoolExecutor
import vlib
from vlib import Corr, Search, Failure
from py2coq import c18web

ID = 'C18'
LEVEL = 'proof'
PROPS = ['Props/C18.v']       # no known finding left: Findings/C18.v was dropped with the Flask repair (8693e81)
GEN = [('Gen/C18Web.v', c18web.generate)]
TRUSTED = [
    'hand-written model Model/C18Session.v of DBSessionContextManager (_enter, __exit__, _commit_or_rollback, _wrap_function retry loop, generator wrapper) '
    'and of core.commit()/rollback() abstracted to pending/committed marker lists; tied by exhaustive small-scope correspondence (vm_compute) with the real '
    'db_session on a file-backed SQLite database: full trace of commit()/rollback() calls, committed rows, propagated exception, counter afterwards',
    'py2coq recogniser tools/py2coq/c18web.py: reads _exit_session (does __exit__ get exc_type?), is_allowed_exception (isinstance formula), PonyPlugin.apply '
    'and the decision skeleton of _commit_or_rollback from /repo on every run (Gen/C18Web.v); fail-closed on any other shape',
    'stub flask / bottle modules of the harness (tools/c18_driver.py): before_request, view, teardown_request(exc) in that order; HTTPError a subclass of HTTPResponse',
    'the harness observes commit/rollback by wrapping the module-level functions pony.orm.core.commit / rollback from outside; SQLite commit is atomic',
    'hand-written one-attempt fault model Model/C18Faults.v (predicates that raise, rollback() that raises), tied by 144 real cases; the rollback failure is injected at the '
    'boundary of core.rollback (after the session cache is gone), not inside the DB-API driver',
]
ASSUMPTIONS = [
    'main model (streams, nesting, generators): the predicates allowed_exceptions / retry_exceptions answer and core.rollback() works; predicates that raise and a failing '
    'rollback() are covered by the one-attempt fault model Model/C18Faults.v (theorems C18_faults_*), rollback failure injected at the boundary of core.rollback',
    'a body is: write marker rows, then finish or raise; it does not call commit()/rollback()/flush() itself (generators may call commit())',
    'commit() fails only because flushing a poisoned write raises; the failure happens before any row reaches the database',
    'the nested ddl / nested-serializable refusals of _enter are outside the model; immediate / strict / serializable / optimistic / ddl / sql_debug / show_values are varied in the '
    'correspondence run and shown not to influence the observations',
]
RULE = ('every implementation run is judged twice - by the Coq model (correspondence) and by the statement-level oracle (search): `evaluations` counts both judgements, `distinct_nontrivial` counts each distinct run once. ' 'exhaustive: decorator sessions with retry 0..3 x every stream of body outcomes of length retry+1 over {finish, raise one of 9 exception kinds '
        '(plain / allowed / retryable / both / should_retry / allowed+should_retry, and three kinds derived from BaseException only: plain / allowed / retryable; '
        'length-3 and length-4 streams use two sub-alphabets)} (x poisoned-write variants for the shorter streams) x list-or-callable '
        'predicates x option flags; nested programs (with / decorated call / try / sequence, depth <= 2 exhaustive, depth 3 sampled from the seed); generator '
        'step sequences up to 3 resumptions (writes, flush(), auto-flushing queries, manual commits; another read-only db_session of the same thread runs between resumptions); Flask and Bottle requests. non-trivial = the run retried, or a commit failed, or a session was nested, or an '
        'exception propagated; distinct = distinct case descriptions')

SESS_STREAM = {'allowed': [1, 3, 5, 7], 'retryable': [2, 3, 8]}
FLAGS = [{}, {'immediate': True}, {'strict': True}, {'serializable': True}, {'optimistic': False}, {'immediate': True, 'strict': True},
         {'sql_debug': False, 'show_values': False}]
FLAGS_NO_RETRY = FLAGS + [{'ddl': True}, {'ddl': True, 'strict': True}]      # ddl cannot be combined with retry
REPS = ['ll', 'cc', 'lc', 'cl']
OUTS = [-1, 0, 1, 2, 3, 4, 5, 6, 7, 8]     # 6, 7, 8: BaseException-only kinds (plain / allowed / retryable)
BASE_ONLY = (6, 7, 8)
SHOULD_RETRY = (4, 5)

# sessions used inside nested programs
W_SESS = [{'retry': 0, 'allowed': [], 'retryable': []}, {'retry': 0, 'allowed': [1, 7], 'retryable': []}]
C_SESS = [{'retry': 0, 'allowed': [], 'retryable': []}, {'retry': 0, 'allowed': [1, 7], 'retryable': []}, {'retry': 1, 'allowed': [], 'retryable': [2]}]
LEAVES = [(0, -1), (0, 0), (0, 1), (0, 2), (1, -1), (0, 6), (0, 7)]


# ------------------------------------------------------------------------------------------------ case spaces

def stream_cases(ctx, deep=False):
    k = 0
    maxr = 4 if (deep and ctx.thorough) else 3
    for r in range(0, maxr + 1):
        if r <= 1 or (ctx.thorough and r <= 2): alphabets = [OUTS]
        elif r == 2: alphabets = [[-1, 0, 1, 2, 3, 4, 5], [-1, 2, 6, 7, 8]]
        elif r == 3 and ctx.thorough: alphabets = [[-1, 0, 1, 2, 3, 4, 5], [-1, 2, 6, 7, 8]]
        elif r == 3: alphabets = [[-1, 0, 1, 2, 3, 4], [-1, 2, 6, 7, 8]]      # quick: length-4 streams over 6 outcomes + the BaseException-only kinds
        else: alphabets = [[-1, 0, 1, 2, 3], [-1, 2, 6, 8]]
        seen_streams = set()
        for outs in itertools.chain(*[itertools.product(a, repeat=r + 1) for a in alphabets]):
            if outs in seen_streams: continue
            seen_streams.add(outs)
            reps = REPS if r <= 1 or ctx.thorough else [REPS[k % 4]]
            for rep in reps:
                k += 1
                fl = FLAGS_NO_RETRY if r == 0 else FLAGS
                yield {'kind': 'stream', 'sess': dict(SESS_STREAM, retry=r, rep=rep, flags=fl[k % len(fl)]),
                       'stream': [[0, o] for o in outs], 'cfail': 0}
    # poisoned writes: the flush inside commit() raises kind cfail
    pr = 2 if not ctx.thorough else 3
    for r in range(0, pr + 1):
        alphabet = [(p, o) for p in (0, 1) for o in (OUTS if r <= 1 else (([-1, 0, 2, 3, 6] if not ctx.thorough else [-1, 0, 1, 2, 3, 6]) if r == 2 else [-1, 0, 1, 2, 3]))]
        for outs in itertools.product(alphabet, repeat=r + 1):
            if not any(p for p, o in outs): continue
            for cf in (([0, 1, 2, 3] if ctx.thorough else [0, 2, 3]) if r <= 1 else ([0, 2] if r == 2 else [2])):
                k += 1
                yield {'kind': 'stream', 'sess': dict(SESS_STREAM, retry=r, rep=REPS[k % 4], flags=FLAGS[k % len(FLAGS)]),
                       'stream': [list(x) for x in outs], 'cfail': cf}


def number_leaves(p, counter):
    t = p[0]
    if t == 'leaf':
        counter[0] += 1
        return ['leaf', counter[0], p[2], p[3]]
    if t == 'seq': return ['seq', number_leaves(p[1], counter), number_leaves(p[2], counter)]
    if t == 'try': return ['try', number_leaves(p[1], counter)]
    return [t, p[1], number_leaves(p[2], counter)]


def inner_progs(d):
    """all programs of nesting depth <= d (leaves unnumbered)"""
    if d == 0:
        return [['leaf', 0, p, o] for p, o in LEAVES]
    prev = inner_progs(d - 1)
    out = list(prev)
    small = inner_progs(0) if d >= 2 else prev
    for p in prev:
        out.append(['try', p])
        for s in W_SESS: out.append(['with', s, p])
        for s in C_SESS: out.append(['call', s, p])
    for p in prev:
        for q in small:
            out.append(['seq', p, q])
            if d >= 2 and p[0] != 'leaf': out.append(['seq', q, p])
    return out


def prog_cases(ctx, deep=False):
    """top-level programs: every leaf is inside a session"""
    seen = set()
    def emit(p, cf=0):
        q = number_leaves(p, [0])
        key = json.dumps(q)
        if key in seen: return None
        seen.add(key)
        return {'kind': 'prog', 'prog': q, 'cfail': cf}
    d1 = inner_progs(1)
    tops = []
    for p in d1:
        for s in W_SESS: tops.append(['with', s, p])
        for s in C_SESS: tops.append(['call', s, p])
    for t in tops:
        c = emit(t)
        if c: yield c
    # sequences / try at top level (two sessions after one another; first one's exception swallowed)
    basic = [t for t in tops if t[2][0] == 'leaf']
    for a in basic:
        for b in basic:
            c = emit(['seq', ['try', a], b], 2)
            if c: yield c
    # depth 3: sampled (all of them in a deep search)
    d2 = inner_progs(2)
    n = len(d2) if (deep and ctx.thorough) else ctx.scale(400, 4000)
    rng = ctx.rng
    for _ in range(n):
        p = d2[rng.randrange(len(d2))]
        kind = rng.randrange(2)
        s = (W_SESS if kind == 0 else C_SESS)[rng.randrange(2 if kind == 0 else 3)]
        c = emit(['with' if kind == 0 else 'call', s, p], rng.choice([0, 2]))
        if c: yield c


GOPS = [[], [['w', 0, 0]], [['w', 0, 0], ['c']], [['w', 0, 0], ['c'], ['w', 0, 0]], [['w', 0, 1]], [['w', 0, 1], ['c']], [['c']],
        # flushed but not committed: explicit flush() / a query's auto-flush leave cache.modified False and cache.in_transaction True
        [['w', 0, 0], ['f']], [['w', 0, 0], ['q']], [['w', 0, 0], ['f'], ['c']], [['w', 0, 0], ['f'], ['w', 0, 0]], [['w', 0, 0], ['q'], ['w', 0, 0], ['c']],
        [['w', 0, 1], ['f']], [['f']]]
GOPS_CLEAN = [[], [['w', 0, 0], ['c']], [['w', 0, 0], ['f'], ['c']], [['w', 0, 0], ['q'], ['c']]]     # code after which a correct session may suspend
GENDS = ['yield', 'stop', ['raise', 0], ['raise', 1], ['raise', 6]]


def gen_cases(ctx, deep=False):
    def number(steps):
        n = [0]; out = []
        for ops, end in steps:
            o2 = []
            for op in ops:
                if op[0] == 'w':
                    n[0] += 1; o2.append(['w', n[0], op[2]])
                else: o2.append([op[0]])
            out.append([o2, end])
        return out
    sess = {'retry': 0, 'allowed': [1], 'retryable': [], 'rep': 'll'}
    k = 0
    for ln in (1, 2, 3):
        # one and two resumptions: every stretch of code before the first yield (also those a correct session refuses to suspend
        # after - a broken one would go on); three resumptions: the first two stretches end clean
        prefixes = [()] if ln == 1 else ([(p,) for p in GOPS] if ln == 2 else list(itertools.product(GOPS_CLEAN, repeat=2)))
        for prefix in prefixes:
            for last_ops in GOPS:
                for end in GENDS:
                    if ln == 3 and end not in ('yield', 'stop') and not ctx.thorough: continue
                    steps = [[ops, 'yield'] for ops in prefix] + [[last_ops, end]]
                    k += 1
                    # between two resumptions the same thread runs another read-only db_session (every case with more than one resumption)
                    yield {'kind': 'gen', 'sess': sess, 'steps': number(steps), 'cfail': 3, 'interleave': ln > 1, 'coro': k % 2 == 0}


def web_cases(ctx):
    for p in (0, 1):
        for o in (-1, 0, 1, 6):
            yield {'kind': 'flask', 'view': [p, o], 'cfail': 0}
        for o in (-1, 0, 1, 2, 3, 4):      # bottle kinds: other Exception, HTTPResponse, HTTPError, TransactionError, a BaseException-only class
            yield {'kind': 'bottle', 'view': [p, o], 'cfail': 0}


def fault_cases(ctx):
    """faults of the machinery: predicates (callables) that raise, core.rollback() that raises; one attempt (retry = 0)"""
    B = ['yes', 'no', ['raise', 0]]
    for p in (0, 1):
        for o in (-1, 1, 6):
            for rb in (False, True):
                for a in B:
                    yield {'kind': 'fault', 'form': 'with', 'allowed': a, 'retryable': 'no', 'rb_fail': rb, 'leaf': [p, o], 'cfail': 2}
                    for r in ('yes', 'no', ['raise', 3]):
                        yield {'kind': 'fault', 'form': 'decor', 'allowed': a, 'retryable': r, 'rb_fail': rb, 'leaf': [p, o], 'cfail': 2}


def all_cases(ctx, deep=False):
    cases = list(web_cases(ctx)) + list(fault_cases(ctx)) + list(stream_cases(ctx, deep)) + list(prog_cases(ctx, deep)) + list(gen_cases(ctx, deep))
    return cases


# ------------------------------------------------------------------------------------------------ implementation side

def run_cases(ctx, cases, procs=4):
    d = ctx.mkscratch()
    chunks = [cases[i::procs] for i in range(procs)]
    def one(ch):
        if not ch: return {'results': [], 'info': {}}
        return vlib.run_impl('c18_driver.py', {'dbdir': d, 'cases': ch}, timeout=1500)
    with ThreadPoolExecutor(max_workers=procs) as ex:
        outs = list(ex.map(one, chunks))
    res = [None] * len(cases)
    for i, o in enumerate(outs):
        for j, r in enumerate(o['results']): res[i + j * procs] = r
    info = {}
    for o in outs: info.update(o.get('info') or {})
    return res, info


_cache = {}
_counted = set()      # result sets whose non-trivial cases were already counted by correspondence()

def get_results(ctx, deep=False):
    key = (ctx.seed, ctx.tier, deep)
    if key not in _cache:
        cases = all_cases(ctx, deep)
        res, info = run_cases(ctx, cases)
        _cache[key] = (cases, res, info)
    return _cache[key]


# ------------------------------------------------------------------------------------------------ Coq serialisation

def c_list(xs): return '[' + '; '.join(xs) + ']'
def c_out(o): return 'Ok' if o < 0 else '(Raise %d)' % o
def c_bool(b): return 'true' if b else 'false'
def c_sess(s): return '(S_ %d %s %s)' % (s['retry'], c_list(map(str, s['allowed'])), c_list(map(str, s['retryable'])))

def c_prog(p):
    t = p[0]
    if t == 'leaf': return '(Lf %d %s %s)' % (p[1], c_bool(p[2]), c_out(p[3]))
    if t == 'seq': return '(Sq %s %s)' % (c_prog(p[1]), c_prog(p[2]))
    if t == 'try': return '(Tr %s)' % c_prog(p[1])
    if t == 'with': return '(Wi %s %s)' % (c_sess(p[1]), c_prog(p[2]))
    if t == 'call': return '(Ca %s %s)' % (c_sess(p[1]), c_prog(p[2]))
    raise ValueError(t)

def c_event(e):
    if e[0] == 'run': return 'ERun %d %d %d' % (e[1], e[2], e[3])
    return {'commit': 'ECommit', 'commitfail': 'ECommitFail', 'rollback': 'ERollback'}[e[0]] + ' %d' % e[1]

def c_obs(ob):
    e = ob['exc']
    return '(%s, %s, %s, %d, %d)' % (c_list(map(c_event, ob['trace'])), c_list(map(str, ob['rows'])),
                                       'None' if e == -1 else '(Some %d)' % e, ob['depth_after'], ob['pending_after'])

def c_gstep(st):
    ops, end = st
    o = c_list(['GWrite %d %s' % (op[1], c_bool(op[2])) if op[0] == 'w' else ('GFlush' if op[0] in ('f', 'q') else 'GCommit') for op in ops])
    e = {'yield': 'GYield', 'stop': 'GStop'}.get(end) if isinstance(end, str) else 'GRaise %d' % end[1]
    return '(%s, %s)' % (o, e)

def coq_case(case, ob):
    """Coq bool: model observation == implementation observation"""
    k = case['kind']; cf = case.get('cfail', 0)
    if k == 'stream':
        return 'obs_eqb (run_stream %d %s %s) %s' % (cf, c_sess(case['sess']),
                                                      c_list('(%s, %s)' % (c_bool(p), c_out(o)) for p, o in case['stream']), c_obs(ob))
    if k == 'prog':
        return 'obs_eqb (run_prog %d %s) %s' % (cf, c_prog(case['prog']), c_obs(ob))
    if k == 'gen':
        return 'gobs_eqb (run_gen %d %s) (%s, %s)' % (cf, c_list(map(c_gstep, case['steps'])), c_obs(ob), c_bool(ob.get('finished')))
    if k == 'fault':
        pr = lambda b: {'yes': 'PYes', 'no': 'PNo'}.get(b) if isinstance(b, str) else '(PRaises %d)' % b[1]
        p, o = case['leaf']
        if case['form'] == 'decor':
            return 'obs_eqb (run_fault_decor %d %s %s %s %s %s) %s' % (cf, pr(case['allowed']), pr(case['retryable']), c_bool(not case['rb_fail']), c_bool(p), c_out(o), c_obs(ob))
        return 'obs_eqb (run_fault_with %d %s %s %s %s) %s' % (cf, pr(case['allowed']), c_bool(not case['rb_fail']), c_bool(p), c_out(o), c_obs(ob))
    if k == 'flask':
        p, o = case['view']
        return 'obs_eqb (run_flask %d flask_passes_exc_type %s %s) %s' % (cf, c_bool(p), c_out(o), c_obs(ob))
    if k == 'bottle':
        p, o = case['view']
        return ('obs_eqb (run_bottle %d (bottle_is_allowed (fun e => in_set [1; 2] e) (fun e => in_set [2] e)) %s %s) %s'
                % (cf, c_bool(p), c_out(o), c_obs(ob)))
    raise ValueError(k)

HEADER = ('From Coq Require Import List Bool Arith.\nImport ListNotations.\n'
          'Require Import PonyV.Model.C18Session PonyV.Model.C18Faults PonyV.Model.C18Obs PonyV.Gen.C18Web.\n')


def run_bools(ctx, exprs, chunk=700):
    chunks = []
    for i in range(0, len(exprs), chunk):
        part = exprs[i:i + chunk]
        chunks.append('Definition cases : list bool := [\n' + ';\n'.join(part) + '].\nEval vm_compute in (failing cases).\n')
    outs = vlib.coq_eval_many(ctx, HEADER, chunks, name='c18cases')
    bad = []
    for k, out in enumerate(outs):
        vals = vlib.parse_eval_outputs(out)
        assert len(vals) == 1, out[-500:]
        inner = vals[0].strip().strip('[]').strip()
        if inner:
            for tok in inner.split(';'):
                bad.append(k * chunk + int(tok.strip().replace('%nat', '')))
    return bad


def nontrivial_case(case, ob):
    runs = [e for e in ob['trace'] if e[0] == 'run']
    return (len(runs) >= 2 or any(e[0] == 'commitfail' for e in ob['trace']) or any(e[0] == 'run' and e[3] >= 2 for e in ob['trace'])
            or ob['exc'] != -1)


# ------------------------------------------------------------------------------------------------ correspondence

def correspondence(ctx):
    cases, res, info = get_results(ctx, False)
    _counted.add((ctx.seed, ctx.tier, False))
    exprs, meta, disagreements = [], [], []
    dist = {}
    nontriv = set()
    samples = []
    for case, ob in zip(cases, res):
        dist[case['kind']] = dist.get(case['kind'], 0) + 1
        if not isinstance(ob['exc'], int):
            disagreements.append({'what': 'implementation raised an exception outside the modelled kinds', 'input': case, 'impl': ob})
            continue
        if ob['session_after']:
            disagreements.append({'what': 'local.db_session is still set after the outermost session ended', 'input': case, 'impl': ob})
            continue
        exprs.append(coq_case(case, ob)); meta.append((case, ob))
        if nontrivial_case(case, ob): nontriv.add(json.dumps(case, sort_keys=True))
    # `with db_session(retry=n)` is refused (the context-manager theorems assume retry = 0)
    r, _ = run_cases(ctx, [{'kind': 'with_retry', 'retry': 1}, {'kind': 'with_retry', 'retry': 3}], procs=1)
    for x in r:
        dist['with_retry'] = dist.get('with_retry', 0) + 1
        if x['result'] != 'TypeError':
            disagreements.append({'what': '`with db_session(retry=n)` is no longer refused', 'input': 'with db_session(retry=1)', 'impl': x})
    bad = run_bools(ctx, exprs)
    for i in bad[:20]:
        case, ob = meta[i]
        disagreements.append({'what': 'model and implementation differ (%s)' % case['kind'], 'input': case, 'impl': ob, 'coq_case': exprs[i][:1500]})
    for kind in ('stream', 'prog', 'gen', 'fault', 'flask', 'bottle'):
        for (case, ob), e in zip(meta, exprs):
            if case['kind'] == kind and nontrivial_case(case, ob):
                samples.append({'case': case, 'observed': ob, 'coq_case': e}); break
    dist['implementation'] = info
    return Corr(cases=len(exprs) + len(r), nontrivial=len(nontriv), disagreements=disagreements, samples=samples, distribution=dist,
                note='every case is a boolean computed by vm_compute inside Coq: model observation (trace of commit/rollback calls with pending counts, '
                     'committed markers, propagated exception, counter, pending writes) = observation of the real db_session')


# ------------------------------------------------------------------------------------------------ search: the statement itself as oracle

def effective(case_stream, i, cf):
    """(exception kind or -1) an attempt ends with, counting a failed commit of a finished body"""
    p, o = case_stream[i] if i < len(case_stream) else (0, -1)
    if o >= 0: return o, False
    return (cf, True) if p else (-1, False)


def oracle(case, ob):
    """Violations of the statement of C18 visible in one observation; list of (key, what)."""
    out = []
    k = case['kind']; cf = case.get('cfail', 0)
    tr = ob['trace']
    runs = [e for e in tr if e[0] == 'run']
    if ob['depth_after'] != 0 or ob['pending_after'] != 0 or ob['session_after']:
        out.append(('%s:session-state-left-behind' % k, 'after the outermost session ended: db_context_counter=%s pending=%s db_session set=%s'
                    % (ob['depth_after'], ob['pending_after'], ob['session_after'])))
    if k == 'stream':
        s = case['sess']; st = case['stream']
        allowed = lambda e: e in s['allowed']
        retryable = lambda e: e in s['retryable'] or e in SHOULD_RETRY
        n = len(runs)
        if n > s['retry'] + 1: out.append(('decorator:more-than-retry+1-executions', 'body executed %d times with retry=%d' % (n, s['retry'])))
        if n == 0: out.append(('decorator:body-not-executed', 'body never ran')); return out
        for j in range(1, n):
            e, _ = effective(st, j - 1, cf)
            if e < 0 or not retryable(e):
                out.append(('decorator:rerun-after-non-retryable-outcome', 'attempt %d ran although attempt %d ended with %s' % (j, j - 1, e)))
        for e in runs:
            if e[2] != 0:
                out.append(('decorator:attempt-starts-with-uncommitted-writes', 'attempt %d started with %d pending writes of an earlier attempt' % (e[1], e[2])))
        last = n - 1
        e, from_commit = effective(st, last, cf)
        if last >= len(st): st = list(st) + [[0, -1]] * (last + 1 - len(st))     # more executions than the stream describes: they finish normally
        poisoned = bool(st[last][0])
        if e >= 0 and retryable(e) and n < s['retry'] + 1:
            out.append(('decorator:no-rerun-after-retryable-exception', 'attempt %d ended with retryable %d but only %d of %d attempts ran' % (last, e, n, s['retry'] + 1)))
        may_commit = (not poisoned) and (st[last][1] < 0 or allowed(st[last][1]))
        bad_rows = [r for r in ob['rows'] if r != last]
        if bad_rows: out.append(('decorator:rows-of-an-abandoned-attempt-committed', 'rows %r of earlier attempts are in the database' % bad_rows))
        if ob['rows'] and not may_commit:
            out.append(('decorator:committed-after-non-allowed-exception', 'final attempt ended with %s (poisoned=%s) and its rows were committed' % (st[last][1], poisoned)))
        if st[last][1] < 0 and not poisoned and ob['rows'] != [last]:
            out.append(('decorator:not-committed-after-success', 'final attempt finished normally but rows are %r' % ob['rows']))
        if st[last][1] >= 0 and allowed(st[last][1]) and not retryable(st[last][1]) and not poisoned and ob['rows'] != [last]:
            out.append(('decorator:not-committed-after-allowed-exception', 'final attempt raised allowed %d but rows are %r' % (st[last][1], ob['rows'])))
        want_exc = e
        if poisoned and st[last][1] >= 0 and allowed(st[last][1]) and not retryable(st[last][1]):
            want_exc = cf       # the commit that the allowed exception triggers fails: its exception replaces the allowed one
        if ob['exc'] != want_exc:
            out.append(('decorator:wrong-exception-propagated', 'expected %s to propagate, got %s' % (want_exc, ob['exc'])))
    elif k == 'fault':
        p, o = case['leaf']
        ok_to_commit = (not p) and (o < 0 or case['allowed'] == 'yes')
        if ob['rows'] and not ok_to_commit:
            out.append(('faults:committed-although-body-failed-and-predicate-did-not-accept', 'rows %r committed; body %s, allowed-predicate %s' % (ob['rows'], o, case['allowed'])))
        if o < 0 and not p and (ob['rows'] != [0] or ob['exc'] != -1):
            out.append(('faults:successful-body-not-committed', 'rows %r exc %s' % (ob['rows'], ob['exc'])))
        if (o >= 0 or p) and ob['exc'] == -1:
            out.append(('faults:failure-turned-into-normal-return', 'body %s poisoned %s but the call returned normally' % (o, p)))
    elif k in ('flask', 'bottle'):
        p, o = case['view']
        if k == 'flask': allowed = lambda e: False
        else: allowed = lambda e: e == 1        # HTTPResponse that is not an HTTPError
        if o >= 0 and not allowed(o) and ob['rows']:
            out.append(('%s:failed-request-committed' % k, '%s request whose view raised kind %d was committed (rows %r)' % (k, o, ob['rows'])))
        if o < 0 and not p and ob['rows'] != [0]:
            out.append(('%s:successful-request-not-committed' % k, 'view finished normally but rows are %r' % ob['rows']))
        if o >= 0 and ob['exc'] != o and not p:
            out.append(('%s:exception-swallowed' % k, 'view raised %d, %s propagated' % (o, ob['exc'])))
    elif k == 'prog':
        # nested sessions: an effective commit (n > 0 pending) happens only at counter <= 1, i.e. never inside an inner session;
        # the committed rows are a union of whole top-level sessions
        want = spec_prog_rows(case['prog'], cf)
        if want is not None and ob['rows'] != want:
            out.append(('nested:committed-rows-differ-from-outermost-decision', 'rows %r, the outermost sessions decide %r' % (ob['rows'], want)))
    elif k == 'gen':
        want_rows, want_exc = spec_gen(case['steps'], cf)
        if ob['rows'] != want_rows:
            out.append(('generator:committed-rows', 'rows %r, expected %r (commit on StopIteration or manual commit only)' % (ob['rows'], want_rows)))
        if ob['exc'] != want_exc:
            out.append(('generator:wrong-exception', 'exception %s, expected %s' % (ob['exc'], want_exc)))
    return out


def spec_prog_rows(p, cf):
    """Statement-level reading of a nested program: an inner session/decorated call is transparent; a top-level session commits
    all writes made inside it iff its body finished or raised an allowed (and, for a decorated function, non-retried) exception.
    Returns the expected committed markers, or None when the program is outside this simple reading (retry at top level / poison)."""
    committed = []
    def body(q):
        """-> (writes, poisoned, exc) of q executed inside a live session"""
        t = q[0]
        if t == 'leaf': return [q[1]], bool(q[2]), q[3]
        if t == 'seq':
            w, po, e = body(q[1])
            if e >= 0: return w, po, e
            w2, po2, e2 = body(q[2])
            return w + w2, po or po2, e2
        if t == 'try':
            w, po, e = body(q[1]); return w, po, (e if e in BASE_ONLY else -1)
        return body(q[2])
    def top(q):
        t = q[0]
        if t == 'seq':
            e = top(q[1])
            if e is None: return None
            if e >= 0: return e
            return top(q[2])
        if t == 'try':
            e = top(q[1])
            return None if e is None else (e if e in BASE_ONLY else -1)
        if t in ('with', 'call'):
            s = q[1]
            w, po, e = body(q[2])
            if po: return None
            if t == 'call' and e >= 0 and (e in s['retryable'] or e in SHOULD_RETRY): return None if s['retry'] else e
            if e < 0 or e in s['allowed']: committed.extend(w)
            return e
        return None
    r = top(p)
    return None if r is None else committed


def spec_gen(steps, cf):
    """statement-level reading: a resumption that ends without an exception has committed all its writes; flushed writes count as
    unfinished work exactly like unflushed ones (they sit in an open transaction)"""
    rows, pending = [], []
    for ops, end in steps:
        for op in ops:
            if op[0] == 'w': pending.append((op[1], op[2]))
            elif op[0] in ('f', 'q'):
                if any(po for _, po in pending): return rows, cf          # the flush raises inside the generator
            else:
                if any(po for _, po in pending): return rows, cf
                rows += [m for m, _ in pending]; pending = []
        if end == 'yield':
            if pending: return rows, 100
            continue
        if end == 'stop':
            if any(po for _, po in pending): return rows, cf
            return rows + [m for m, _ in pending], -1
        return rows, end[1]
    return rows, -1


def failures_of(cases, res):
    fails, seen = [], {}
    for case, ob in zip(cases, res):
        if not isinstance(ob.get('exc'), int):
            key = '%s:unexpected-exception' % case['kind']
            if key not in seen:
                seen[key] = 1; fails.append(Failure(key, 'implementation raised %s on %s' % (ob.get('exc'), json.dumps(case)[:300]), {'case': case}))
            continue
        for key, what in oracle(case, ob):
            seen[key] = seen.get(key, 0) + 1
            if seen[key] == 1:
                fails.append(Failure(key, '%s; case %s' % (what, json.dumps(case)[:400]), {'case': case}))
    return fails, seen


def search(ctx, deep):
    cases, res, info = get_results(ctx, deep)
    fails, seen = failures_of(cases, res)
    nontriv = set(json.dumps(c, sort_keys=True) for c, o in zip(cases, res) if isinstance(o.get('exc'), int) and nontrivial_case(c, o))
    dist = {}
    for c in cases: dist[c['kind']] = dist.get(c['kind'], 0) + 1
    dist['failing_cases_by_key'] = seen
    if (ctx.seed, ctx.tier, deep) in _counted: nontriv = set()      # same executions as the correspondence run: count distinct cases once
    return Search(evaluations=len(cases), failures=fails, nontrivial=len(nontriv), distribution=dist, exhaustive=True,
                  samples=[{'case': cases[len(cases) // 2], 'observed': res[len(cases) // 2]}])


def replay(ctx, data):
    case = data['case']
    res, _ = run_cases(ctx, [case], procs=1)
    fails, _ = failures_of([case], res)
    want = data.get('key')
    for f in fails:
        if want is None or f.key == want: return f
    return None


LEVEL_TEXT = ('Machine-checked proof (Coq 8.16.1) over an executable model of DBSessionContextManager: for every stream of body outcomes, every retry '
              'count and every pair of allowed/retryable predicates a decorated function commits exactly the writes of its final attempt and exactly when that '
              'attempt finished or raised an allowed, non-retried exception, runs at most retry+1 times, re-runs only after retryable exceptions, starts every '
              'attempt without pending writes, and propagates the final exception; for every nested program (sessions, decorated calls, try/except, sequences) '
              'nothing is committed or rolled back inside a live session; generator sessions commit on StopIteration or manual commit only and never suspend '
              'with pending writes; the Bottle plugin is an instance; the Flask integration (whether __exit__ receives the exception type is re-read from the source) '
              'commits a request iff its view finished. The model is tied to /repo by exhaustive small-scope correspondence of full traces.')
LEVEL_NOTE = ('Also proved and tied: faults of the machinery itself (allowed/retry predicates that raise, a failing rollback()), BaseException-only exceptions, flushed-but-uncommitted generator state, '
              'async def coroutines, ddl / sql_debug options. Trusted: Coq kernel + vm_compute; the hand-written model (tied by correspondence, not by translation, except the Flask/Bottle facts and the decision '
              'skeleton of _commit_or_rollback which are re-read from source each run); harness stubs of flask/bottle. Not modelled: nested ddl / serializable refusals, '
              'bodies that call commit()/rollback() themselves (except generators).')
TECHNIQUE = 'Coq proof by induction over the retry loop / program structure / step list; vm_compute trace correspondence with the real db_session on SQLite; statement-level oracle search'
DESIGN_REF = 'DESIGN.md section 5, C18'
