"""C06 - Values reach the database unchanged: parameters, literals and identifiers."""
import json, re, sqlite3, itertools
import vlib
from vlib import Corr, Search, Failure, cz, clist, cstr
from py2coq import c06quote, c06pin, c06lit, codecs as c07codecs

ID = 'C06'
LEVEL = 'proof'
PROPS = ['Props/C06.v', 'Findings/C06.v']
GEN = [('Gen/C06Quote.v', c06quote.generate), ('Gen/C06Pin.v', c06pin.generate),
       ('Gen/C07Codec.v', c07codecs.generate),      # the C07 builder's generated codec file (datetime2timestamp, timedelta2str): regenerated here too so that this cone is self-contained
       ('Gen/C06Lit.v', c06lit.generate)]
TRUSTED = [
    'py2coq translator (tools/py2coq/core.py + c06quote.py): Value.quote_str, Value.__str__ (str, bytes paths), SQLiteValue/MySQLValue/PGValue.__str__, '
    'DBAPIProvider.quote_name, Param.__str__, the MOD symbol and StringMixin._like (constant and parameter branch per call site, ESCAPE character) are '
    're-translated from /repo on every run; every translated function is also compared with the real one on adversarial inputs (vm_compute)',
    'hand-written model Model/C06Params.v of SQLBuilder.__init__ numbering / make_param de-duplication / the five adapters, tied by correspondence with the real '
    'SQLBuilder on a DBAPIProvider (pool mock-up) for all five paramstyles on random expression trees with repeated paramkeys',
    'receiving side (Model/C06Lex.v), written from documentation: standard SQL quoted literal / delimited identifier lexer and LIKE ... ESCAPE matcher '
    '(both validated against the linked SQLite, exhaustively over small alphabets); X-hex blob literal; '
    'PEP 249 binding rules for the five paramstyles; Python %-formatting as performed by format/pyformat drivers (validated against CPython\'s % operator); '
    'MySQL default string-literal escapes (documentation model, not executed)',
    'the placeholder tokeniser of the harness (regular expressions over the real SQL text outside quoted sections) and the driver shim used by the '
    'end-to-end search to run format / pyformat / numeric statements on SQLite (sql % markers, :N -> ?N)',
    'literals other than str / bytes: translator c06lit.py (Value.__str__ and the three subclasses per kind of value, isinstance folded with the class hierarchy); '
    'reference models of str(int), repr of an integer-valued float, Decimal.__str__, date.isoformat (Model/C06Lit.v, compared with CPython through the real classes '
    'on every run); the C07 builder\'s models and lemmas for datetime2timestamp / timedelta2str / strptime / timestamp2datetime / str2timedelta (read-only reuse; '
    'Gen/C07Codec.v is regenerated here too); the readers of numeric / null / boolean / DATE / TIMESTAMP / INTERVAL literals written from documentation '
    '(SQLite forms executed on the linked SQLite)',
    'tokeniser model Model/C06Tok.v (token classes of a small SQL lexer) and the four statement skeletons: their texts are compared with the real SQLBuilder output and '
    'the tokeniser is run on the REAL text by vm_compute; statements outside the four skeletons are not covered by the tokeniser theorem',
    're-execution: translator c06pin.py (abstract execution of the cache-miss paths that write fixed_param_values) and the hand-written model of '
    'Query._get_translator\'s validity test (Model/C06Pin.v), exercised end to end by histories compared with cold-cache runs',
]
ASSUMPTIONS = [
    'strings are sequences of Unicode code points without U+0000 and without lone surrogates (sqlite3 refuses NUL in statement text)',
    'format / pyformat drivers apply Python %-formatting to the statement whenever an argument object is supplied; Pony supplies one (tuple or dict) '
    'for every statement built by SQLBuilder',
    'floats that are not integer-valued, Decimal in E-notation / negative zero, SQLite timedelta literals that are not whole days are outside the theorems (correspondence / search only)',
    'MySQL and PostgreSQL servers are not available: MySQL literal rules, the identifier-with-% finding, the LIKE default-escape finding and the DATE / TIMESTAMP / INTERVAL '
    'literal forms of PostgreSQL / MySQL / Oracle are judged under documentation models',
    'dates and datetimes have years 1..9999 (Python\'s range); timedeltas are normalised (0 <= seconds < 86400, 0 <= microseconds < 10^6), days unbounded; '
    'the sign of an inline integer counts as part of the statement skeleton (-5 is two tokens)',
]
RULE = ('adversarial strings built from atoms (quotes, doubled quotes, backslash, %, %%, _, !, placeholder look-alikes, $, non-ASCII, newline) alone, in pairs '
        'and in seeded random concatenations x five paramstyles x four provider classes; random expression trees with repeated paramkeys for the layout; '
        'exhaustive small alphabets for the lexer / LIKE / %-formatting validation; non-trivial = the input contains at least one character that the '
        'code under test treats specially, or a repeated paramkey; distinct = distinct canonical (kind, style/provider, input)')

STYLES = ['qmark', 'format', 'numeric', 'named', 'pyformat']
CSTYLE = {'qmark': 'Qmark', 'format': 'Format', 'numeric': 'Numeric', 'named': 'Named', 'pyformat': 'Pyformat'}
PROVIDERS = ['sqlite', 'postgres', 'mysql', 'oracle']
ATOMS = ["'", "''", '"', '`', '\\', '\\\\', '%', '%%', '_', '!', '!!', '%s', '%(p1)s', '?', ':1', ':p1', '$', '$x', 'a', 'B', ' ', '\n',
         'é', '√', '\U0001F600', '--', ';', '/*', '.', '%d', "\\'", '!%', '!_', ')', '(']
SPECIAL = {"'": 'quote', '"': 'dquote', '`': 'backtick', '\\': 'backslash', '%': 'percent', '_': 'underscore', '!': 'bang', '$': 'dollar',
           '?': 'qmark', ':': 'colon', '\n': 'newline'}

HEADER = ('Require Import PonyV.Base.PyBase PonyV.Model.C06Str PonyV.Model.C06Lex PonyV.Model.C06Params PonyV.Gen.C06Quote PonyV.Model.C06Stmt.\n'
          'Open Scope Z_scope.\n')


def classes(s):
    out = sorted({SPECIAL[c] for c in s if c in SPECIAL} | ({'nonascii'} if any(ord(c) > 127 for c in s) else set()))
    return '+'.join(out) or 'plain'


def strings(ctx, n_random):
    out = ['', 'abc']
    out += ATOMS
    k = 14 if ctx.thorough else 9          # pairs of the first k atoms (quotes, backslashes, %, _, !)
    out += [a + b for a in ATOMS[:k] for b in ATOMS[:k]]
    rng = ctx.rng
    for _ in range(n_random):
        out.append(''.join(rng.choice(ATOMS) for _ in range(rng.randint(2, 6))))
    seen, res = set(), []
    for s in out:
        if s not in seen: seen.add(s); res.append(s)
    return res


def run_bools(ctx, exprs, header=HEADER, chunk=1500, name='cases'):
    """exprs: Coq bool terms. Returns indexes whose value is not true."""
    chunks = []
    for i in range(0, len(exprs), chunk):
        part = exprs[i:i + chunk]
        chunks.append('Definition cases : list bool := [\n' + ';\n'.join(part) + '].\nEval vm_compute in (failing cases).\n')
    ctx.mkscratch()      # before the worker threads: vlib.Ctx.mkscratch is not thread-safe (each thread would create its own directory)
    outs = vlib.coq_eval_many(ctx, header, chunks, name=name)
    bad = []
    for k, out in enumerate(outs):
        vals = vlib.parse_eval_outputs(out)
        assert len(vals) == 1, out[-500:]
        inner = vals[0].strip().strip('[]').strip()
        if inner:
            for tok in inner.split(';'):
                bad.append(k * chunk + int(tok.strip().replace('%nat', '')))
    return bad


# ------------------------------------------------------------------------------------------------ Python mirrors of the receiving side
# (used to classify / replay; each is compared with the Coq definition in the correspondence run)

def py_lex_quoted(q, t):
    if not t or t[0] != q: return None
    i, out = 1, []
    while i < len(t):
        c = t[i]
        if c == q:
            if i + 1 < len(t) and t[i + 1] == q: out.append(q); i += 2; continue
            return ''.join(out), t[i + 1:]
        out.append(c); i += 1
    return None

def py_lex_whole(q, t):
    r = py_lex_quoted(q, t)
    return r[0] if r is not None and r[1] == '' else None

MYSQL_ESC = {'0': '\x00', 'b': '\x08', 'n': '\n', 'r': '\r', 't': '\t', 'Z': '\x1a', '%': '\\%', '_': '\\_'}

def py_lex_mysql_prefix(t):
    if not t or t[0] != "'": return None
    i, out = 1, []
    while i < len(t):
        c = t[i]
        if c == '\\':
            if i + 1 >= len(t): return None
            d = t[i + 1]; out.append(MYSQL_ESC.get(d, d)); i += 2; continue
        if c == "'":
            if i + 1 < len(t) and t[i + 1] == "'": out.append("'"); i += 2; continue
            return ''.join(out), t[i + 1:]
        out.append(c); i += 1
    return None

def py_lex_mysql(t):
    r = py_lex_mysql_prefix(t)
    return r[0] if r is not None and r[1] == '' else None

def py_fmt_scan(t):
    """-> list of ('c', ch) | ('pos',) | ('named', name), or None"""
    out, i = [], 0
    while i < len(t):
        c = t[i]
        if c != '%': out.append(('c', c)); i += 1; continue
        if i + 1 >= len(t): return None
        d = t[i + 1]
        if d == '%': out.append(('c', '%')); i += 2
        elif d == 's': out.append(('pos',)); i += 2
        elif d == '(':
            j, depth = i + 2, 0
            while j < len(t) and not (t[j] == ')' and depth == 0):      # CPython counts nested parentheses in a mapping key
                depth += 1 if t[j] == '(' else (-1 if t[j] == ')' else 0); j += 1
            if j >= len(t) or j + 1 >= len(t) or t[j + 1] != 's': return None
            out.append(('named', t[i + 2:j])); i = j + 2
        else: return None
    return out

def py_fmt_subst(t):
    toks = py_fmt_scan(t)
    if toks is None or any(x[0] != 'c' for x in toks): return None
    return ''.join(x[1] for x in toks)

def py_like(esc, p, s):
    if not p: return s == ''
    c = p[0]
    if esc is not None and c == esc:
        if len(p) < 2: return False
        return bool(s) and s[0] == p[1] and py_like(esc, p[2:], s[1:])
    if c == '%': return any(py_like(esc, p[1:], s[i:]) for i in range(len(s) + 1))
    if c == '_': return bool(s) and py_like(esc, p[1:], s[1:])
    return bool(s) and s[0] == c and py_like(esc, p[1:], s[1:])


def split_sql(sql):
    """[(quoted?, text)] : quoted sections ('..', "..", `..` with doubling) are kept apart from the rest."""
    out, i, cur = [], 0, ''
    while i < len(sql):
        c = sql[i]
        if c in '\'"`':
            r = py_lex_quoted(c, sql[i:])
            if r is None: cur += sql[i:]; break
            if cur: out.append((False, cur)); cur = ''
            n = len(sql) - i - len(r[1])
            out.append((True, sql[i:i + n])); i += n
        else: cur += c; i += 1
    if cur: out.append((False, cur))
    return out


PLACEHOLDER_RE = {'qmark': r'\?', 'format': r'%s', 'numeric': r':(\d+)', 'named': r':p(\d+)', 'pyformat': r'%\(p(\d+)\)s'}
PTOK = {'qmark': lambda m: 'PQ', 'format': lambda m: 'PF', 'numeric': lambda m: '(PNum %s)' % cz(int(m.group(1))),
        'named': lambda m: '(PNam %s)' % cz(int(m.group(1))), 'pyformat': lambda m: '(PPy %s)' % cz(int(m.group(1)))}

def placeholder_tokens(style, sql):
    toks = []
    for quoted, text in split_sql(sql):
        if quoted: continue
        for m in re.finditer(PLACEHOLDER_RE[style], text): toks.append(PTOK[style](m))
    return toks


# ------------------------------------------------------------------------------------------------ implementation access

_cache = {}

def base_provider(style):
    from pony.orm.dbapiprovider import DBAPIProvider
    from pony.orm.tests.testutils import TestPool
    p = DBAPIProvider(_database=None, pony_pool_mockup=TestPool(None))
    p.paramstyle = style
    return p

def mock_db(provider):
    """mock Database with entity P(name: str, data: bytes)"""
    key = ('mock', provider)
    if key not in _cache:
        from pony import orm
        db = vlib.mock_database(provider)
        class P(db.Entity):
            name = orm.Optional(str)
            n = orm.Optional(int)
        db.generate_mapping()
        _cache[key] = (db, P)
    return _cache[key]

def value_class(provider):
    db, P = mock_db(provider)
    return db.provider.sqlbuilder_cls.value_class

VALUE_FN = {'sqlite': 'sqlite_value_str', 'postgres': 'pg_value_str', 'mysql': 'mysql_value_str', 'oracle': 'value_str'}


def like_ast(provider, op, const, v):
    """real translator: the LIKE condition for  <v> in p.name / p.name.startswith(v) / p.name.endswith(v)"""
    from pony import orm
    db, P = mock_db(provider)
    arg = repr(v) if const else 'x'
    src = {'contains': '%s in p.name' % arg, 'startswith': 'p.name.startswith(%s)' % arg, 'endswith': 'p.name.endswith(%s)' % arg}[op]
    with orm.db_session:
        q = orm.select('p for p in P if ' + src, {'P': P, 'x': v})
        conds = q._translator.conditions
    assert len(conds) == 1, conds
    return conds[0]

def eval_pattern(node, x):
    t = node[0]
    if t == 'VALUE': return node[1]
    if t == 'PARAM': return x
    if t == 'REPLACE': return eval_pattern(node[1], x).replace(eval_pattern(node[2], x), eval_pattern(node[3], x))
    if t == 'CONCAT': return ''.join(eval_pattern(a, x) for a in node[1:])
    raise ValueError('unexpected node %r in a LIKE pattern' % (t,))


def rand_tree(rng, nkeys, depth):
    """random condition over PARAM / COLUMN leaves; returns (ast, [keys in text order])"""
    def leaf():
        if rng.random() < 0.7:
            k = rng.randrange(nkeys)
            return ['PARAM', (k, None, None)], [k]
        return ['COLUMN', None, rng.choice('ABC')], []
    def expr(d):
        if d <= 0 or rng.random() < 0.35: return leaf()
        a, ka = expr(d - 1); b, kb = expr(d - 1)
        return ['ADD', a, b], ka + kb
    def cond(d):
        r = rng.random()
        if d <= 0 or r < 0.4:
            a, ka = expr(1); b, kb = expr(1)
            return [rng.choice(['EQ', 'NE', 'LT']), a, b], ka + kb
        if r < 0.55:
            a, ka = expr(1)
            items, ks = [], []
            for _ in range(rng.randint(1, 3)):
                b, kb = leaf(); items.append(b); ks += kb
            return ['IN', a, items], ka + ks
        if r < 0.65:
            a, ka = cond(d - 1)
            return ['NOT', a], ka
        parts, ks = [], []
        for _ in range(rng.randint(2, 3)):
            a, ka = cond(d - 1); parts.append(a); ks += ka
        return [rng.choice(['AND', 'OR'])] + parts, ks
    c, keys = cond(depth)
    ast = ['SELECT', ['ALL', ['COLUMN', None, 'A']], ['FROM', [None, 'TABLE', 'T1']], ['WHERE', c]]
    return ast, keys


# ------------------------------------------------------------------------------------------------ correspondence

def correspondence(ctx):
    from pony.orm.sqlbuilding import SQLBuilder, Value, Param
    exprs, meta, disagreements, samples = [], [], [], []
    nontrivial = set()
    dist = {}
    def add(kind, expr, inp, impl, nontriv=False):
        exprs.append(expr); meta.append((kind, inp, impl)); dist[kind] = dist.get(kind, 0) + 1
        if nontriv: nontrivial.add(json.dumps([kind, inp], sort_keys=True, default=str))
    def disagree(what, inp, impl=None):
        disagreements.append({'what': what, 'input': inp, 'impl': impl})

    strs = strings(ctx, ctx.scale(25, 400))

    # (1) Value.quote_str / str(Value) for all five styles; provider value classes under their own style and all styles
    for style in STYLES:
        for s in strs:
            try:
                v = Value(style, s)
                real = v.quote_str(s)
                real2 = str(v)
            except Exception as e:
                disagree('Value.quote_str raised', [style, s], '%s: %s' % (type(e).__name__, e)); continue
            add('quote_str', 'str_eqb (quote_str %s %s) %s' % (CSTYLE[style], cstr(s), cstr(real)), [style, s], real, classes(s) != 'plain')
            if real2 != real: disagree('str(Value) of a str differs from quote_str', [style, s], real2)
    for prov in PROVIDERS:
        vc = value_class(prov)
        own = {'sqlite': 'qmark', 'postgres': 'pyformat', 'mysql': 'format', 'oracle': 'named'}[prov]
        for style in (STYLES if ctx.thorough else sorted({own, 'format', 'qmark'})):
            for s in strs[::3]:
                try: real = str(vc(style, s))
                except Exception as e:
                    disagree('provider Value.__str__ raised', [prov, style, s], '%s: %s' % (type(e).__name__, e)); continue
                add('provider_value_str', 'str_eqb (%s %s %s) %s' % (VALUE_FN[prov], CSTYLE[style], cstr(s), cstr(real)), [prov, style, s], real,
                    classes(s) != 'plain')
    # bytes
    blobs = [b'', b'\x00', b"'", b'%', b'\xff\x00\x10', bytes(range(0, 256, 7))] + [bytes(ctx.rng.randrange(256) for _ in range(ctx.rng.randint(1, 6))) for _ in range(10)]
    for style in STYLES:
        for b in blobs:
            real = str(Value(style, b))
            add('value_bytes', 'str_eqb (value_bytes %s %s) %s' % (CSTYLE[style], clist(list(b), lambda n: '%d' % n) if b else '(@nil Z)', cstr(real)),
                [style, list(b)], real, len(b) > 0)
            add('lex_blob', 'opt_eqb (list_eqb Z.eqb) (lex_blob %s) (Some %s)' % (cstr(real), clist(list(b), lambda n: '%d' % n) if b else '(@nil Z)'),
                [style, list(b)], real)
    # int / bool / None literals (no theorem: table check against the implementation only)
    for prov in PROVIDERS:
        vc = value_class(prov)
        for val, want in ((None, 'null'), (0, '0'), (-17, '-17'), (10 ** 30, str(10 ** 30)), (True, 'true' if prov == 'postgres' else '1'), (False, 'false' if prov == 'postgres' else '0')):
            got = str(vc('qmark', val))
            dist['scalar_literal_table'] = dist.get('scalar_literal_table', 0) + 1
            if got != want: disagree('scalar literal rendering changed', [prov, repr(val)], got)

    # (2) quote_name on the four providers: str and sequences
    names = [s for s in strs if s][:90]
    for prov in PROVIDERS:
        db, P = mock_db(prov)
        q = db.provider.quote_char
        if len(q) != 1: disagree('quote_char is not one character', prov, q); continue
        for n in names:
            real = db.provider.quote_name(n)
            add('quote_name', 'str_eqb (quote_name %d %s) %s' % (ord(q), cstr(n), cstr(real)), [prov, n], real, q in n)
        for k in range(0, len(names) - 2, 7):
            seq = names[k:k + 2 + (k % 2)]
            real = db.provider.quote_name(tuple(seq))
            add('quote_name_seq', 'str_eqb (quote_name_seq %d %s) %s' % (ord(q), clist(seq, cstr), cstr(real)), [prov, seq], real, any(q in n for n in seq))

    # (3) parameter numbering, layout, adapters: real SQLBuilder, five styles, random trees with repeated keys
    ntrees = ctx.scale(35, 600)
    for style in STYLES:
        prov = base_provider(style)
        rng = ctx.rng
        trees = [(['SELECT', ['ALL', ['COLUMN', None, 'A']], ['FROM', [None, 'TABLE', 'T1']]], [])]
        trees += [rand_tree(rng, rng.randint(1, 5), rng.randint(0, 3)) for _ in range(ntrees)]
        for ast, keys in trees:
            try:
                b = SQLBuilder(prov, ast)
                values = {k: 100 + 7 * k for k in set(keys)}
                args = b.adapter(values)
                toks = placeholder_tokens(style, b.sql)
                lay = [k[0] for k in b.layout]
            except Exception as e:
                disagree('SQLBuilder raised', [style, keys], '%s: %s' % (type(e).__name__, e)); continue
            ck = clist(keys, cz)
            rep = len(set(keys)) < len(keys)
            add('placeholders', 'list_eqb ptok_eqb (placeholders %s %s) %s' % (CSTYLE[style], ck, '[' + '; '.join(toks) + ']'), [style, keys], b.sql, rep)
            add('layout', 'list_eqb Z.eqb (layout %s) %s' % (ck, clist(lay, cz)), [style, keys], lay, rep)
            if isinstance(args, tuple): a = '(ATuple %s)' % clist(list(args), cz)
            elif isinstance(args, dict): a = '(ADict %s)' % clist([(int(k[1:]), v) for k, v in args.items()], lambda kv: '(%s, %s)' % (cz(kv[0]), cz(kv[1])))
            else: disagree('adapter returned %r' % type(args).__name__, [style, keys]); continue
            add('adapter', 'args_eqb (args_norm (adapter %s %s (fun k => 100 + 7 * k))) %s' % (CSTYLE[style], ck, a), [style, keys], repr(args), rep)
            if len(samples) < 2 and rep and style in ('numeric', 'pyformat'): samples.append({'style': style, 'keys': keys, 'sql': b.sql, 'args': repr(args)})
        # Param.__str__ directly, ids beyond what trees produce
        for pid in (1, 2, 9, 10, 11, 99, 100, 12345):
            p = Param(style, (0, None, None)); p.id = pid
            toks = placeholder_tokens(style, str(p))
            if len(toks) != 1: disagree('Param.__str__ is not one placeholder of its style', [style, pid], str(p)); continue
            add('param_str', 'ptok_eqb (param_str %s %s) %s' % (CSTYLE[style], cz(pid), toks[0]), [style, pid], str(p))
        # MOD
        b = SQLBuilder(prov, ['MOD', ['COLUMN', None, 'A'], ['COLUMN', None, 'B']])
        add('mod_symbol', 'str_eqb (%s ++ mod_symbol %s ++ %s) %s' % (cstr('("A"'), CSTYLE[style], cstr('"B")'), cstr(b.sql)), [style], b.sql, True)

    # (4) StringMixin._like on the four providers: constant and parameter branch
    likes = [s for s in strs if s and '\x00' not in s][:ctx.scale(30, 200)]
    for prov in PROVIDERS:
        for op in ('contains', 'startswith', 'endswith'):
            for v in likes[::(1 if prov == 'sqlite' else 3)]:
                for const in (True, False):
                    try:
                        node = like_ast(prov, op, const, v)
                        if node[0] != 'LIKE' or len(node) not in (3, 4): raise ValueError('not a LIKE node: %r' % (node,))
                        pat = eval_pattern(node[2], v)
                        esc = len(node) == 4
                        if esc and node[3] != ['VALUE', '!']: raise ValueError('unexpected ESCAPE %r' % (node[3],))
                        if not const and [n for n in _flatten(node[2]) if n == 'PARAM'] == []: raise ValueError('parameter branch without PARAM')
                    except Exception as e:
                        disagree('translator: LIKE condition has an unexpected shape', [prov, op, const, v], '%s: %s' % (type(e).__name__, e)); continue
                    fn = 'like_%s_%s' % ('const' if const else 'param', op)
                    add('like_pattern', 'pair_eqb str_eqb Bool.eqb (%s %s) (%s, %s)' % (fn, cstr(v), cstr(pat), 'true' if esc else 'false'),
                        [prov, op, const, v], [pat, esc], any(c in v for c in '%_!'))
    add('like_escape_char', 'like_escape_char =? 33', [], '!')

    # (4b) every external value the translator renders inline is recorded in fixed_param_values (what Model/C06Pin.v assumes of a miss)
    for prov in PROVIDERS:
        for src, g in RERUN_SITES:
            for vals in ((3, 1), (0, 2), (-2, 5)):
                gl = dict(zip(('x', 'y'), vals)); gl.update(g)
                try: pinned, inlined = pinned_and_inlined(prov, src, gl)
                except Exception as e:
                    disagree('translator raised on a query with an inlined external value', [prov, src, vals], '%s: %s' % (type(e).__name__, e)); continue
                dist['pinned_inline_values'] = dist.get('pinned_inline_values', 0) + 1
                if sorted(map(repr, pinned)) != sorted(map(repr, inlined)):
                    disagree('an external value is rendered inline but not recorded in fixed_param_values (or the reverse)', [prov, src, vals], {'recorded': pinned, 'inlined': inlined})
                else: nontrivial.add(json.dumps(['pinned', prov, src, vals]))

    # (5) reference semantics against the linked SQLite / CPython
    con = sqlite3.connect(':memory:')
    con.execute('PRAGMA case_sensitive_like = true')
    #   (5a) quoted-literal lexer: every text ' + m + ' with m over a small alphabet, SQLite's reading vs lex_std
    alpha = "'a\\%"
    for n in range(0, ctx.scale(4, 6) + 1):
        for tup in itertools.product(alpha, repeat=n):
            t = "'" + ''.join(tup) + "'"
            try: got = con.execute('SELECT ' + t).fetchone()[0]
            except sqlite3.Error: got = None
            add('sqlite_literal', 'opt_eqb str_eqb (lex_std %s) %s' % (cstr(t), 'None' if got is None else '(Some %s)' % cstr(got)), t, got, "''" in t)
            if py_lex_whole("'", t) != got: disagree('harness mirror py_lex_whole differs from SQLite', t, got)
    #        identifiers: "..." read back through a column alias
    for n in range(0, 5):
        for tup in itertools.product('"a\'', repeat=n):
            t = '"' + ''.join(tup) + '"'
            want = py_lex_whole('"', t)
            try:
                cur = con.execute('SELECT 1 AS ' + t); got = cur.description[0][0]
            except sqlite3.Error: got = None
            if want == '': continue                                    # SQLite accepts an empty identifier in some positions only
            add('sqlite_identifier', 'opt_eqb str_eqb (lex_ident 34 %s) %s' % (cstr(t), 'None' if got is None else '(Some %s)' % cstr(got)), t, got, '""' in t)
    #   (5b) LIKE with and without ESCAPE: all patterns / subjects over small alphabets
    subjects = [''.join(t) for n in range(0, 4) for t in itertools.product('aA!%_', repeat=n)]
    if not ctx.thorough: subjects = [x for i, x in enumerate(subjects) if len(x) <= 2 or i % 5 == 0]      # all up to length 2, every 5th of length 3
    pats = [''.join(t) for n in range(0, ctx.scale(3, 5) + 1) for t in itertools.product('a%_!', repeat=n)]
    if not ctx.thorough: pats += [''.join(t) for i, t in enumerate(itertools.product('a%_!', repeat=4)) if i % 4 == 1]
    hdr = HEADER + 'Definition subjects : list str := %s.\n' % clist(subjects, cstr)
    like_exprs, like_meta = [], []
    for esc in ('!', None):
        for p in pats:
            if esc: rows = [con.execute("SELECT ? LIKE ? ESCAPE '!'", (s, p)).fetchone()[0] for s in subjects]
            else: rows = [con.execute('SELECT ? LIKE ?', (s, p)).fetchone()[0] for s in subjects]
            like_exprs.append('list_eqb Bool.eqb (map (like_match %s %s) subjects) %s' % ('(Some 33)' if esc else 'None', cstr(p), clist(rows, lambda r: 'true' if r else 'false')))
            like_meta.append(('sqlite_like', [esc, p], rows))
            for s, r in zip(subjects[::7], rows[::7]):
                if py_like(esc, p, s) != bool(r): disagree('harness mirror py_like differs from SQLite', [esc, p, s], r)
    dist['sqlite_like_patterns'] = len(like_exprs); dist['sqlite_like_rows'] = len(like_exprs) * len(subjects)
    #   (5c) SQL replace() nest = Python replace chain (the parameter branch runs in SQL)
    for v in likes:
        got = con.execute("SELECT replace(replace(replace(?, '!', '!!'), '%', '!%'), '_', '!_')", (v,)).fetchone()[0]
        add('sqlite_replace', 'str_eqb (fst (like_param_startswith %s)) %s' % (cstr(v), cstr(got + '%')), v, got, any(c in v for c in '%_!'))
    #   (5d) %-formatting of format / pyformat drivers = CPython's % operator
    for n in range(0, ctx.scale(4, 6) + 1):
        for k4, tup in enumerate(itertools.product('%s(p)a', repeat=n)):
            if not ctx.thorough and n == 4 and k4 % 3: continue       # quick tier: all texts up to length 3, every 3rd of length 4
            t = ''.join(tup)
            toks = py_fmt_scan(t)
            kinds = set(x[0] for x in toks) if toks is not None else set()
            if 'pos' in kinds and 'named' in kinds: continue          # mixing styles: not something a builder emits
            if toks is None:
                ok = True
                for a in ((), {}):
                    try: t % a; ok = False
                    except (ValueError, TypeError, KeyError, IndexError): pass
                if not ok and not _python_accepts_more(t): disagree('%-formatting model rejects a text CPython formats', t)
                coq = 'None'
            else:
                if 'named' in kinds: arg = {x[1]: '<%s>' % x[1] for x in toks if x[0] == 'named'}
                else: arg = tuple('<%d>' % i for i, x in enumerate(y for y in toks if y[0] == 'pos'))
                want, i = '', 0
                for x in toks:
                    if x[0] == 'c': want += x[1]
                    elif x[0] == 'pos': want += '<%d>' % i; i += 1
                    else: want += '<%s>' % x[1]
                try: got = t % arg
                except Exception as e: got = 'EXC %s' % type(e).__name__
                if got != want: disagree('%-formatting model differs from CPython', t, got)
                coq = '(Some %s)' % clist(toks, lambda x: '(FChar %d)' % ord(x[1]) if x[0] == 'c' else ('FPos' if x[0] == 'pos' else '(FNamed %s)' % cstr(x[1])))
            add('fmt_scan', 'opt_eqb (list_eqb ftok_eqb) (fmt_scan %s) %s' % (cstr(t), coq), t, repr(toks), '%' in t)
    #   (5e) MySQL literal mirror vs Coq lex_mysql (documentation model on both sides; keeps the replay mirror honest)
    for s in strs[:ctx.scale(80, 300)]:
        t = "'" + s.replace("'", "''") + "'"
        got = py_lex_mysql(t)
        add('lex_mysql_mirror', 'opt_eqb str_eqb (lex_mysql %s) %s' % (cstr(t), 'None' if got is None else '(Some %s)' % cstr(got)), t, got, '\\' in s)

    lit_exprs, lit_meta = [], []
    def add_lit(kind, expr, inp, impl, nt=False):
        lit_exprs.append(expr); lit_meta.append((kind, inp, impl)); dist[kind] = dist.get(kind, 0) + 1
        if nt: nontrivial.add(json.dumps([kind, inp], sort_keys=True, default=str))
    literal_cases(ctx, add_lit, disagree)
    skeleton_cases(ctx, add_lit, disagree)

    hdr_main = HEADER + ('Definition ftok_eqb (a b : ftok) : bool := match a, b with FChar x, FChar y => x =? y | FPos, FPos => true '
                         '| FNamed x, FNamed y => str_eqb x y | _, _ => false end.\n')
    ctx.mkscratch()
    from concurrent.futures import ThreadPoolExecutor
    with ThreadPoolExecutor(max_workers=3) as pool:
        fut2 = pool.submit(run_bools, ctx, like_exprs, hdr, 150, 'like')
        fut3 = pool.submit(run_bools, ctx, lit_exprs, HEADER_LIT, 1500, 'lit')
        bad = run_bools(ctx, exprs, header=hdr_main)
        bad2 = fut2.result(); bad3 = fut3.result()
    for i in bad3[:10]:
        kind, inp, impl = lit_meta[i]
        disagreements.append({'what': 'model and implementation differ (%s)' % kind, 'input': inp, 'impl': impl, 'coq_case': lit_exprs[i][:1500]})
    for i in bad[:20]:
        kind, inp, impl = meta[i]
        disagreements.append({'what': 'model and implementation differ (%s)' % kind, 'input': inp, 'impl': impl, 'coq_case': exprs[i][:1500]})
    for i in bad2[:10]:
        kind, inp, impl = like_meta[i]
        disagreements.append({'what': 'like_match differs from the linked SQLite', 'input': inp, 'impl': impl, 'coq_case': like_exprs[i][:1500]})
    samples.append({'coq_case': exprs[3]})
    samples.append({'sqlite_version': sqlite3.sqlite_version})
    return Corr(cases=len(exprs) + len(lit_exprs) + len(like_exprs) * len(subjects), nontrivial=len(nontrivial), disagreements=disagreements, samples=samples, distribution=dist,
                note='every case is a boolean computed by vm_compute inside Coq from the model and the serialised implementation output; '
                     'a LIKE case compares one pattern against %d subjects' % len(subjects))


# the places where an EXTERNAL value is rendered inline (fixed_param_values is written): string index / slice bounds, getattr names
RERUN_SITES = [('p.name[:x] for p in P', {}), ('p.name[x:] for p in P', {}), ('p.name[x:y] for p in P', {}), ('p.id for p in P if p.name[x] == "a"', {}),
               ('p.name[1:y] for p in P', {}), ('getattr(p, nm) for p in P', {'nm': 'name'}),
               # the same inside SUBQUERIES (the bound must be pinned on the root translator: Query._get_translator and the SQL key look only there)
               ('p.id for p in P if exists(q for q in P if q.name[:x] == p.name[:x] and q.id != p.id)', {}),
               ('p.id for p in P if p.id in select(q.id for q in P if q.name[x:y] == "a")', {}),
               ('(p.id, count(q for q in P if q.name[x] == p.name[x])) for p in P', {}),
               ('p.id for p in P if exists(q for q in P if exists(r for r in P if r.name[:y] == q.name[:y] and r.id > q.id) and q.id == p.id)', {}),
               ('p.id for p in P if exists(q for q in P if getattr(q, nm) == getattr(p, nm) and q.id != p.id)', {'nm': 'name'})]

def rerun_globals(P, g):
    from pony import orm
    return dict(g, P=P, exists=orm.exists, select=orm.select, count=orm.count)

def pinned_and_inlined(prov, src, g):
    """(values recorded in fixed_param_values, values of the external variables of the query that are not bound as PARAM anywhere)"""
    from pony import orm
    db, P = mock_db(prov)
    db._translator_cache.clear(); db._constructed_sql_cache.clear()
    with orm.db_session:
        q = orm.select(src, rerun_globals(P, g))
        tr = q._translator
        pinned = list(tr.fixed_param_values.values())
        bound = set()
        def walk(x):
            if isinstance(x, (list, tuple)):
                if len(x) >= 2 and x[0] == 'PARAM' and isinstance(x[1], tuple): bound.add(x[1][0][1])
                for y in x: walk(y)
        walk(tr.conditions); walk(tr.expr_columns)
        used = [k for k in ('x', 'y', 'nm') if re.search(r'\b%s\b' % k, src)]
        inlined = [g[k] for k in used if k not in bound]
    return pinned, inlined


# ------------------------------------------------------------------------------------------------ literals other than str / bytes

HEADER_LIT = ('Require Import PonyV.Base.PyBase PonyV.Model.C07Base PonyV.Model.C07Fmt PonyV.Gen.C07Codec PonyV.Model.C07Codec '
              'PonyV.Model.C06Str PonyV.Model.C06Lex PonyV.Model.C06Params PonyV.Gen.C06Quote PonyV.Model.C06Lit PonyV.Gen.C06Lit PonyV.Model.C06Tok.\n'
              'Open Scope Z_scope.\n')
LIT_PREFIX = {'sqlite': 'sqlite_value', 'postgres': 'pg_value', 'mysql': 'mysql_value', 'oracle': 'value'}

def lit_values(ctx):
    """(kind, python value, Coq value term)"""
    import datetime, decimal
    rng = ctx.rng
    out = [('none', None, None), ('bool', True, 'true'), ('bool', False, 'false')]
    ints = [0, 1, -1, 9, 10, -10, 255, 2 ** 31, -2 ** 63, 2 ** 64 + 1, 10 ** 30, -10 ** 30 - 7] + [rng.randint(-10 ** 12, 10 ** 12) for _ in range(ctx.scale(6, 60))]
    out += [('int', z, cz(z)) for z in ints]
    fl = [0, 1, -1, 10, 123456789, -98765432100, 10 ** 15, -(10 ** 15) - 1, 9007199254740992] + [rng.randint(-10 ** 15, 10 ** 15) for _ in range(ctx.scale(4, 40))]
    out += [('floatint', float(z), cz(z)) for z in fl]
    decs = [(0, 0), (0, -2), (5, 0), (-5, 0), (12345, -2), (-12345, -5), (12345, -7), (1, -6), (1, -7), (1, -8), (123, 2), (-1, 3), (1000, -3), (7, -1), (10 ** 20 + 1, -10), (99, -8), (5, 1)]
    decs += [(rng.randint(-10 ** 9, 10 ** 9), -rng.randint(0, 14)) for _ in range(ctx.scale(8, 80))]
    for c, e in decs:
        d = decimal.Decimal((1 if c < 0 else 0, tuple(int(x) for x in str(abs(c))), e))
        out.append(('decimal', d, '(%s, %s)' % (cz(c), cz(e))))
    def rdate(): return datetime.date(rng.randint(1, 9999), rng.randint(1, 12), rng.randint(1, 28))
    dates = [datetime.date(1, 1, 1), datetime.date(9999, 12, 31), datetime.date(2024, 2, 29), datetime.date(999, 3, 7)] + [rdate() for _ in range(ctx.scale(5, 50))]
    cd = lambda d: '(mk_date %d %d %d)' % (d.year, d.month, d.day)
    out += [('date', d, cd(d)) for d in dates]
    dts = [datetime.datetime(2024, 1, 2, 3, 4, 5), datetime.datetime(1, 1, 1, 0, 0, 0, 1), datetime.datetime(9999, 12, 31, 23, 59, 59, 999999), datetime.datetime(2000, 2, 29, 12, 0, 0, 500000)]
    dts += [datetime.datetime.combine(rdate(), datetime.time(rng.randint(0, 23), rng.randint(0, 59), rng.randint(0, 59), rng.choice([0, 0, rng.randint(1, 999999)]))) for _ in range(ctx.scale(5, 50))]
    out += [('datetime', d, '(mk_dt %s (mk_time %d %d %d %d))' % (cd(d.date()), d.hour, d.minute, d.second, d.microsecond)) for d in dts]
    tds = [datetime.timedelta(0), datetime.timedelta(seconds=1), datetime.timedelta(days=-1), datetime.timedelta(microseconds=-1), datetime.timedelta(days=400, seconds=86399, microseconds=999999),
           datetime.timedelta(hours=-30, microseconds=5), datetime.timedelta(days=100000), datetime.timedelta(seconds=-59)]
    tds += [datetime.timedelta(days=rng.randint(-3000, 3000), seconds=rng.randint(0, 86399), microseconds=rng.choice([0, rng.randint(1, 999999)])) for _ in range(ctx.scale(5, 50))]
    out += [('timedelta', t, '(mk_td %s %d %d)' % (cz(t.days), t.seconds, t.microseconds)) for t in tds]
    out += [('timedelta_days', datetime.timedelta(days=k), cz(k)) for k in (0, 1, -1, 7, 365, -4000, 10 ** 6)]
    return out


def literal_cases(ctx, add, disagree):
    con = sqlite3.connect(':memory:')
    import decimal, datetime
    for prov in PROVIDERS:
        vc = value_class(prov)
        own = {'sqlite': 'qmark', 'postgres': 'pyformat', 'mysql': 'format', 'oracle': 'named'}[prov]
        for style in (STYLES if ctx.thorough else sorted({own, 'format'})):
            for kind, v, cv in lit_values(ctx):
                k = kind
                if kind == 'timedelta_days' and prov != 'sqlite': continue
                if kind == 'timedelta' and prov == 'sqlite': continue        # SQLite renders repr(float of days): only whole days are modelled
                try: real = str(vc(style, v))
                except Exception as e:
                    disagree('Value.__str__ raised', [prov, style, kind, repr(v)], '%s: %s' % (type(e).__name__, e)); continue
                fn = '%s_%s' % (LIT_PREFIX[prov], kind)
                add('literal_' + kind, 'str_eqb (%s %s%s) %s' % (fn, CSTYLE[style], '' if cv is None else ' ' + cv, cstr(real)), [prov, style, kind, repr(v)], real, True)
                # the SQLite forms against the linked SQLite
                if prov == 'sqlite' and style == 'qmark':
                    try: got = con.execute('SELECT ' + real).fetchone()[0]
                    except sqlite3.Error as e: got = 'EXC %s' % e
                    if kind in ('none', 'bool', 'int', 'floatint', 'timedelta_days'):
                        want = {'none': None, 'bool': int(bool(v)) if v is not None else None}.get(kind, v.days if kind == 'timedelta_days' else v)
                        ok = got == want or (kind == 'int' and abs(v) >= 2 ** 63 and isinstance(got, float) and got == float(v))    # beyond int64 SQLite reads a REAL
                    elif kind == 'decimal': ok = isinstance(got, (int, float)) and (got == float(v) or abs(got - float(v)) <= 1e-9 * abs(float(v)))
                    elif kind == 'date': ok = got == v.isoformat() and con.execute('SELECT date(%s)' % real).fetchone()[0] == (v.isoformat() if v.year >= 1000 or True else None)
                    elif kind == 'datetime': ok = got == v.isoformat(' ') + ('' if v.microsecond else '.000000')
                    else: ok = True
                    if not ok: disagree('the linked SQLite reads the literal differently', [kind, repr(v), real], repr(got))


def skeleton_cases(ctx, add, disagree):
    """the statement skeletons of _save_created_ / _save_updated_ / _save_deleted_ / load-by-key: real SQLBuilder text = model text,
    and the tokeniser applied to the REAL text gives the classes of the skeleton"""
    from pony.orm.sqlbuilding import SQLBuilder
    rng = ctx.rng
    names = ['T1', 'a', 'b_c', 'we"ird', '`q`', "it's", 'x y', 'é', 'p%q', 'sel.ect', '""', 'A?', ':p1', '%s']
    svals = ["x'y", '', "'", '%', '%%s', 'a"b', '\\', '?', ':1', "'; DROP TABLE x; --", 'é√', '$x', '--', '/*']
    def rname(): return rng.choice(names)
    for style in STYLES:
        for qc in ('"', '`'):
            prov = base_provider(style); prov.quote_char = qc
            for _ in range(ctx.scale(6, 60)):
                pid = [0]
                def val():
                    r = rng.random()
                    if r < 0.4:
                        pid[0] += 1
                        return ['PARAM', (pid[0], None, None)], '(SPh %d)' % pid[0]
                    if r < 0.75:
                        v = rng.choice(svals); return ['VALUE', v], '(SStr %s)' % cstr(v)
                    z = rng.choice([0, 5, -5, 10 ** 20, -1, 42]); return ['VALUE', z], '(SInt %s)' % cz(z)
                kind = rng.choice(['insert', 'update', 'delete', 'select'])
                table = rname()
                def pairs(n):
                    out = []
                    for _ in range(n):
                        nm = rname(); a, c = val(); out.append((nm, a, c))
                    return out
                if kind == 'insert':
                    cols = [rname() for _ in range(rng.randint(1, 4))]
                    vs = [val() for _ in cols]
                    ast_ = ['INSERT', table, cols, [a for a, _ in vs]]
                    term = '(insert_stmt %s %s %s)' % (cstr(table), clist(cols, cstr), clist([c for _, c in vs], str))
                elif kind == 'update':
                    sets, keys = pairs(rng.randint(1, 3)), pairs(rng.randint(1, 2))
                    ast_ = ['UPDATE', table, [(n, a) for n, a, _ in sets], ['WHERE'] + [['EQ', ['COLUMN', None, n], a] for n, a, _ in keys]]
                    pl = lambda l: clist(l, lambda t: '(%s, %s)' % (cstr(t[0]), t[2]))
                    term = '(update_stmt %s %s %s)' % (cstr(table), pl(sets), pl(keys))
                elif kind == 'delete':
                    keys = pairs(rng.randint(1, 3))
                    ast_ = ['DELETE', None, ['FROM', [None, 'TABLE', table]], ['WHERE'] + [['EQ', ['COLUMN', None, n], a] for n, a, _ in keys]]
                    term = '(delete_stmt %s %s)' % (cstr(table), clist(keys, lambda t: '(%s, %s)' % (cstr(t[0]), t[2])))
                else:
                    cols = [rname() for _ in range(rng.randint(1, 4))]
                    keys = pairs(rng.randint(1, 2))
                    ast_ = ['SELECT', ['ALL'] + [['COLUMN', None, c] for c in cols], ['FROM', [None, 'TABLE', table]],
                            ['WHERE'] + [['EQ', ['COLUMN', None, n], a] for n, a, _ in keys]]
                    term = '(select_stmt %s %s %s)' % (clist(cols, cstr), cstr(table), clist(keys, lambda t: '(%s, %s)' % (cstr(t[0]), t[2])))
                try: real = SQLBuilder(prov, ast_).sql
                except Exception as e:
                    disagree('SQLBuilder raised on a statement skeleton', [style, qc, kind], '%s: %s' % (type(e).__name__, e)); continue
                add('skeleton_text', 'str_eqb (stmt_text %s %d %s) %s' % (CSTYLE[style], ord(qc), term, cstr(real)), [style, qc, kind, repr(ast_)], real, True)
                add('skeleton_tokens', 'list_eqb tclass_eqb (tokenize %s) (stmt_classes %s %s)' % (cstr(real), CSTYLE[style], term), [style, qc, kind, repr(ast_)], real, True)


def _flatten(node):
    out = []
    for x in node:
        if isinstance(x, list): out += _flatten(x)
        else: out.append(x)
    return out


def _python_accepts_more(t):
    """CPython's % knows conversions (%a, %(p)a ...) that no SQL builder emits; the model calls them errors on purpose."""
    return bool(re.search(r'%(\([^)]*\))?[a]', t))


# ------------------------------------------------------------------------------------------------ end-to-end on SQLite under every paramstyle

def make_e2e(style, tag=''):
    """A real SQLite Database whose provider is forced to `style`; a shim plays the driver: format/pyformat statements go
    through Python's % (as pymysql / psycopg2 do) with the arguments turned into bound markers, numeric :N becomes ?N."""
    key = ('e2e', style, tag)
    if key in _cache: return _cache[key]
    from pony import orm
    db = orm.Database('sqlite', ':memory:')
    class P(db.Entity):
        name = orm.Optional(str, autostrip=False)      # autostrip (a documented feature) would strip leading/trailing whitespace
        n = orm.Optional(int)
        data = orm.Optional(bytes)
    db.generate_mapping(create_tables=True)
    prov = db.provider
    prov.paramstyle = style
    orig = prov.execute
    log = []
    def conv(sql, a):
        want = dict if style in ('named', 'pyformat') else tuple
        if type(a) is not want:
            raise TypeError('driver shim: paramstyle %s needs a %s of arguments, got %s' % (style, want.__name__, type(a).__name__))
        if style == 'format': return sql % tuple('?' for _ in a), tuple(a)
        if style == 'pyformat': return sql % {k: ':' + k for k in a}, a
        if style == 'numeric':
            parts, ns = [], []
            for quoted, text in split_sql(sql):
                if not quoted:
                    ns += [int(x) for x in re.findall(r':(\d+)', text)]
                    text = re.sub(r':(\d+)', r'?\1', text)
                parts.append(text)
            return ''.join(parts), tuple(a[:max(ns)]) if ns else ()
        return sql, a
    def shim(cursor, sql, arguments=None, returning_id=False):
        log.append((sql, arguments))
        if type(arguments) is list:
            return orig(cursor, conv(sql, arguments[0])[0], [conv(sql, a)[1] for a in arguments], returning_id)
        if arguments is not None:
            sql, arguments = conv(sql, arguments)
        return orig(cursor, sql, arguments, returning_id)
    prov.execute = shim
    _cache[key] = (db, P, log)
    return _cache[key]


OPS = {
    'eq': (lambda v, s: s == v, '%s == p.name'),
    'contains': (lambda v, s: v in s, '%s in p.name'),
    'startswith': (lambda v, s: s.startswith(v), 'p.name.startswith(%s)'),
    'endswith': (lambda v, s: s.endswith(v), 'p.name.endswith(%s)'),
    'in_list': (lambda v, s: s in (v, v + 'x'), 'p.name in (%s, %s)'),
    'ne': (lambda v, s: s != v, 'p.name != %s'),
}


def e2e_query(style, op, const, v):
    """-> (sorted ids Pony returns, sorted ids Python semantics gives, last SQL) ; rows must exist"""
    from pony import orm
    db, P, log = make_e2e(style)
    py, tmpl = OPS[op]
    arg = repr(v) if const else 'x'
    if op == 'in_list': src = tmpl % ((repr(v), repr(v + 'x')) if const else ('x', 'y'))
    else: src = tmpl % arg
    with orm.db_session:
        rows = _rows(style)
        want = sorted(i for i, s in rows if py(v, s))
        try:
            got = sorted(orm.select('p.id for p in P if ' + src, {'P': P, 'x': v, 'y': v + 'x'})[:])
        except Exception as e:
            got = 'EXC %s: %s' % (type(e).__name__, str(e)[:200])
    return got, want, log[-1][0] if log else ''


def _rows(style):
    """(id, name) as stored, read with plain sqlite3 through Pony's connection (bypasses all of Pony's SQL building)"""
    db, P, log = make_e2e(style)
    con = db.get_connection()
    return [(i, s) for i, s in con.execute('SELECT "id", "name" FROM "P" ORDER BY "id"').fetchall()]


def populate(style, strs):
    """-> None, or the exception text when storing failed"""
    from pony import orm
    db, P, log = make_e2e(style)
    try:
        with orm.db_session:
            have = {s for _, s in _rows(style)}
            new = [s for s in strs if s not in have]
            for s in new: P(name=s, n=len(s))
            orm.commit()
    except Exception as e:
        return 'EXC %s: %s' % (type(e).__name__, str(e)[:300])
    return None


RERUN_ROWS = ['alphabet', 'bracket', 'cardinal', "d'aff%odil", 'a', '', 'ab_!%']

def rerun_dbs(style):
    """two identically populated databases: 'rr' keeps its caches over the history, 'rr-ref' is cleared before every run"""
    from pony import orm
    for tag in ('rr', 'rr-ref'):
        db, P, log = make_e2e(style, tag)
        with orm.db_session:
            if not db.get_connection().execute('SELECT count(*) FROM "P"').fetchone()[0]:
                for s in RERUN_ROWS: P(name=s, n=len(s))
                orm.commit()


def rerun_once(style, tag, src, gl, cold):
    from pony import orm
    db, P, log = make_e2e(style, tag)
    if cold: db._translator_cache.clear(); db._constructed_sql_cache.clear()
    with orm.db_session:
        del log[:]
        try: rows = sorted(map(repr, orm.select(src, rerun_globals(P, gl)).without_distinct()[:]))
        except Exception as e: rows = 'EXC %s: %s' % (type(e).__name__, str(e)[:150])
        call = log[-1] if log else None
    return rows, call


def rerun_case(style, src, g, hist, names):
    """run the history with warm caches; every step is compared with a cold-cache run of the same step on the twin database.
    -> Failure for the first step that differs, or None"""
    rerun_dbs(style)
    db, P, log = make_e2e(style, 'rr')
    db._translator_cache.clear(); db._constructed_sql_cache.clear()
    for i, (x, y) in enumerate(hist):
        gl = dict(g, x=x, y=y)
        if 'nm' in g: gl['nm'] = names[i % len(names)]
        warm = rerun_once(style, 'rr', src, gl, False)
        ref = rerun_once(style, 'rr-ref', src, gl, True)
        if warm != ref:
            shown = {k: gl[k] for k in ('x', 'y', 'nm') if k in gl and re.search(r'\b%s\b' % k, src)}
            return Failure('unlisted:rerun:%s:%s' % (style, src.split(' for ')[0].replace(' ', '')),
                           'SQLite, paramstyle %s: %r run %d times with changing values; run %d with %r sends %r and returns %s; a cold-cache run sends %r and returns %s' % (
                               style, src, i + 1, i + 1, shown, warm[1], str(warm[0])[:120], ref[1], str(ref[0])[:120]),
                           {'kind': 'rerun', 'style': style, 'src': src, 'g': g, 'hist': [list(h) for h in hist[:i + 1]], 'names': names})
    return None


def e2e_failure(style, op, const, v, got, want, sql):
    key = 'unlisted:e2e:%s:%s:%s:%s' % (style, op, 'const' if const else 'param', classes(v))
    what = 'SQLite end to end, paramstyle %s: %s with %s %r returns ids %r, Python semantics gives %r; SQL: %s' % (
        style, op, 'constant' if const else 'parameter', v, got if isinstance(got, str) else got[:8], want[:8], sql[:300])
    return Failure(key, what, {'kind': 'e2e', 'style': style, 'op': op, 'const': const, 'v': v})


def search(ctx, deep):
    from pony import orm
    failures, evals, nontriv = [], 0, set()
    dist = {}
    def count(k, n=1): dist[k] = dist.get(k, 0) + n
    seen = set()
    def fail(f):
        if f.key not in seen: seen.add(f.key); failures.append(f)

    strs = [s for s in strings(ctx, 30 if not deep else 150) if s]
    stored = strs[:70] if not deep else strs
    probes = [s for s in stored if classes(s) != 'plain'][:(16 if not deep else 80)] + ['abc', 'a']

    for style in STYLES:
        # (a) stored through the ORM (bound parameters; bulk and single inserts), read back with raw sqlite3
        err = populate(style, stored)
        if err:
            evals += 1
            fail(Failure('unlisted:e2e:%s:store:raises' % style, 'paramstyle %s: storing strings through the ORM failed: %s' % (style, err),
                         {'kind': 'store', 'style': style, 'strs': stored[:5]}))
            continue
        with orm.db_session:
            rows = _rows(style)
            evals += len(rows); count('stored_roundtrip', len(rows))
            back = sorted(s for _, s in rows)
            if back != sorted(set(stored)):
                missing = sorted(set(stored) - set(back))[:3]
                fail(Failure('unlisted:e2e:%s:store:%s' % (style, classes(''.join(missing))), 'paramstyle %s: strings stored through the ORM read back differently: %r' % (style, missing),
                             {'kind': 'store', 'style': style, 'strs': missing or stored[:5]}))
            else:
                nontriv.update((style, 'store', s) for s in stored if classes(s) != 'plain')
        # (b) queries with the value as an inlined constant and as a parameter
        for v in probes:
            for op in OPS:
                for const in (True, False):
                    got, want, sql = e2e_query(style, op, const, v)
                    evals += 1; count('e2e_query')
                    if got != want: fail(e2e_failure(style, op, const, v, got, want, sql))
                    elif classes(v) != 'plain': nontriv.add((style, op, const, v))
        # (c) bytes literal and parameter
        db, P, log = make_e2e(style)
        with orm.db_session:
            if not orm.select(p for p in P if p.n == -1).exists():
                for b in (b"\x00'%", b'\xff%%', b'ab'): P(name='blob', n=-1, data=b)
                orm.commit()
            for b in (b"\x00'%", b'\xff%%', b'ab'):
                for const in (True, False):
                    try: got = orm.select('p.data for p in P if p.n == -1 and p.data == %s' % (repr(b) if const else 'x'), {'P': P, 'x': b})[:]
                    except Exception as e: got = 'EXC %s: %s' % (type(e).__name__, e)
                    evals += 1; count('e2e_bytes')
                    if got != [b]:
                        fail(Failure('unlisted:e2e:%s:bytes:%s' % (style, 'const' if const else 'param'), 'paramstyle %s: bytes %r as %s: got %r' % (style, b, 'constant' if const else 'parameter', got),
                                     {'kind': 'bytes', 'style': style, 'b': list(b), 'const': const}))
                    else: nontriv.add((style, 'bytes', const, b))
            # MOD under every style (%% for format styles)
            try: got = orm.select(p.n % 3 for p in P if p.n == 5 or p.n == 7)[:]
            except Exception as e: got = 'EXC %s: %s' % (type(e).__name__, e)
            evals += 1; count('e2e_mod')
            if isinstance(got, str) or not set(got) <= {1, 2}:
                fail(Failure('unlisted:e2e:%s:mod' % style, 'paramstyle %s: p.n %% 3 gives %r' % (style, got), {'kind': 'mod', 'style': style}))

    # (f) re-execution: the same query text (one code object, one translator-cache key) run again and again with other values
    #     for every place where an external value is rendered inline (string index / slice bounds, getattr names):
    #     statement and rows of each run must be those of a cold-cache run with the value supplied for THAT run
    hist = [(3, 5), (1, 4), (1, 4), (3, 5), (0, 2), (2, 2), (-2, 6), (None, 3), (4, None), (1, 4)]
    if deep: hist = hist + [(rng_i % 7 - 2, rng_i % 5 + 1) for rng_i in range(3, 40)]
    for style in (STYLES if deep else ['qmark', 'pyformat']):
        for k, (src, g) in enumerate(RERUN_SITES):
            evals += len(hist); count('rerun_same_query', len(hist))
            f = rerun_case(style, src, g, hist, ['name', 'n', 'name', 'id', 'n'])
            if f: fail(f)
            else: nontriv.add(('rerun', style, src))

    # (d) identifiers: table / column names with quote characters, end to end on SQLite
    idents = ['we"ird', 'a""b', "it's", 'sel`ect', 'a.b', 'x y', 'p%q', 'über"'] if not deep else [s for s in strs if s and '\x00' not in s][:40]
    for k, name in enumerate(idents):
        evals += 1; count('e2e_identifier')
        f = ident_case(name)
        if f: fail(f)
        else: nontriv.add(('ident', name))

    # (e) documentation models of the servers that are not available (MySQL literal rules, %-step on identifiers)
    for s in strs:
        evals += 1; count('mysql_literal_doc_model')
        f = mysql_literal_case(s)
        if f: fail(f)
        elif classes(s) != 'plain': nontriv.add(('mysql', s))
    for name in [n for n in strs if n][:60]:
        for prov in ('mysql', 'postgres'):
            evals += 1; count('ident_fmt_doc_model')
            f = ident_fmt_case(prov, name)
            if f: fail(f)
            elif classes(name) != 'plain': nontriv.add(('ident_fmt', prov, name))
    # (g) literals other than str / bytes: real class -> %-step -> an independent reader of the dialect's literal form
    import datetime as _dt
    for prov in PROVIDERS:
        own = {'sqlite': 'qmark', 'postgres': 'pyformat', 'mysql': 'format', 'oracle': 'named'}[prov]
        for kind, v, _ in lit_values(ctx):
            if kind == 'timedelta_days' and prov != 'sqlite': continue
            evals += 1; count('literal_other_kinds')
            f = literal_case(prov, own, kind, v)
            if f: fail(f)
            else: nontriv.add(('literal', prov, kind, repr(v)))
    subjects = [s for s in strs if len(s) <= 4][:60]
    for v in [s for s in strs if s][:(40 if not deep else 200)]:
        for prov in ('postgres', 'mysql'):
            for op in ('contains', 'startswith', 'endswith'):
                evals += 1; count('like_default_escape_doc_model')
                f = like_bs_case(prov, op, v, subjects)
                if f: fail(f)
                elif classes(v) != 'plain': nontriv.add(('like_bs', prov, op, v))
    return Search(evaluations=evals, failures=failures, nontrivial=len(nontriv), distribution=dist, exhaustive=False,
                  samples=[{'e2e': 'select(p.id for p in P if %r in p.name) under paramstyle pyformat on SQLite through the driver shim' % "50%_!'"}])


def ident_case(name):
    """entity whose table and column carry `name`: create, insert, query, compare with the schema SQLite reports"""
    from pony import orm
    try:
        db = orm.Database('sqlite', ':memory:')
        E = type('E', (db.Entity,), {'_table_': 't ' + name, 'val': orm.Optional(str, column='c ' + name), 'w': orm.Optional(int, column=name)})
        db.generate_mapping(create_tables=True)
        with orm.db_session:
            x = E(val='v0', w=2); orm.commit()
            x.val = 'v1'; x.w = 3; orm.commit()                       # UPDATE ... SET <names> ... WHERE <pk>
            y = E(val='gone', w=9); orm.commit(); y.delete(); orm.commit()   # DELETE
            got = orm.select((e.val, e.w) for e in E)[:]
            con = db.get_connection()
            tables = [r[0] for r in con.execute("SELECT name FROM sqlite_master WHERE type = 'table'").fetchall()]
            cols = [r[1] for r in con.execute('PRAGMA table_info(%s)' % ('"' + ('t ' + name).replace('"', '""') + '"')).fetchall()]
        ok = got == [('v1', 3)] and ('t ' + name) in tables and ('c ' + name) in cols and name in cols
        detail = 'rows=%r tables=%r cols=%r' % (got, tables, cols)
    except Exception as e:
        ok, detail = False, 'EXC %s: %s' % (type(e).__name__, str(e)[:200])
    if ok: return None
    return Failure('unlisted:identifier:sqlite:%s' % classes(name), 'SQLite: table/column named %r: %s' % (name, detail), {'kind': 'ident', 'name': name})


def mysql_literal_case(s):
    """real MySQLValue under MySQL's paramstyle -> driver %-step -> MySQL default literal rules (documentation model)"""
    text = str(value_class('mysql')('format', s))
    sent = py_fmt_subst(text)
    got = py_lex_mysql(sent) if sent is not None else None
    if got == s: return None
    key = 'mysql-literal-backslash-documentation-model' if '\\' in s else 'unlisted:mysql-literal:%s' % classes(s)
    return Failure(key, 'MySQL (documented default literal rules, not executed): the constant %r is rendered as %s, which MySQL reads as %r' % (s, text, got),
                   {'kind': 'mysql_literal', 's': s})


def ident_fmt_case(prov, name):
    """real quote_name of a format / pyformat provider, then the driver's %-step (documentation model)"""
    db, P = mock_db(prov)
    q = db.provider.quote_char
    text = db.provider.quote_name(name)
    sent = py_fmt_subst(text)
    got = py_lex_whole(q, sent) if sent is not None else None
    if got == name: return None
    key = 'ident-percent-format-style-documentation-model' if '%' in name else 'unlisted:ident-fmt:%s:%s' % (prov, classes(name))
    return Failure(key, '%s (paramstyle %s; driver %%-formatting, documentation model, not executed): the name %r is written %s; after the driver\'s '
                   '%%-step the server reads %r' % (prov, db.provider.paramstyle, name, text, got if sent is not None else 'nothing: formatting error'),
                   {'kind': 'ident_fmt', 'provider': prov, 'name': name})


def read_literal(prov, kind, text):
    """an independent reader of the literal forms (Python re / datetime / decimal), for the search oracle; raises ValueError when the text is not of the form"""
    import datetime, decimal
    def need(m):
        if m is None: raise ValueError('not a %s literal of %s: %r' % (kind, prov, text))
        return m
    if kind == 'none': need(re.fullmatch('null', text)); return None
    if kind == 'bool':
        tbl = {'true': True, 'false': False} if prov == 'postgres' else {'1': True, '0': False}
        if text not in tbl: raise ValueError('not a boolean literal of %s: %r' % (prov, text))
        return tbl[text]
    if kind == 'int': need(re.fullmatch(r'-?\d+', text)); return int(text)
    if kind == 'floatint': need(re.fullmatch(r'-?\d+\.\d+', text)); return float(text)
    if kind == 'decimal': need(re.fullmatch(r'-?\d+(\.\d+)?(E[+-]\d+)?', text)); return decimal.Decimal(text)
    if kind == 'date':
        m = need(re.fullmatch(r"'(\d{4})-(\d{2})-(\d{2})'" if prov == 'sqlite' else r"DATE '(\d{4})-(\d{2})-(\d{2})'", text))
        return datetime.date(*map(int, m.groups()))
    if kind == 'datetime':
        pat = r"'(\d{4})-(\d{2})-(\d{2}) (\d{2}):(\d{2}):(\d{2})\.(\d{6})'"
        m = need(re.fullmatch(pat if prov == 'sqlite' else 'TIMESTAMP ' + pat, text))
        return datetime.datetime(*map(int, m.groups()))
    if kind in ('timedelta', 'timedelta_days'):
        if prov == 'sqlite':
            need(re.fullmatch(r'-?\d+(\.\d+)?(e-?\d+)?', text))
            return datetime.timedelta(days=float(text))
        m = need(re.fullmatch(r"INTERVAL '(-?)(\d+):(\d+):(\d+)(?:\.(\d{6}))?' (HOUR TO SECOND|HOUR_SECOND|HOUR_MICROSECOND)", text))
        sign, h, mi, sec, frac, unit = m.groups()
        want_unit = ('HOUR_MICROSECOND' if frac else 'HOUR_SECOND') if prov == 'mysql' else 'HOUR TO SECOND'
        if unit != want_unit: raise ValueError('interval unit %s does not fit the text %r' % (unit, text))
        td = datetime.timedelta(hours=int(h), minutes=int(mi), seconds=int(sec), microseconds=int(frac or 0))
        return -td if sign else td
    raise ValueError(kind)


def literal_case(prov, style, kind, v):
    """real Value class -> driver %-step -> independent reader; -> Failure or None"""
    import datetime
    try:
        text = str(value_class(prov)(style, v))
        sent = text
        if style in ('format', 'pyformat'):
            sent = py_fmt_subst(text)
            if sent is None: raise ValueError('the driver %%-step fails on %r' % text)
        got = read_literal(prov, kind, sent)
        if isinstance(v, datetime.timedelta) and prov == 'sqlite': ok = abs((got - v).total_seconds()) < 1e-5
        else: ok = got == v and type(got) is type(v)
    except Exception as e:
        text, got, ok = locals().get('text', '?'), 'EXC %s: %s' % (type(e).__name__, e), False
    if ok: return None
    return Failure('unlisted:literal:%s:%s' % (prov, kind), '%s, paramstyle %s: the %s value %r is rendered as %s, which reads as %r' % (prov, style, kind, v, text, got),
                   {'kind': 'literal', 'provider': prov, 'style': style, 'lkind': kind, 'value': enc_value(v)})


def enc_value(v):
    import datetime, decimal
    if v is None: return ['none']
    if isinstance(v, bool): return ['bool', v]
    if isinstance(v, datetime.datetime): return ['datetime', v.isoformat()]
    if isinstance(v, datetime.date): return ['date', v.isoformat()]
    if isinstance(v, datetime.timedelta): return ['timedelta', v.days, v.seconds, v.microseconds]
    if isinstance(v, decimal.Decimal): return ['decimal', str(v)]
    return [type(v).__name__, v]

def dec_value(e):
    import datetime, decimal
    k = e[0]
    if k == 'none': return None
    if k == 'datetime': return datetime.datetime.fromisoformat(e[1])
    if k == 'date': return datetime.date.fromisoformat(e[1])
    if k == 'timedelta': return datetime.timedelta(days=e[1], seconds=e[2], microseconds=e[3])
    if k == 'decimal': return decimal.Decimal(e[1])
    return {'int': int, 'float': float, 'bool': bool}[k](e[1])


def like_bs_case(prov, op, v, subjects):
    """real translator on a PostgreSQL / MySQL mock; the LIKE condition is judged with the documented default escape
    character (backslash) when Pony emits no ESCAPE clause"""
    py = OPS[op][0]
    node = like_ast(prov, op, True, v)
    pat = eval_pattern(node[2], v)
    esc = '!' if len(node) == 4 else '\\'
    subs = list(subjects) + [v, 'a' + v + 'b', 'a%', 'ab', '\\', 'a\\b']
    bad = [s for s in subs if py_like(esc, pat, s) != py(v, s)]
    if not bad: return None
    key = 'like-constant-backslash-default-escape-documentation-model' if (len(node) == 3 and '\\' in v) else 'unlisted:like-doc:%s:%s:%s' % (prov, op, classes(v))
    return Failure(key, '%s (documented LIKE rules, not executed): %s with the constant %r builds LIKE %r%s; for the subject %r that is %r, Python says %r' % (
        prov, op, v, pat, " ESCAPE '!'" if len(node) == 4 else ' (no ESCAPE: backslash is the escape character)', bad[0], py_like(esc, pat, bad[0]), py(v, bad[0])),
        {'kind': 'like_bs', 'provider': prov, 'op': op, 'v': v})


def replay(ctx, data):
    kind = data.get('kind')
    if kind == 'like_bs': return like_bs_case(data['provider'], data['op'], data['v'], ['', 'a', 'ab'])
    if kind == 'literal': return literal_case(data['provider'], data['style'], data['lkind'], dec_value(data['value']))
    if kind == 'e2e':
        populate(data['style'], strings(ctx, 0)[:70] + [data['v'], data['v'] + 'x', 'x' + data['v'], 'a' + data['v'] + 'b'])
        got, want, sql = e2e_query(data['style'], data['op'], data['const'], data['v'])
        return None if got == want else e2e_failure(data['style'], data['op'], data['const'], data['v'], got, want, sql)
    if kind == 'store':
        err = populate(data['style'], data['strs'])
        if err: return Failure('unlisted:e2e:%s:store:raises' % data['style'], 'storing strings through the ORM failed: %s' % err, data)
        from pony import orm
        with orm.db_session:
            back = {s for _, s in _rows(data['style'])}
        miss = [s for s in data['strs'] if s not in back]
        if not miss: return None
        return Failure('unlisted:e2e:%s:store:%s' % (data['style'], classes(''.join(miss))), 'strings stored through the ORM read back differently: %r' % miss, data)
    if kind == 'rerun':
        return rerun_case(data['style'], data['src'], data['g'], [tuple(h) for h in data['hist']], data['names'])
    if kind == 'ident': return ident_case(data['name'])
    if kind == 'mysql_literal': return mysql_literal_case(data['s'])
    if kind == 'ident_fmt':
        f = ident_fmt_case(data['provider'], data['name'])
        if f is None: return None
        # show that the statement Pony hands to the driver really carries an argument object next to such a name
        from pony import orm
        db = vlib.mock_database(data['provider'])
        E = type('E', (db.Entity,), {'val': orm.Optional(str, column=data['name'])})
        db.generate_mapping()
        with orm.db_session:
            orm.select(e.val for e in E)[:]
        if db.arguments is None: return None       # no %-step would happen
        try: sent = db.sql % db.arguments
        except Exception as e: sent = 'EXC %s' % type(e).__name__
        f.what += ' | e2e on the mock: sql=%r arguments=%r -> %r' % (db.sql, db.arguments, sent)
        return f
    if kind in ('bytes', 'mod'):
        s = search(ctx, False)
        for f in s.failures:
            if f.data.get('kind') == kind and f.data.get('style') == data.get('style'): return f
        return None
    raise ValueError('unknown replay payload %r' % (data,))


LEVEL_TEXT = ('Machine-checked proof (Coq 8.16.1), for all inputs: (1) every literal form Value.__str__ and SQLiteValue/MySQLValue/PGValue write reads back as the '
              'value supplied, under all five paramstyles incl. the driver\'s %-step: strings (all code points), bytes, None, bool, unbounded int, integer-valued '
              'float, Decimal in plain notation, DATE / TIMESTAMP / INTERVAL literals (MySQL units, SQLite plain texts and whole-day timedeltas), alone and in '
              'context; (2) quoted identifiers and dotted names round-trip; (3) LIKE conditions for in / startswith / endswith are true exactly for infix / prefix / '
              'suffix; (4) every placeholder is bound to the value of its own paramkey for every paramstyle and occurrence list; (5) with a tokeniser, the '
              'token-class sequence of the INSERT / UPDATE / DELETE / SELECT-by-key skeletons does not depend on the names and values plugged in; (6) a value '
              'rendered inline from a Python variable (string index / slice bound, getattr name) is the current run\'s value over every history of re-executions. '
              'All rendering functions are re-translated from /repo on every run; numbering/adapters and skeleton texts are compared with the real SQLBuilder. '
              'MySQL backslash literals, identifiers containing % under format styles and constant LIKE patterns with backslash are refuted by witnesses under '
              'documentation models and proved on the exact complement.')
LEVEL_NOTE = ('Trusted: Coq kernel + vm_compute; py2coq translators; correspondence harness; the receiving-side models (SQL literal/identifier lexer and LIKE validated '
              'against the linked SQLite; %-formatting validated against CPython; numeric / DATE / TIMESTAMP / INTERVAL literal readers, MySQL literal rules and PEP 249 '
              'binding from documentation); the C07 builder\'s reference models of isoformat / timedelta2str / timestamp parsing (compared with CPython in C07). '
              'Excluded: floats that are not integer-valued (repr of a binary float is not modelled; inf / nan are not SQL literals), Decimal in E-notation and the '
              'negative zero, SQLite timedelta literals that are not whole days (float division), statements other than the four skeletons for the tokeniser theorem '
              '(general queries: in-context lemmas only).')
TECHNIQUE = ('Coq proof by induction over strings / occurrence lists on a model regenerated from source by py2coq; vm_compute correspondence with the real '
             'classes (5 paramstyles x 4 providers); reference semantics validated against SQLite/CPython; end-to-end differential search on SQLite under '
             'all five paramstyles through a driver shim')
DESIGN_REF = 'DESIGN.md section 5, C06'
