"""C03 - Decompiling a generator or lambda preserves its meaning."""
import ast, glob, itertools, json, os, random, time
import vlib
import c03_lib as L
import c03_struct as S
import c03_model as M
import c03_cache as CK
from vlib import Corr, Search, Failure

ID = 'C03'
LEVEL = 'proof'
PROPS = ['Props/C03.v', 'Findings/C03.v']
GEN = [('Gen/C03CacheKey.v', CK.generate)]      # Tie A: does get_codeobject_id pin the code objects (read from /repo on every run)

# ------------------------------------------------------------------------------------------------ Coq batches

def run_bools(ctx, exprs, header=None, chunk=1500, name='cases'):
    """exprs: Coq bool terms.  Returns the indexes whose value is not `true` (computed by vm_compute inside coqc)."""
    if not exprs: return []
    chunks = []
    for i in range(0, len(exprs), chunk):
        chunks.append('Definition cases : list bool := [\n' + ';\n'.join(exprs[i:i + chunk]) + '].\nEval vm_compute in (failing cases).\n')
    outs = vlib.coq_eval_many(ctx, header or L.COQ_HEADER, chunks, name=name)
    bad = []
    for k, out in enumerate(outs):
        vals = vlib.parse_eval_outputs(out)
        assert len(vals) == 1, out[-500:]
        body = vals[0].strip()
        assert body.startswith('['), body
        inner = body.strip('[]').strip()
        if inner:
            for tok in inner.split(';'):
                bad.append(k * chunk + int(tok.strip().replace('%nat', '')))
    return bad


# ------------------------------------------------------------------------------------------------ case spaces

def boolean_families(ctx, deep):
    """(family, bexp) for the exhaustive part.  Every leaf is a distinct atom (most general instance)."""
    big = deep or ctx.thorough
    fams = []
    # F1: full fragment (and/or/not/if-else/==), a `not` allowed on every node and leaf
    for n in range(1, (4 if big else 3) + 1):
        for s in L.shapes(n, 1): fams.append(('full-not', L.fill(s)))
    # F2: full fragment without `not`, larger
    for n in range(1, (6 if big else 5) + 1):
        for s in L.shapes(n, 0): fams.append(('full', L.fill(s)))
    # F3: and/or/not only (the class of the round-trip theorem), larger still
    for n in range(1, (5 if big else 4) + 1):
        for s in L.shapes(n, 1, None, ('And', 'Or')): fams.append(('andornot', L.fill(s)))
    # F4: leaves decorated with `is None` / `is not None` / `!=` (POP_JUMP_IF_NONE paths)
    for n in range(1, (4 if big else 3) + 1):
        for s in L.shapes(n, 0, None, ('And', 'Or', 'If') if n < 4 else ('And', 'Or')):
            nl = n
            for deco in itertools.product((0, 1, 2, 3), repeat=nl):
                if not any(deco): continue
                if big is False and n == 3 and sum(1 for d in deco if d) > 2: continue
                def leaf(i, deco=deco):
                    d = deco[i]
                    if d == 0: return ('A', i)
                    if d == 1: return ('IsN', ('A', i))
                    if d == 2: return ('IsNN', ('A', i))
                    return ('N', ('IsN', ('A', i)))
                fams.append(('isnone', L.fill(s, None, leaf)))
    # F5: one leaf replaced by a constant of the domain (CPython folds jumps on constants)
    for n in range(1, (4 if big else 3) + 1):
        for s in L.shapes(n, 1 if n <= 2 else 0):
            for pos in range(n):
                for v in L.DOM:
                    def leaf(i, pos=pos, v=v):
                        if i == pos: return ('C', v)
                        return ('A', i if i < pos else i - 1)
                    fams.append(('const', L.fill(s, None, leaf)))
    seen, out = set(), []
    for fam, e in fams:
        k = L.key_tuple(e)
        if k in seen: continue
        seen.add(k); out.append((fam, e))
    return out


RICH_ATOMS = ['x.a', '(x.b > 1)', 'g(x)', 'x.c[0]', 'y', 'x.d.e', "(x.s < 'q')", '(x.n + 1)']

def random_bexp(rng, leaves, natoms, rich):
    """random expression with `leaves` leaves over `natoms` atoms (atoms repeat), occasional constants and is-None tests"""
    def leaf():
        r = rng.random()
        if r < 0.06: return ('C', rng.choice(L.DOM))
        a = ('A', rng.randrange(natoms))
        if r < 0.14: return (rng.choice(['IsN', 'IsNN']), a)
        return a
    def go(n, top):
        if n == 1:
            e = leaf()
        else:
            r = rng.random()
            if r < 0.62:
                op = rng.choice(['And', 'Or'])
                k = rng.randint(2, min(n, 4))
                cuts = sorted(rng.sample(range(1, n), k - 1))
                parts = [b - a for a, b in zip([0] + cuts, cuts + [n])]
                e = (op, [go(m, op) for m in parts])
            elif r < 0.80 and n >= 3:
                cuts = sorted(rng.sample(range(1, n), 2))
                parts = [cuts[0], cuts[1] - cuts[0], n - cuts[1]]
                e = ('If', go(parts[0], None), go(parts[1], None), go(parts[2], None))
            else:
                c = rng.randint(1, n - 1)
                e = (rng.choice(['Eq', 'Eq', 'Ne']), go(c, None), go(n - c, None))
        if rng.random() < 0.22: e = ('N', e)
        return e
    e = go(leaves, None)
    used = sorted(set(i for i in _atom_ids(e)))
    ren = {a: i for i, a in enumerate(used)}
    def rn(e):
        if e[0] == 'A': return ('A', ren[e[1]])
        return L.rebuild(e, [rn(k) for k in L.kids(e)])
    e = rn(e)
    atoms = None
    if rich:
        pool = list(RICH_ATOMS); rng.shuffle(pool)
        atoms = pool[:max(1, len(used))]
    return e, atoms


def _atom_ids(e):
    if e[0] == 'A': yield e[1]
    for k in L.kids(e):
        for i in _atom_ids(k): yield i


def atom_fn(atoms):
    if not atoms: return None
    return lambda i: atoms[i] if i < len(atoms) else '<new atom %d>' % i


def load_corpus():
    out = []
    for p in sorted(glob.glob(os.path.join(vlib.VERIF, 'corpus', 'C03', '*.json'))):
        try:
            j = json.load(open(p))
        except Exception:
            continue
        for item in (j if isinstance(j, list) else [j]):
            d = item.get('failure', item).get('data', item)
            if 'expr' in d and 'kind' in d: out.append(d)
    return out


def to_tuple(x):
    """JSON (lists) -> bexp tuples"""
    t = x[0]
    if t == 'A': return ('A', int(x[1]))
    if t == 'C': return ('C', {'False': False, 'True': True, 'None': None, 'x': 'x'}[str(x[1])] if not isinstance(x[1], bool) and x[1] is not None else x[1])
    if t in ('And', 'Or'): return (t, [to_tuple(k) for k in x[1]])
    return (t,) + tuple(to_tuple(k) for k in x[1:])


def to_json(e):
    t = e[0]
    if t == 'A': return ['A', e[1]]
    if t == 'C': return ['C', e[1]]
    if t in ('And', 'Or'): return [t, [to_json(k) for k in e[1]]]
    return [t] + [to_json(k) for k in e[1:]]


# ------------------------------------------------------------------------------------------------ the property oracle

_verdicts = {}        # (kind, key_tuple(e), atoms) -> Failure | None     (filled by search; replay() looks here first)
_status_cache = {}
_min_cache = {}


def judge(ctx, cases):
    """cases: list of dict(kind, e, atoms).  Runs the real decompiler on each and sends every (source, decompiled) pair
    through the verified checker in Coq.  Returns list of (status, e2_or_why) with status in
    ok | exc | malformed | wrong."""
    obs = []
    pairs, order = {}, []
    for c in cases:
        o = L.observe(c['e'], c['kind'], atom_fn(c.get('atoms')))
        obs.append(o)
        if o[0] == 'ok':
            mode = L.POSITIONS[c['kind']][1]
            k = (mode, L.key_tuple(c['e']), L.key_tuple(o[1]))
            if k not in pairs:
                pairs[k] = len(order)
                order.append('%s %s %s' % ('T' if mode == 'truth' else 'V', L.coq(c['e']), L.coq(o[1])))
    bad = set(run_bools(ctx, order, name='judge%d_' % len(order)))
    res = []
    for c, o in zip(cases, obs):
        if o[0] != 'ok':
            res.append(o); continue
        k = (L.POSITIONS[c['kind']][1], L.key_tuple(c['e']), L.key_tuple(o[1]))
        res.append(('wrong' if pairs[k] in bad else 'ok', o[1]))
    return res, len(order)


def describe(kind, e, st, e2, atoms=None):
    text = L.source_text(e, kind, atom_fn(atoms))
    if st == 'wrong':
        cex = L.py_equiv(e, e2, L.POSITIONS[kind][1] == 'truth')
        names = list(atoms or L.NAMES)
        at = '' if cex is None else ' (differs e.g. for %s)' % ', '.join('%s=%r' % (names[i] if i < len(names) else '<new atom %d>' % i, v) for i, v in enumerate(cex))
        return '%s: the expression is decompiled to `%s`%s' % (text, L.src(e2, 0, atom_fn(atoms)), at)
    return '%s: the decompiler returns a tree that is not an expression of this shape (%s)' % (text, e2)


_case_key = {}        # failing case -> finding key (filled by classify)


def classify(ctx, failing):
    """failing: list of (case, status, e2).  Minimise each with the real decompiler (Python-side evaluator), confirm the
    minimal inputs through Coq, group by key.  -> {key: (min_case, status, e2, count)}"""
    groups = {}
    minimal = {}
    # smallest inputs first; beyond a cap the remaining failing inputs are only counted (a mutated decompiler can fail on
    # hundreds of thousands of inputs, the classes are found among the small ones)
    order = sorted(range(len(failing)), key=lambda i: (L.size(failing[i][0]['e']), i))
    cap = 6000
    skipped = len(order) - cap if len(order) > cap else 0
    for c, st, e2 in [failing[i] for i in order[:cap]]:
        kind = c['kind']
        plain = c['e']            # atoms printed as plain names for the shrink when the input still fails that way ...
        m, matoms = None, None
        if L.status(plain, kind, _status_cache) in L.FAIL:
            m = L.minimise(plain, kind, L.FAIL, _status_cache, _min_cache)
            mst = L.status(m, kind, _status_cache)
        elif c.get('atoms') and L.status(plain, kind, _status_cache, c['atoms']) in L.FAIL:
            # ... otherwise with the original atoms (rich atoms change the bytecode, e.g. exit-block copying in a lambda)
            m = L.minimise(plain, kind, L.FAIL, _status_cache, _min_cache, c['atoms'])
            matoms = L.shrunk_atoms(c['atoms'], m)
            mst = L.status(m, kind, _status_cache, c['atoms'])
        if m is None:
            key = L.finding_key(kind, st + ':unminimised', c['e'])
            mc = c
        else:
            # the key is that of the minimal failing core: its position class, ITS failure kind, its defect family
            key = L.finding_key(kind, mst, m)
            mc = {'kind': kind, 'e': m, 'atoms': matoms}
        g = groups.setdefault(key, {'count': 0, 'best': None})
        g['count'] += 1
        _case_key[(kind, L.key_tuple(c['e']), tuple(c['atoms']) if c.get('atoms') else None)] = key
        cand = (L.size(mc['e']), -len(set(_atom_ids(mc['e']))), sorted(L.POSITIONS).index(mc['kind']), repr(L.key_tuple(mc['e'])))
        if g['best'] is None or cand < g['best'][0]:
            g['best'] = (cand, mc)
    # confirm the representatives through Coq
    reps = [g['best'][1] for g in groups.values()]
    res, _ = judge(ctx, reps)
    out = {}
    for (key, g), r in zip(groups.items(), res):
        mc = g['best'][1]
        st = key.split(':')[1]
        if r[0] != st:
            raise RuntimeError('classifier and Coq checker disagree on %s in %s: %s vs %s' % (L.src(mc['e']), mc['kind'], st, r[0]))
        out[key] = (mc, st, r[1], g['count'])
    return out


def mk_failure(key, mc, st, e2, count=None):
    what = describe(mc['kind'], mc['e'], st, e2, mc.get('atoms'))
    if count: what += ' [%d failing inputs of this class in this run]' % count
    return Failure(key, what, {'kind': mc['kind'], 'expr': to_json(mc['e']), 'atoms': mc.get('atoms'), 'status': st})


_struct_cache = {}

def struct_failure(text, st):
    m = S.shrink(text, st, _struct_cache)
    key = S.struct_key(m, st)
    r = S.check(m)
    if st == 'malformed': what = '%s: the decompiler returns a tree that is not a well-formed expression / generator' % m
    else: what = '%s: decompiled to a different tree `%s` (first difference at %s)' % (m, r[1][2], r[1][0])
    return Failure(key, what, {'kind': 'struct', 'text': m, 'status': st})


def search_struct(ctx, deep, dist):
    """non-boolean grammar: tree equality (after undoing CPython's constant rewriting) or an error"""
    rng = random.Random(ctx.rng.random())
    feats = {}
    texts = [('fixed', t) for t in S.FIXED_CASES]
    for d in load_corpus():
        if d.get('kind') == 'struct': texts.append(('corpus', d['text']))
    for k in vlib.known_for(ID):
        d = k.get('replay') or {}
        if d.get('kind') == 'struct': texts.append(('known', d['text']))
    n = 20000 if (deep or ctx.thorough) else 1500
    for i in range(n):
        texts.append(('random', S.random_query(rng, feats, rng.randint(1, 3))[1]))
    st_count, groups, nontriv = {}, {}, set()
    for fam, text in texts:
        st = S.status_of(text)
        st_count[st.split(':')[0]] = st_count.get(st.split(':')[0], 0) + 1
        if st == 'ok': nontriv.add(text)
        if st.startswith('wrong') or st == 'malformed':
            f = struct_failure(text, st)
            g = groups.setdefault(f.key, [0, f])
            g[0] += 1
            if (len(f.data['text']), f.data['text']) < (len(g[1].data['text']), g[1].data['text']): g[1] = f
        else:
            _verdicts[('struct', text, None)] = None
    failures = []
    for key in sorted(groups):
        cnt, f = groups[key]
        f.what += ' [%d failing inputs of this class in this run]' % cnt
        failures.append(f)
        _verdicts[('struct', f.data['text'], None)] = f
    dist['structural'] = {'status': st_count, 'failing_inputs_by_key': {k: v[0] for k, v in groups.items()},
                          'constructs_generated': len(feats), 'construct_counts': feats}
    return len(texts), failures, nontriv


CACHE_KEY = 'cache:stale-tree-after-address-reuse'


def run_sweep(n, start=0):
    r = vlib.run_impl('c03_cache_run.py', {'n': n, 'start': start})
    return r['objects'], r['trees'], r['fail'], r['stats']


def cache_failure(fail):
    what = ('decompile() of a freshly built, short-lived code object `%s` (object no. %d of a sequence, each dropped before the next is built) '
            'returned the tree of %s' % (fail['text'], fail['index'],
                                         'the earlier object no. %s' % fail['stale_from'] if fail.get('stale_from') is not None else 'another expression: %s' % fail['got'][:120]))
    return Failure(CACHE_KEY, what, {'kind': 'cache', 'n': fail['index'] + 1})


def search(ctx, deep):
    t0 = time.time()
    dist = {}
    # (0) the tree cache: many short-lived code objects in sequence, each compared with its own source
    n_sweep = 30000 if (deep or ctx.thorough) else 4000
    n_done, n_trees, cfail, cstats = run_sweep(n_sweep)
    dist['cache_sweep'] = dict(cstats, objects=n_done, trees=n_trees)
    cache_failures = [cache_failure(cfail)] if cfail else []
    cases = []
    for d in load_corpus():
        if d.get('kind') == 'struct': continue
        cases.append({'kind': d['kind'], 'e': to_tuple(d['expr']), 'atoms': d.get('atoms'), 'fam': 'corpus'})
    for k in vlib.known_for(ID):
        d = k.get('replay')
        if d and 'expr' in d and d.get('kind') != 'struct': cases.append({'kind': d['kind'], 'e': to_tuple(d['expr']), 'atoms': d.get('atoms'), 'fam': 'known'})
    fams = boolean_families(ctx, deep)
    # the largest size of every family (only generated in the thorough tier / the deep search after a broken run) goes to one
    # position per kind of context (first filter, element, lambda body, keyword argument); all smaller sizes use all seven positions
    top = {'andornot': 5, 'full': 6, 'full-not': 4, 'isnone': 4, 'const': 4}
    for fam, e in fams:
        few = deep and L.leaves(e) >= top.get(fam, 99)
        for kind in (('filter', 'elt', 'lambda', 'kwarg') if few else L.POSITIONS):
            cases.append({'kind': kind, 'e': e, 'atoms': None, 'fam': fam})
    n_exh = len(cases)
    # random beyond the bound
    rng = random.Random(ctx.rng.random())
    nrand = ctx.scale(400, 6000) if not deep else 6000
    for i in range(nrand):
        leaves = rng.randint(5, 9)
        e, atoms = random_bexp(rng, leaves, rng.randint(2, 6), rich=(i % 3 == 0))
        cases.append({'kind': rng.choice(sorted(L.POSITIONS)), 'e': e, 'atoms': atoms, 'fam': 'random'})
    res, npairs = judge(ctx, cases)
    nontriv = set()
    failing = []
    for c, r in zip(cases, res):
        dist.setdefault(c['fam'], {}).setdefault(r[0], 0)
        dist[c['fam']][r[0]] += 1
        ak = tuple(c['atoms']) if c.get('atoms') else None
        if r[0] in ('wrong', 'malformed'):
            failing.append((c, r[0], r[1]))
        else:
            _verdicts[(c['kind'], L.key_tuple(c['e']), ak)] = None
            if r[0] == 'ok' and c['e'][0] not in ('A', 'C'):
                nontriv.add((c['kind'], L.key_tuple(c['e']), ak))
    groups = classify(ctx, failing)
    failures = []
    bykey = {}
    for key in sorted(groups):
        mc, st, e2, count = groups[key]
        f = mk_failure(key, mc, st, e2, count)
        failures.append(f)
        bykey[key] = count
        _verdicts[(mc['kind'], L.key_tuple(mc['e']), tuple(mc['atoms']) if mc.get('atoms') else None)] = f
    byk = {f.key: f for f in failures}
    for ck, key in _case_key.items():
        if key in byk: _verdicts.setdefault(ck, byk[key])
    dist['failing_inputs_by_key'] = bykey
    dist['exhaustive_cases'] = n_exh
    dist['random_cases'] = nrand
    dist['pairs_checked_in_coq'] = npairs
    n_struct, struct_failures, struct_nontriv = search_struct(ctx, deep, dist)
    failures += struct_failures
    failures += cache_failures
    n_struct += n_done
    dist['seconds'] = round(time.time() - t0, 1)
    samples = [{'position': c['kind'], 'source': L.source_text(c['e'], c['kind'], atom_fn(c.get('atoms'))),
                'decompiled': L.src(r[1], 0, atom_fn(c.get('atoms'))) if r[0] in ('ok', 'wrong') else r[1], 'verdict': r[0]}
               for c, r in list(zip(cases, res))[n_exh - 3:n_exh + 3]]
    samples.append({'structural_case': S.FIXED_CASES[1], 'verdict': S.status_of(S.FIXED_CASES[1])})
    return Search(evaluations=len(cases) + n_struct, failures=failures, nontrivial=len(nontriv) + len(struct_nontriv), samples=samples,
                  distribution=dist, exhaustive=True)


def replay(ctx, data):
    kind = data['kind']
    if kind == 'cache':
        n_done, n_trees, cfail, cstats = run_sweep(int(data['n']))
        return cache_failure(cfail) if cfail else None
    if kind == 'struct':
        k = ('struct', data['text'], None)
        if k in _verdicts: return _verdicts[k]
        st = S.status_of(data['text'])
        if st.startswith('wrong') or st == 'malformed': return struct_failure(data['text'], st)
        return None
    e = to_tuple(data['expr'])
    atoms = data.get('atoms')
    k = (kind, L.key_tuple(e), tuple(atoms) if atoms else None)
    if k in _verdicts:
        return _verdicts[k]
    c = {'kind': kind, 'e': e, 'atoms': atoms}
    res, _ = judge(ctx, [c])
    st, e2 = res[0]
    if st not in ('wrong', 'malformed'): return None
    groups = classify(ctx, [(c, st, e2)])
    key = sorted(groups)[0]
    mc, st, e2, count = groups[key]
    return mk_failure(key, mc, st, e2)


# ------------------------------------------------------------------------------------------------ correspondence

def cval(v):
    return L.VAL_COQ[v]


def real_eval_table(e, n):
    """CPython's own evaluation of the source text of e under every assignment of atoms 0..n-1 over DOM,
    in the order of C03Bexp.envs (seq 0 n): atom 0 varies fastest."""
    code = compile(L.src(e), '<c03-eval>', 'eval')
    out = []
    for tup in itertools.product(L.DOM, repeat=n):
        env = {L.NAMES[i]: tup[n - 1 - i] for i in range(n)}
        v = eval(code, {'__builtins__': {}}, env)
        if not any(v is d or (isinstance(v, str) and v == d) for d in L.DOM):
            raise RuntimeError('value outside the domain: %r' % (v,))
        out.append((v, tuple(tup[n - 1 - i] for i in range(n))))
    return out


def correspondence(ctx):
    t0 = time.time()
    exprs, meta, disagreements = [], [], []
    dist = {'refsem_exprs': 0, 'refsem_rows': 0}
    nontrivial = set()
    # (1) reference semantics: C03Bexp.eval (Coq) and c03_lib.ev (classifier) vs CPython evaluating the source text
    sem_cases = []
    for n in range(1, 4):
        for s in L.shapes(n, 1): sem_cases.append(L.fill(s))
    for fam, e in boolean_families(ctx, False):
        if fam == 'isnone' and L.natoms(e) <= 3: sem_cases.append(e)
    rng = random.Random(ctx.rng.random())
    for i in range(ctx.scale(150, 1500)):
        e, _ = random_bexp(rng, rng.randint(3, 7), rng.randint(1, 4), rich=False)
        sem_cases.append(e)
    seen = set()
    for e in sem_cases:
        k = L.key_tuple(e)
        if k in seen: continue
        seen.add(k)
        n = L.natoms(e)
        rows = real_eval_table(e, n)
        for v, envt in rows:
            w = L.ev(e, envt)
            if w is not v and w != v:
                disagreements.append({'what': 'c03_lib.ev differs from CPython', 'input': L.src(e), 'env': list(envt), 'impl': repr(v), 'model': repr(w)})
                break
        exprs.append('vl_eqb (table_of %d %s) [%s]' % (n, L.coq(e), ';'.join(cval(v) for v, _ in rows)))
        meta.append(('refsem', L.src(e)))
        dist['refsem_exprs'] += 1; dist['refsem_rows'] += len(rows)
        if e[0] not in ('A', 'C'): nontrivial.add(k)
    bad = run_bools(ctx, exprs, name='corr')
    for i in bad[:20]:
        disagreements.append({'what': 'model and implementation differ (%s)' % meta[i][0], 'input': meta[i][1], 'coq_case': exprs[i][:1500]})
    n_ref = len(exprs)

    # (2) the model of Model/C03Decomp.v against CPython's compiler and Pony's Decompiler, at every tie point of DESIGN Appendix B
    t1 = time.time()
    texprs, tmeta = [], []
    dist.update({'model_cases': 0, 'model_outside_instruction_set': 0, 'model_in_compile_domain': 0,
                 'real_outcomes': {'tree': 0, 'exception': 0}})
    for fam, e, kinds in model_cases(ctx):
        in_dom_e = not (L.constructors(e) & {'Const'})
        for kind in kinds:
            try:
                o = M.observe(e, kind)
            except M.Unmodelled as u:
                dist['model_outside_instruction_set'] += 1
                if in_dom_e:      # with constants CPython folds jumps (plain JUMP_BACKWARD, RETURN_CONST, ...): expected, counted
                    disagreements.append({'what': 'real instruction stream or tree outside the modelled set: %s' % u, 'input': L.source_text(e, kind)})
                continue
            in_dom = in_dom_e and not (kind == 'lambda' and 'If' in L.constructors(e))
            if fam == 'dnf-family':
                # the theorem's family: beyond the ties, the REAL decompiler must return exactly the source
                dist['dnf_family_cases'] = dist.get('dnf_family_cases', 0) + 1
                want = M.ptree(ast.parse(L.src(e), mode='eval').body)
                if o['result'] != ('(XGen PVar [[%s]])' % want if kind == 'filter' else '(XGen %s [[]])' % want):
                    disagreements.append({'what': 'C03_andor_partial(_cnf) / C03_andor_depth3(_dual) / C03_ifexp_partial family: the real decompiler does not return the source', 'input': L.source_text(e, kind), 'impl': o['result']})
            if L.natoms(e) > 6:
                texprs.append('andb (compile_domain %s %s) (tie_noexec %s %s %s [%s] %d %s)' % (
                    M.POSITION[kind], L.coq(e), M.POSITION[kind], L.coq(e), M.coq_code(o['code']), ';'.join(map(str, o['orj'])), o['ce'], o['result']))
                tmeta.append((kind, e, o)); dist['model_cases'] += 1; dist['model_in_compile_domain'] += 1
                dist['real_outcomes']['exception' if o['exc'] else 'tree'] += 1
                if not o['exc']: nontrivial.add((kind, L.key_tuple(e)))
                continue
            texprs.append('%s (tie_all %s %d %s %s [%s] %d %s)' % (
                'andb (compile_domain %s %s)' % (M.POSITION[kind], L.coq(e)) if in_dom else 'andb (negb (compile_domain %s %s))' % (M.POSITION[kind], L.coq(e)),
                M.POSITION[kind], L.natoms(e), L.coq(e), M.coq_code(o['code']), ';'.join(map(str, o['orj'])), o['ce'], o['result']))
            tmeta.append((kind, e, o))
            dist['model_cases'] += 1
            dist['model_in_compile_domain'] += 1 if in_dom else 0
            dist['real_outcomes']['exception' if o['exc'] else 'tree'] += 1
            if not o['exc'] and e[0] not in ('A', 'C'): nontrivial.add((kind, L.key_tuple(e)))
    tbad = run_bools(ctx, texprs, header=M.COQ_HEADER, name='tie', chunk=1000)
    if tbad:
        # say which tie point differs (only the first few)
        for i in tbad[:8]:
            kind, e, o = tmeta[i]
            q = 'tie_parts %s %d %s %s [%s] %d %s' % (M.POSITION[kind], L.natoms(e) if L.natoms(e) <= 6 else 0, L.coq(e), M.coq_code(o['code']), ';'.join(map(str, o['orj'])), o['ce'], o['result'])
            out = vlib.parse_eval_outputs(vlib.coq_eval(ctx, M.COQ_HEADER + 'Eval vm_compute in (%s).\n' % q, name='tiedbg%d' % i))
            parts = out[0] if out else '?'
            names = ['compile vs dis', 'or_jumps/conditions_end', 'decompile vs Decompiler.ast', 'exec vs eval']
            flags = [x.strip() for x in parts.strip('[]').split(';')]
            which = [nm for nm, fl in zip(names, flags) if fl != 'true'] or ['compile_domain']
            disagreements.append({'what': 'model and implementation differ at: %s' % ', '.join(which), 'input': L.source_text(e, kind),
                                  'impl': {'instructions': M.coq_code(o['code']), 'or_jumps': o['orj'], 'conditions_end': o['ce'], 'result': o['result']}})
    # (3) the cache-key model: what the scanner read from the source against what a run shows
    try:
        sc = CK.scan()
        n_done, n_trees, cfail, cstats = run_sweep(600, start=10 ** 6)
        dist['cache_key'] = dict(cstats, pins_codeobjects=sc['pins'], registry=sc['registry'])
        observed_injective = cstats['addresses_reused'] == 0
        if sc['pins'] and not observed_injective:
            disagreements.append({'what': 'Gen/C03CacheKey.v says get_codeobject_id pins the code objects, but addresses were reused during a run', 'input': cstats})
        if sc['pins']:
            import pony.utils.utils as PU
            if not isinstance(getattr(PU, sc['registry'], None), dict):
                disagreements.append({'what': 'the registry dict named by the scanner does not exist in pony.utils.utils', 'input': sc})
        n_ref += 1
    except vlib.TranslateError as e:
        disagreements.append({'what': 'cache-key scanner refused: %s' % e, 'input': 'pony/utils/utils.py'})
    dist['seconds_model_ties'] = round(time.time() - t1, 1)
    dist['seconds'] = round(time.time() - t0, 1)
    samples = [{'coq_case': exprs[0][:400]}] if exprs else []
    if texprs: samples.append({'coq_case': texprs[len(texprs) // 2][:900]})
    return Corr(cases=n_ref + len(texprs), nontrivial=len(nontrivial), disagreements=disagreements, samples=samples, distribution=dist,
                note='every case is a boolean computed by vm_compute inside Coq from the model and the serialised implementation output; '
                     'a model case = compile vs dis stream, or_jumps/conditions_end, decompile_code vs Decompiler.ast, exec vs eval, for one expression at one position')


def dnf_family(rng, dual=False, depth3=False):
    """random instance of the families of C03_andor_partial(_cnf): an `or` of `and`s of literals (dual: an `and` of `or`s),
    up to 12 distinct atoms; depth3: the family of C03_andor_depth3 - an `or` of >= 2 alternatives, an alternative is a
    literal or an `and` of >= 2 conjuncts, a conjunct is a literal or an `or`-clause of >= 2 literals; depth3 + dual: the
    family of C03_andor_depth3_dual (and/or exchanged)"""
    nxt = [0]
    def atom():
        a = ('A', nxt[0]); nxt[0] += 1
        return a
    def lit():
        # the literal kinds of the theorem: a | not a | a == b | a != b | not a == b | not a != b | a is None | a is not None
        k = rng.randrange(10)
        if k < 4 or nxt[0] >= 10:
            a = atom()
            return ('N', a) if k % 2 else a
        if k < 6: return (rng.choice(['IsN', 'IsNN']), atom())
        a, b = atom(), atom()
        c = (rng.choice(['Eq', 'Ne']), a, b)
        return ('N', c) if k == 9 else c
    if depth3:
        while True:
            nxt[0] = 0
            budget = [rng.randint(4, 9)]
            def take(lo, hi):
                n = max(lo, min(hi, budget[0])); budget[0] -= n
                return n
            alts = []
            for _ in range(rng.randint(2, 4)):
                m = rng.choice([1, 2, 2, 3])
                if m == 1 or budget[0] < 2:
                    take(1, 1); alts.append(lit()); continue
                cs = []
                for _ in range(m):
                    w = take(1, rng.choice([1, 2, 2, 3]))
                    cs.append(lit() if w == 1 else ('Or', [lit() for _ in range(w)]))
                alts.append(('And', cs))
            if nxt[0] <= 12:
                if not dual: return ('Or', alts)
                # the family of C03_andor_depth3_dual: the same shape with `and` and `or` exchanged
                sw = {'Or': 'And', 'And': 'Or'}
                return ('And', [(sw[a[0]], [(sw[c[0]], c[1]) if c[0] in sw else c for c in a[1]]) if a[0] in sw else a for a in alts])
    inner, outer = ('Or', 'And') if dual else ('And', 'Or')
    m = rng.randint(1, 5)
    widths = [rng.randint(1, 4) for _ in range(m)]
    while sum(widths) > 7: widths[widths.index(max(widths))] -= 1
    widths = [w for w in widths if w > 0] or [1]
    m = len(widths)
    alts = []
    for w in widths:
        ls = [lit() for _ in range(w)]
        alts.append(ls[0] if w == 1 else (inner, ls))
    return alts[0] if m == 1 else (outer, alts)


def model_cases(ctx):
    """(family, expression, positions) for the model ties"""
    out = []
    big = ctx.thorough
    allpos = list(M.POSITION)
    for fam, e in boolean_families(ctx, big):
        n = L.leaves(e)
        if fam == 'full-not' and n <= (4 if big else 3): out.append((fam, e, allpos if n <= 3 else ['filter', 'elt', 'lambda']))
        elif fam == 'full' and n <= (5 if big else 4): out.append((fam, e, allpos))
        elif fam == 'andornot' and n <= (5 if big else 4):
            # the class of the round-trip theorem: every position up to 3 leaves, filter + lambda beyond (quick tier)
            out.append((fam, e, allpos if n <= 3 else (['filter', 'lambda'] if n == 4 and not big else (allpos if n == 4 else ['filter']))))
        elif fam == 'isnone' and n <= (3 if big else 2): out.append((fam, e, allpos))
        elif fam == 'const' and n <= (3 if big else 2): out.append((fam, e, allpos))
    rng = random.Random(ctx.rng.random())
    for i in range(ctx.scale(60, 1500)):
        e, _ = random_bexp(rng, rng.randint(4, 8), rng.randint(2, 5), rich=False)
        out.append(('random', e, allpos))
    seen = set()
    for i in range(ctx.scale(240, 4000)):
        e = dnf_family(rng, dual=(i % 2 == 1), depth3=(i % 4 >= 2))
        if L.key_tuple(e) in seen: continue
        seen.add(L.key_tuple(e))
        out.append(('dnf-family', e, ['filter']))
    for n in range(1, ctx.scale(9, 11)):
        # the family of C03_ifexp_partial: (xa if t1 and ... and tn else xb) in element position
        ts = [('A', i) for i in range(n)]
        out.append(('dnf-family', ('If', ts[0] if n == 1 else ('And', ts), ('A', n), ('A', n + 1)), ['elt']))
    return out


TRUSTED = [
    'the harness that turns Python `ast` trees and `dis` / Decompiler.instructions streams into Coq literals (tools/c03_lib.py, c03_model.py, c03_struct.py); '
    'atoms of the boolean fragment are maximal sub-expressions keyed by ast.dump',
    'value domain of the checker: atoms range over the four Python values False, True, None, \'x\' (two falsy, two truthy, both bools); equality on them is identity; '
    'evaluation has no side effects and raises nothing. C03Bexp.eval is compared with CPython evaluating the source text under every assignment on every run',
    'hand-written model coq/Model/C03Decomp.v (CPython 3.12 code generation for and/or/not/if-else/==/is None incl. jump threading and the IS_OP/UNARY_NOT peephole; Pony\'s '
    'get_instructions merge, analyze_jumps, conditional_jump_new, conditional_jump_none_impl, process_target, JUMP_FORWARD, simplify, RETURN_VALUE, YIELD_VALUE), compared with the real '
    '`dis` stream, Decompiler.instructions, or_jumps, conditions_end and Decompiler.ast at five positions on every run (Tie B); not modelled: compile-time constants, '
    'IfExp in a lambda body (exit-block copying), call-argument positions, everything outside the fragment',
    'non-boolean grammar: tree equality after a normalisation that undoes CPython\'s own constant rewriting (tuple/frozenset constants, -<literal>, in [..] -> in (..), '
    'one-piece f-strings, x[None:None], `if a if b` = `if a and b`, f(*a, k=v) = f(*a, **{\'k\': v})) - harness code, not verified',
    'classification of a failing input (shrinking with a Python mirror of eval) only chooses the finding key; the verdict on every input comes from the Coq checker',
    'cache-key scanner tools/c03_cache.py (recognises `D[id(code)] = code` into an otherwise untouched module-level dict and `ast_cache` keyed by get_codeobject_id; refuses anything else); '
    'memory model of Model/C03Cache.v: a new object never gets the address of a live one, nothing else is assumed about the allocator',
    '/venv/bin/python 3.12.1: the property is about this version\'s bytecode',
]
ASSUMPTIONS = [
    'an exception raised by the decompiler (any type) is a rejection and allowed by the statement',
    'meaning = value under every assignment of the free names (element, lambda body, call argument) resp. truth value (filter); order of evaluation, exceptions and side effects of operands are outside the model',
    'sub-expressions outside the boolean/jump fragment are compared as trees (no control flow inside them except comparison chains, which the decompiler rejects or mangles - recorded)',
    'CPython 3.12.1 only',
]
RULE = ('exhaustive: every expression shape over and/or/not/if-else/== (one distinct atom per leaf) up to 3 leaves with a `not` allowed on every node (4 in the thorough tier), up to 5 (6) leaves '
        'without `not`, and/or/not only up to 4 (5) leaves, leaves decorated with is None / is not None, one leaf replaced by each constant; each at 7 positions (the largest size of a family in the thorough tier: 4 positions) (filter of the first / first-of-two / '
        'second for-clause, element, lambda body, positional call argument, keyword argument); random beyond the bound (5-9 leaves, repeated atoms, constants, != , rich atoms); '
        'random + fixed queries over the non-boolean grammar; a sweep of 4000 (30000) short-lived lambdas/generators built with eval, decompiled and dropped one after the other, each compared with its own source. non-trivial = distinct (position, expression) with at least one operator on which the decompiler returned a tree, plus '
        'distinct model-tie cases where the real decompiler returned a tree; correspondence cases = reference-semantics tables + model ties')
LEVEL_TEXT = ('Machine-checked proofs (Coq 8.16.1, closed under the global context): (1) the ORACLE - a truth-table equivalence checker over a 4-valued Python value domain, sound and complete '
              'for any number of atoms (C03_checker_sound / _truth_sound / _complete); every output of the REAL decompiler is judged by it (vm_compute), exhaustively for all boolean-structure '
              'expressions up to the size bound at 7 positions and randomly beyond; the non-boolean grammar is checked by tree equality. (2) On an executable model of CPython 3.12 code generation + '
              'Pony\'s Decompiler, compared with the real bytecode, Decompiler.instructions, or_jumps, conditions_end and the final AST on every run (no disagreement on ~90k cases in the thorough tier): '
              'C03_compile_sound (exec of the compiled stream = eval for EVERY expression of the fragment incl. if-else, all 5 positions; C03_thread_sound: jump threading preserves exec of any stream); '
              'round trips decompile (compile e) = Some e for five unbounded families: C03_andor_depth3 (every `or` of >= 2 alternatives, each a literal or an `and` of conjuncts, each conjunct a literal '
              'or an `or`-clause of literals) and C03_andor_depth3_dual (the same with `and` and `or` exchanged); together C03_andor_depth_le3: forall e, alt_depth o 3 e = true -> decompile PFilter e = Some e - '
              'every alternating and/or nesting of depth <= 3 over literals, any widths, filter position; '
              'C03_andor_partial / _cnf ("or of ands" / "and of ors" of literals incl. the one-group cases; literals are a, not a, a == b, a != b, not a == b, a is (not) None) and C03_ifexp_partial '
              '((xa if t1 and ... and tn else xb) in element position); analyze_jumps is characterised for arbitrary streams (or_jumps_classified). '
              'NOT proved: nesting depth >= 4, `not` over a group, positions other than the filter. '
              'The full and/or/not round trip is REFUTED (6-operand and/or expression of depth 5: a stale targets[pos] limit in process_target; or_jumps is right there), as are most combinations of if-else and the '
              'constant operands: 19 recorded findings (key = position class x failure kind x defect family of the minimal failing core) with vm_compute witnesses in Findings/C03.v (the == operand class was repaired in /repo 145f804; the model follows the repaired code). '
              '(3) C03_cache_own_tree: decompile()\'s address-keyed tree cache returns every caller the tree of its own code object for all histories and allocator behaviours, '
              'as long as get_codeobject_id pins the objects - read from the source on every run (Gen/C03CacheKey.v) and exercised by a sweep of short-lived eval-built code objects.')
LEVEL_NOTE = ('Partial: the proof covers the checker and a sub-family of the round trip; the statement for the whole accepted grammar rests on exhaustive bounded + random validation of the real decompiler '
              'through the verified checker and on the correspondence of the model. Trusted: Coq kernel + vm_compute; the serialisation harness; the 4-valued domain as an abstraction of Python values; '
              'CPython 3.12.1 as the only bytecode version.')
TECHNIQUE = ('verified equivalence checker (truth table lifted by forallb_forall over all assignments, induction on the atom list); executable model of compiler + decompiler with vm_compute correspondence at '
             'every intermediate tie point; exhaustive small-scope + random differential search of the real decompiler through the checker; failure classification by shrinking')
DESIGN_REF = 'DESIGN.md section 5, C03; Appendix B'
