"""C12 - Both ends of every relationship stay consistent."""
import session_check as chk
import session_flags

ID = 'C12'
LEVEL = 'proof'
PROPS = ['Props/C12.v', 'Findings/C12.v']
GEN = [('Gen/SessionFlags.v', session_flags.generate)]     # Tie A: which shape three repaired / repairable pieces of core.py have (read from /repo on every run)
TRUSTED = [
    'hand-written model coq/Model/Session*.v of pony/orm/core.py (SessionCache indexes / objects_to_save, Attribute.__set__/db_set, '
    'Set/SetInstance, Entity.__init__/_delete_/set/_db_set_/_save_*, EntityMeta._find_in_cache_/_fetch_objects), Stage 1 schema space',
    'history fuzzer tools/session_fuzz.py / session_impl.py / session_coq.py / session_check.py: generator, handle table, canonical results, '
    'row dumps through a separate sqlite3 connection',
    'reference semantics of the SQLite tables Pony creates (coq/Model/SessionDb.v: PRIMARY KEY, UNIQUE, NOT NULL, REFERENCES with '
    'ON DELETE CASCADE / SET NULL, AUTOINCREMENT), validated by the row dumps and error classes of every run',
    'optimistic checks / rbits, query result cache, multiple concurrent sessions are not modelled (single writer)',
]
ASSUMPTIONS = [
    'Stage 1 schemas (wf_schema): single integer primary key, int/str attributes, unique scalars, many-to-one / one-to-many with Pony\'s default cascade_delete; '
    'one-to-one and many-to-many relationships and composite keys (Stage 2) are covered by the implementation-side oracles only (half of the search histories use them; the Coq model and the '
    'correspondence do not); composite primary keys and inheritance are not generated',
    'theorems hold for histories that reach no dirty site of the model (s_dirty = 0): sites 1-8 are known findings / legitimate partial failures of the code, '
    'sites 20-28 are assertion sites believed unreachable (a hit in the correspondence run is reported as a broken tie)',
    'steps the model declines (a deleted object used as a reference value, Entity.set mixing reference and collection arguments, insertion order that depends on '
    'Python set iteration) end the comparison of that history',
]
RULE = ('seeded generator of (schema, op list): 1-3 entities, 1-3 scalar attributes each, 1-3 relationships (search: also many-to-many, one-to-one, composite_key), 10-40 ops, ~85 % valid ops; '
        'non-trivial = at least three successful mutating ops; distinct = distinct canonical (schema, ops)')


def correspondence(ctx):
    import session_m2m
    return session_m2m.extend_corr(ctx, chk.correspondence(ctx, ID))


def _census(cases=None):
    """tools/c12_census.py: both ends agree (public API, before / after flush, after reload) for the relationship shapes the history fuzzer
    does not generate: composite primary keys containing relationships, self references, symmetric many-to-many / one-to-one, subclasses."""
    import vlib
    out = vlib.run_impl('c12_census.py', {'cases': cases}, timeout=600)['results']
    return [vlib.Failure('c12-census:' + r['case'], 'both ends disagree (%s): %s' % (r['case'], r['detail'][:600]), {'census_case': r['case']})
            for r in out if not r['ok']], len(out)


def _scenarios(cases=None):
    """tools/session_scenarios.py: fixed multi-step scenarios the history fuzzer does not generate (see its docstring)."""
    import vlib
    out = vlib.run_impl('session_scenarios.py', {'family': 'c12', 'cases': cases}, timeout=600)['results']
    return [vlib.Failure('c12-scenario:' + r['case'], 'the two ends of a many-to-many relationship disagree (%s): %s' % (r['case'], r['detail'][:700]), {'scenario_case': r['case']})
            for r in out if not r['ok']], len(out)


def search(ctx, deep):
    s = chk.search(ctx, deep, ID)
    fails, n = _census()
    fails2, n2 = _scenarios()
    s.failures = fails + fails2 + list(s.failures)
    s.evaluations += n + n2
    s.distribution['relationship_census_cases'] = n
    s.distribution['fixed_scenarios'] = n2
    return s


def replay(ctx, data):
    if 'scenario_case' in data:
        fails, _ = _scenarios([data['scenario_case']])
        return fails[0] if fails else None
    if 'census_case' in data:
        fails, _ = _census([data['census_case']])
        return fails[0] if fails else None
    return chk.replay(ctx, data, ID)


LEVEL_TEXT = ('Machine-checked proof (Coq 8.16.1) over the executable session model, Stage 1 schema space (many-to-one references with their one-to-many '
              'collections, default cascade rules): for every well-formed schema and EVERY operation history the both-ends invariant Inv_rel holds (a loaded reference '
              'points to an existing object of the target entity; a live object with b.ref = a is a member of a.coll; every member of a.coll is live and refers back), '
              'provided no dirty site was reached. The proof covers reference assignment from both sides (Attribute.__set__, SetInstance.add/remove, Set.__set__), '
              'creation with reference and collection arguments, Entity.set, cascade and unlinking delete, and loading rows (db_set / db_reverse_add) incl. seeds and '
              'partially loaded collections. One defect site has a witness (failed creation leaves a one-sided link) stated under the source-derived flag failed_create_unregisters: repaired in /repo by 751c8a4, vacuous on HEAD, recorded as fixed, as are the one-sided links after a refused delete / failing Entity.set with a collection argument (e3298c1); two further known findings lie in steps the '
              'model declines (Entity.set mixing reference and collection arguments; creation referring to a deleted object). One-to-one, many-to-many and symmetric '
              'relationships (Stage 2) are outside the theorems; they are covered on the implementation side only: many-to-many and one-to-one by the oracles of the history search, composite primary keys containing '
              'relationships, self references, symmetric relationships and subclasses by a fixed relationship census (tools/c12_census.py); membership probes (`x in a.coll`) on partially loaded many-to-many collections before and after the link is made or removed from the OTHER end (add, assignment, add/remove/add, add+flush, remove) must agree with the probe of the other end, iteration of both ends and a new session (tools/session_scenarios.py, family c12, 10 cases). Tie: as for C11; in addition the many-to-many link-set model coq/Model/SessionM2M.v (Stage 2 piece: both SetData views with added/removed, loads, add/remove/assignment, flush) is compared with real Pony + SQLite on generated histories on every run - every read of either side must agree -, which is a differential check of the both-ends behaviour for many-to-many, not a proof (no invariant is proved for that model).')
LEVEL_NOTE = ('Trusted: Coq kernel + vm_compute; the hand-written model (tied by differential runs only); the fuzzer harness; the SQLite reference semantics. '
              'The invariant speaks about the loaded view of collections (SetData items); agreement of a partially loaded collection with the database rows is part of C09/C10.')
TECHNIQUE = 'Coq inductive invariant over an executable session model (all histories, fold_left); vm_compute correspondence with real Pony+SQLite on generated histories; property-oracle search with ddmin shrinking'
DESIGN_REF = 'DESIGN.md section 5, C12 and Appendix A'
