"""C34 - Permission checks follow the declared access rules."""
import itertools, json
from concurrent.futures import ThreadPoolExecutor
import vlib
from vlib import Corr, Search, Failure
from py2coq import c34perm

ID = 'C34'
LEVEL = 'proof'
PROPS = ['Props/C34.v']       # no known finding left: Findings/C34.v was dropped with the has_perm repairs (02ae3a6)
GEN = [('Gen/C34Src.v', c34perm.generate)]
TRUSTED = [
    'hand-written model Model/C34Perm.v of has_perm (entity / attribute / object branches), can_view, can_edit and the object filter of Database.to_json, '
    'parametrised by four variation points of the source',
    'py2coq recogniser tools/py2coq/c34perm.py: pins the normalised source of has_perm, can_*, AccessRule.__init__/exclude and the three provider caches to the '
    'modelled shape on every run and reads the variation points, and reads from _commit_or_rollback on which paths the thread-local group / role caches are cleared (Gen/C34Src.v); any other change of has_perm is refused (fail-closed)',
    'exhaustive small-scope correspondence by vm_compute with the real API (set_perms_for / perm / exclude / has_perm / can_view / to_json) on a 2-entity model: '
    'all single rules, all pairs over a reduced rule universe, sampled triples; the iteration order of each _access_rules_ set is taken from the run; a second universe (Base <- Sub, Other, a hidden attribute) for declarations with inheritance; two-session histories for the cache lifetime',
    'the specification spec_* in Model/C34Perm.v is my reading of the statement (see ASSUMPTIONS)',
]
ASSUMPTIONS = [
    'specification of an attribute check: not hidden, the owning entity has at least one rule for the permission, and the attribute is granted by a rule of its own '
    'entity or - for a relationship - its reverse attribute is granted by a rule of the other entity; exclusions count on the side the rule belongs to',
    'entity-level checks ignore roles and labels of a rule (there is no object to evaluate them on) - taken as intended',
    'rule sets are lists in the iteration order of the Python set; the specification does not depend on that order',
    'providers (groups / roles / labels) are arbitrary functions; for the stability theorem they may change their answers between calls',
    'to_json: "includes an object" = the object appears in the `objects` section; a bare foreign-key value of an unviewable object is not counted',
]
RULE = ('every implementation run is judged twice - by the Coq model (correspondence) and by the statement-level oracle (search): `evaluations` counts both judgements, `distinct_nontrivial` counts each distinct run once. ' 'exhaustive: every single rule over {context entities} x {permissions} x {groups} x {roles} x {labels} x {excluded entities} x {excluded attributes} of a 2-entity '
        'model (4608 rule sets; 2112 in the quick tier: no edit-only rules, at most two excluded attributes), every unordered pair over a reduced universe, seeded random triples; 720 histories across two sessions of one thread (check; session ends with commit or exception; the groups / roles of the user change; check); declarations over a second universe with a subclass and a hidden attribute (all single declarations, seeded pairs); per rule set the full table user x permission x target '
        '(2 entities, 4 attributes, 4 objects) of has_perm, can_view, to_json of single objects and to_json with include=[relationship] (related object already loaded / loaded by to_json itself). non-trivial = the table contains both granted and refused cells; '
        'distinct = distinct rule sets')

ENTS = [0, 1]
ATTRS = [0, 1, 2, 3]
ATTR_ENT = {0: 0, 1: 0, 2: 1, 3: 1}
ATTR_REV = {1: 3, 3: 1}
OBJ_ENT = {0: 0, 1: 0, 2: 1, 3: 1}
PERMS = ['view', 'edit']
GROUPS_OF = {0: set(), 1: set(), 2: {'g1'}}
ROLES = {(1, 0), (2, 1), (2, 2)}
LABELS = {0, 3}
TNAMES = ['A', 'B', 'A.name', 'A.bs', 'B.title', 'B.a', 'a1', 'a2', 'b1', 'b2']


def subsets(xs):
    out = []
    for r in range(len(xs) + 1):
        out += [list(c) for c in itertools.combinations(xs, r)]
    return out


def mk(ctx, perms, groups=(), roles=(), labels=(), exclE=(), exclA=()):
    return {'ctx': list(ctx), 'perms': list(perms), 'groups': list(groups), 'roles': list(roles), 'labels': list(labels),
            'exclE': list(exclE), 'exclA': list(exclA)}


def single_rules(all_perms=True):
    for ctx in ([0], [1], [0, 1]):
        for perms in ((['view'], ['edit'], ['view', 'edit']) if all_perms else (['view'], ['view', 'edit'])):
            for g in ([], ['g1']):
                for ro in ([], ['r1']):
                    for lb in ([], ['l1']):
                        for xe in subsets(ENTS):
                            for xa in subsets(ATTRS):
                                if not all_perms and len(xa) > 2: continue       # quick tier: at most two excluded attributes
                                yield mk(ctx, perms, g, ro, lb, xe, xa)


def reduced_universe(full=True):
    out = []
    for ctx in ([0], [1]):
        for g in ([], ['g1']):
            for xe in (([], [0], [1]) if full else ([], [0])):
                for xa in (([], [0], [1], [3]) if full else ([], [1], [3])):
                    out.append(mk(ctx, ['view'], g, [], [], xe, xa))
    for g in ([], ['g1']):
        for ro in ([], ['r1']):
            for lb in ([], ['l1']):
                for xe in ([], [0]):
                    if not full and g and lb: continue
                    out.append(mk([0], ['view'], g, ro, lb, xe, []))
    return out


def rulesets(ctx, deep=False):
    out = [[r] for r in single_rules(all_perms=ctx.thorough or deep)]      # quick tier: 'edit' alone is left out (same code path as 'view' alone)
    U = reduced_universe(full=ctx.thorough or deep)
    for i in range(len(U)):
        for j in range(i, len(U)):
            out.append([U[i], U[j]])
    rng = ctx.rng
    S = list(single_rules())
    n3 = ctx.scale(300, 8000) if not deep else ctx.scale(3000, 20000)
    for _ in range(n3):
        k = rng.choice([2, 3, 3, 4])
        out.append([dict(S[rng.randrange(len(S))]) for _ in range(k)])
    return out


def run_rulesets(ctx, rsets, procs=4, mode='table', extra=None):
    chunks = [rsets[i::procs] for i in range(procs)]
    def one(ch):
        if not ch: return {'results': []}
        p = {'rulesets': ch, 'mode': mode}
        if extra: p.update(extra)
        return vlib.run_impl('c34_driver.py', p, timeout=1200)
    with ThreadPoolExecutor(max_workers=procs) as ex:
        outs = list(ex.map(one, chunks))
    res = [None] * len(rsets)
    for i, o in enumerate(outs):
        for j, r in enumerate(o['results']): res[i + j * procs] = r
    return res


def session_cases(ctx):
    R1 = [[mk([0], ['view'], ['g1'])], [mk([0, 1], ['view'], ['g1'])], [mk([0], ['view'], [], ['r1'])], [mk([0], ['view'], ['g1'], ['r1'])], [mk([0], ['view'])]]
    out = []
    for rules in R1:
        for user in (1, 2):
            for target in (0, 2, 6, 7):
                for end1 in ('ok', 'raise'):
                    for g0, g1 in ((False, True), (True, False), (True, True)):
                        for r0, r1 in ((False, False), (False, True), (True, False)):
                            out.append({'rules': rules, 'user': user, 'target': target, 'perm': 'view', 'end1': end1, 'g0': g0, 'g1': g1, 'r0': r0, 'r1': r1})
    return out


def inherit_cases(ctx):
    """declarations over Base <- Sub, Other (view only): context x groups x excluded entities x excluded attributes, singles and pairs"""
    singles = []
    for c in ([0], [1], [2], [0, 2], [1, 2]):
        for g in ([], ['g1']):
            for xe in ([], [0], [1], [2], [0, 2]):
                for xa in ([], [0], [2]):
                    singles.append({'ctx': c, 'groups': g, 'exclE': xe, 'exclA': xa})
    out = [[d] for d in singles]
    rng = ctx.rng
    for _ in range(ctx.scale(150, 1500)):
        out.append([singles[rng.randrange(len(singles))], singles[rng.randrange(len(singles))]])
    return out


def run_inherit(ctx, decls):
    return vlib.run_impl('c34_driver.py', {'mode': 'inherit', 'decls': decls, 'rulesets': []}, timeout=600)['results']


def inherit_expr(decls, table):
    ds = c_list('D %s %s %s %s' % (c_nats(d['ctx']), c_nats([0] + [GID[g] for g in d['groups']]), c_nats(d['exclE']), c_nats(d['exclA'])) for d in decls)
    return 'bools_eqb (inherit_table %s) %s' % (ds, c_bools(table))


SUBS3 = {0: [1], 1: [], 2: []}
ATTR_ENT3 = {0: 0, 1: 0, 2: 2}
INAMES = ['Base', 'Sub', 'Other', 'Base.name', 'Base.secret(hidden)', 'Other.title', 'base1', 'sub1', 'other1']

def inherit_spec(decls, u, kind, i):
    """statement-level: a rule declared for an entity applies to it and its subclasses; exclude(E) covers E's subclasses; hidden attributes are never granted"""
    G = {'g1'} if u == 2 else set()
    def applies(d, e): return any(e == c or e in SUBS3[c] for c in d['ctx'])
    def excluded(d, e): return any(e == x or e in SUBS3[x] for x in d['exclE'])
    ok = lambda d, e: applies(d, e) and set(d['groups']) <= G and not excluded(d, e)
    if kind in ('E', 'O'): return any(ok(d, i) for d in decls)
    if i == 1: return False
    e = ATTR_ENT3[i]
    return any(ok(d, e) and i not in d['exclA'] for d in decls)

ITARGETS = [('E', 0), ('E', 1), ('E', 2), ('A', 0), ('A', 1), ('A', 2), ('O', 0), ('O', 1), ('O', 2)]

def inherit_failures(cases, res):
    fails, seen = [], {}
    for decls, r in zip(cases, res):
        k = 0
        for u in (0, 2):
            for ti, (kind, i) in enumerate(ITARGETS):
                got = r['table'][k]; k += 1
                want = inherit_spec(decls, u, kind, i)
                if got != want:
                    what = 'hidden-attribute-granted' if (kind == 'A' and i == 1) else ('subclass' if i == 1 and kind in ('E', 'O') else 'other')
                    key = 'inheritance:%s:%s' % (what, 'granted-not-declared' if got else 'declared-not-granted')
                    seen[key] = seen.get(key, 0) + 1
                    if seen[key] == 1: fails.append(Failure(key, 'has_perm(user %d, view, %s) = %s, the declarations say %s; declarations %s'
                                                            % (u, INAMES[ti], got, want, json.dumps(decls)), {'inherit_case': decls, 'key': key}))
    return fails, seen


def run_sessions(ctx, cases):
    return vlib.run_impl('c34_driver.py', {'mode': 'sessions', 'cases': cases, 'rulesets': []}, timeout=600)['results']


def static_order(rules):
    """order table for rule sets whose entity/permission sets hold a single rule (iteration order is then irrelevant)"""
    out = {}
    for k, r in enumerate(rules):
        for e in r['ctx']:
            for p in r['perms']: out.setdefault('%d,%s' % (e, p), []).append(k)
    return out


def session_expr(case, answers):
    g = lambda b: '[0; 1]' if b else '[0]'
    x = '(nth %d targets (TEntity 0))' % case['target']
    return 'bools_eqb (history_now %s %s %s %s %s [HCheck 0 0 %s; HEnd %s; HCheck 1 0 %s]) %s' % (
        c_rtable(case['rules'], static_order(case['rules'])), g(case['g0']), g(case['g1']), 'true' if case['r0'] else 'false',
        'true' if case['r1'] else 'false', x, 'true' if case['end1'] == 'ok' else 'false', x, c_bools(answers))


def session_failures(cases, res):
    fails, seen = [], {}
    for case, r in zip(cases, res):
        kind, i = TARGETS[case['target']]
        order = static_order(case['rules'])
        for when, (gk, rk) in enumerate((('g0', 'r0'), ('g1', 'r1'))):
            want = spec(case['rules'], order, case['user'], 'view', kind, i, groups={'g1'} if case[gk] else set(), role=case[rk])
            got = r['answers'][when]
            if got != want:
                if when == 1:
                    changed = 'groups' if case['g0'] != case['g1'] else ('roles' if case['r0'] != case['r1'] else 'nothing')
                    key = 'sessions:answer-from-stale-%s-after-session-ended-with-%s' % (changed, 'commit' if case['end1'] == 'ok' else 'rollback')
                else:
                    key = 'sessions:first-check-wrong'
                seen[key] = seen.get(key, 0) + 1
                if seen[key] == 1:
                    fails.append(Failure(key, 'session %d: has_perm(user %d, view, %s) = %s but with the user\'s current groups %s / role %s the declared rules say %s; '
                                              'previous session ended with %s; rules %s' % (when + 1, case['user'], TNAMES[case['target']], got,
                                              ['g1'] if case[gk] else [], case[rk], want, case['end1'], json.dumps(case['rules'])),
                                         {'session_case': case, 'key': key}))
    return fails, seen


_cache = {}
_counted = set()      # result sets whose non-trivial cases were already counted by correspondence()

def get_results(ctx, deep=False):
    key = (ctx.seed, ctx.tier, deep)
    if key not in _cache:
        rs = rulesets(ctx, deep)
        _cache[key] = (rs, run_rulesets(ctx, rs))
    return _cache[key]


# ------------------------------------------------------------------------------------------------ Coq serialisation

GID = {'g1': 1}
def c_list(xs): return '[' + '; '.join(xs) + ']'
def c_nats(xs): return c_list(str(x) for x in xs)

def c_rule(r):
    return 'R %s %s %s %s %s' % (c_nats([0] + [GID[g] for g in r['groups']]), c_nats([1] if r['roles'] else []), c_nats([1] if r['labels'] else []),
                                 c_nats(r['exclE']), c_nats(r['exclA']))

def c_rtable(rules, order):
    rows = []
    for key, idxs in sorted(order.items()):
        e, p = key.split(',')
        rows.append('(%s, %d, %s)' % (e, PERMS.index(p), c_list(c_rule(rules[i]) for i in idxs)))
    return c_list(rows)

def c_bools(bs): return c_list('true' if b else 'false' for b in bs)

def pack(bs):
    n = 0
    for k, b in enumerate(bs):
        if b: n |= 1 << k
    return n

def hp_cells(table):
    """the has_perm cells of the full table (per user: 20 has_perm, 10 can_view, 4 to_json, 4 + 4 to_json with include)"""
    out = []
    for u in range(3): out += table[u * PER_USER: u * PER_USER + 20]
    return out

PER_USER = 48
RELATED = {0: 2, 1: 3, 2: 0, 3: 1}

HEADER = ('From Coq Require Import List Bool Arith NArith.\nImport ListNotations.\n'
          'Require Import PonyV.Model.C34Perm PonyV.Gen.C34Src PonyV.Model.C34Obs.\n')


def run_bools(ctx, exprs, chunk=1000):
    chunks = []
    for i in range(0, len(exprs), chunk):
        chunks.append('Definition cases : list bool := [\n' + ';\n'.join(exprs[i:i + chunk]) + '].\nEval vm_compute in (failing cases).\n')
    outs = vlib.coq_eval_many(ctx, HEADER, chunks, name='c34cases')
    bad = []
    for k, out in enumerate(outs):
        vals = vlib.parse_eval_outputs(out)
        assert len(vals) == 1, out[-500:]
        inner = vals[0].strip().strip('[]').strip()
        if inner:
            for tok in inner.split(';'): bad.append(k * chunk + int(tok.strip().replace('%nat', '')))
    return bad


def correspondence(ctx):
    rs, res = get_results(ctx, False)
    _counted.add((ctx.seed, ctx.tier, False))
    exprs, meta, disagreements = [], [], []
    nontriv = set()
    dist = {'single': 0, 'pair': 0, 'multi': 0}
    for rules, r in zip(rs, res):
        dist['single' if len(rules) == 1 else ('pair' if len(rules) == 2 else 'multi')] += 1
        # every rule set: all has_perm cells; every 3rd rule set: the full table (can_view, to_json and to_json-with-include columns as well)
        if len(exprs) % 3 == 0:
            exprs.append('same_full %s %d%%N' % (c_rtable(rules, r['order']), pack(r['table'])))
        else:
            exprs.append('same_hp %s %d%%N' % (c_rtable(rules, r['order']), pack(hp_cells(r['table']))))
        meta.append((rules, r))
        if any(r['table']) and not all(r['table']): nontriv.add(json.dumps(rules, sort_keys=True))
    scases = session_cases(ctx)
    sres = run_sessions(ctx, scases)
    _cache['sessions'] = (scases, sres)
    dist['sessions'] = len(scases)
    n_tables = len(exprs)
    for case, r in zip(scases, sres):
        exprs.append(session_expr(case, r['answers'])); meta.append((case, r))
    icases = inherit_cases(ctx)
    ires = run_inherit(ctx, icases)
    _cache['inherit'] = (icases, ires)
    dist['inheritance'] = len(icases)
    n_sessions_end = len(exprs)
    for decls, r in zip(icases, ires):
        exprs.append(inherit_expr(decls, r['table'])); meta.append((decls, r))
    bad = run_bools(ctx, exprs)
    for i in bad[:10]:
        if i >= n_sessions_end:
            decls, r = meta[i]
            disagreements.append({'what': 'model and implementation differ on declarations with inheritance / hidden attributes', 'input': decls, 'impl': r, 'coq_case': exprs[i][:1500]})
            continue
        if i >= n_tables:
            case, r = meta[i]
            disagreements.append({'what': 'model and implementation differ on a history across sessions', 'input': case, 'impl': r, 'coq_case': exprs[i][:1500]})
            continue
        rules, r = meta[i]
        disagreements.append({'what': 'model and implementation tables differ', 'input': rules, 'impl': {'order': r['order'], 'table': r['table']},
                              'coq_case': exprs[i][:2000]})
    # repeated checks inside one session agree although every provider changes its answers
    st_sets = [rs[k] for k in range(0, len(rs), max(1, len(rs) // 40))][:40]
    st = run_rulesets(ctx, st_sets, procs=2, mode='stable')
    dist['stable'] = len(st_sets)
    for rules, r in zip(st_sets, st):
        for u in r['stable']:
            if not u['again_equal']:
                disagreements.append({'what': 'repeated has_perm calls inside one db_session gave different answers', 'input': rules, 'impl': u})
    samples = []
    for (rules, r), e in zip(meta, exprs):
        if len(rules) == 2 and any(r['table']) and not all(r['table']):
            samples.append({'rules': rules, 'iteration_order': r['order'], 'table_rows': 'user x (view, edit, can_view) x ' + ' '.join(TNAMES) + ' ; to_json a1 a2 b1 b2',
                            'table': ''.join('1' if b else '0' for b in r['table']), 'coq_case': e[:500]})
            break
    return Corr(cases=len(exprs) + len(st_sets), nontrivial=len(nontriv), disagreements=disagreements, samples=samples, distribution=dist,
                note='one boolean per rule set, computed by vm_compute inside Coq: the whole table (3 users x (2 permissions + can_view) x 10 targets + to_json of 4 objects, alone and with the related object pulled in through include) '
                     'of the model, with the variation points read from the source, equals the table of the real API')


# ------------------------------------------------------------------------------------------------ search: the specification as oracle

def rules_for(rules, order, e, p):
    return [rules[i] for i in order.get('%d,%s' % (e, p), [])]

def spec(rules, order, u, p, kind, i, groups=None, role=None):
    """groups / role: what the providers say NOW (default: the static universe of the table run)"""
    G = GROUPS_OF[u] if groups is None else groups
    groups_ok = lambda r, u_: set(r['groups']) <= G
    has_role = (lambda o: (u, o) in ROLES) if role is None else (lambda o: role)
    if kind == 'E':
        return any(groups_ok(r, u) and i not in r['exclE'] for r in rules_for(rules, order, i, p))
    if kind == 'O':
        e = OBJ_ENT[i]
        return any(groups_ok(r, u) and (not r['roles'] or has_role(i)) and (not r['labels'] or i in LABELS) and e not in r['exclE']
                   for r in rules_for(rules, order, e, p))
    e = ATTR_ENT[i]
    own = rules_for(rules, order, e, p)
    if not own: return False
    if any(groups_ok(r, u) and e not in r['exclE'] and i not in r['exclA'] for r in own): return True
    rv = ATTR_REV.get(i)
    if rv is None: return False
    re_ = ATTR_ENT[rv]
    return any(groups_ok(r, u) and re_ not in r['exclE'] and rv not in r['exclA'] for r in rules_for(rules, order, re_, p))

TARGETS = [('E', 0), ('E', 1), ('A', 0), ('A', 1), ('A', 2), ('A', 3), ('O', 0), ('O', 1), ('O', 2), ('O', 3)]


def classify(rules, order, u, p, kind, i, got, want):
    """finding key of one wrong cell"""
    if kind == 'O':
        if got and not want and any(OBJ_ENT[i] in r['exclE'] for r in rules_for(rules, order, OBJ_ENT[i], p)):
            return 'object:entity-exclusion-ignored'
        return 'object:unlisted:%s' % ('granted-not-declared' if got else 'declared-not-granted')
    if kind == 'E':
        return 'entity:unlisted:%s' % ('granted-not-declared' if got else 'declared-not-granted')
    rv = ATTR_REV.get(i)
    if rv is None:
        return 'attribute-without-reverse:unlisted:%s' % ('granted-not-declared' if got else 'declared-not-granted')
    rrules = rules_for(rules, order, ATTR_ENT[rv], p)
    if not rrules:
        # only the own side has rules: the result must be "some own rule grants"; the implementation answers with the first rule only
        return 'relationship-attribute:reverse-entity-has-no-rules:%s' % ('granted-not-declared' if got else 'first-rule-decides-not-any-rule')
    if got and not want: return 'relationship-attribute:granted-though-excluded-and-reverse-side-does-not-grant'
    return 'relationship-attribute:grant-of-reverse-side-not-honoured'


def failures_of(rs, res):
    fails, seen = [], {}
    for rules, r in zip(rs, res):
        t = r['table']; order = r['order']
        k = 0
        for u in range(3):
            rows = {}
            for p in PERMS:
                for kind, i in TARGETS:
                    got = t[k]; k += 1
                    want = spec(rules, order, u, p, kind, i)
                    rows[(p, kind, i)] = (got, want)
                    if got != want:
                        key = classify(rules, order, u, p, kind, i, got, want)
                        seen[key] = seen.get(key, 0) + 1
                        if seen[key] == 1:
                            fails.append(Failure(key, 'has_perm(user %d, %r, %s) = %s but the declared rules say %s; rules %s, iteration order %s'
                                                 % (u, p, TNAMES[TARGETS.index((kind, i))], got, want, json.dumps(rules), json.dumps(order)),
                                                 {'rules': rules, 'key': key, 'order': order}))
            for kind, i in TARGETS:
                got = t[k]; k += 1
                g2 = rows[('view', kind, i)][0] or rows[('edit', kind, i)][0]
                if got != g2:
                    key = 'can_view:differs-from-view-or-edit'
                    seen[key] = seen.get(key, 0) + 1
                    if seen[key] == 1: fails.append(Failure(key, 'can_view(user %d, %s) = %s but has_perm view/edit = %s' % (u, TNAMES[TARGETS.index((kind, i))], got, g2),
                                                            {'rules': rules, 'key': key, 'order': order}))
            for o in range(4):
                got = t[k]; k += 1
                cvo = rows[('view', 'O', o)][0] or rows[('edit', 'O', o)][0]
                if got != cvo:
                    key = 'to_json:differs-from-can_view'
                    seen[key] = seen.get(key, 0) + 1
                    if seen[key] == 1: fails.append(Failure(key, 'to_json for user %d %s %s although can_view says %s' % (u, 'serialises' if got else 'refuses', TNAMES[6 + o], cvo),
                                                            {'rules': rules, 'key': key, 'order': order}))
                want = spec(rules, order, u, 'view', 'O', o) or spec(rules, order, u, 'edit', 'O', o)
                if got and not want:
                    ent_excl = any(OBJ_ENT[o] in r_['exclE'] for p in PERMS for r_ in rules_for(rules, order, OBJ_ENT[o], p))
                    key = 'to_json:serialises-object-of-excluded-entity' if ent_excl else 'to_json:unlisted:serialises-unviewable-object'
                    seen[key] = seen.get(key, 0) + 1
                    if seen[key] == 1: fails.append(Failure(key, 'to_json for user %d serialises %s which the declared rules do not let him view; rules %s'
                                                            % (u, TNAMES[6 + o], json.dumps(rules)), {'rules': rules, 'key': key, 'order': order}))
            for variant in ('already-loaded', 'loaded-by-to_json'):
                for o in range(4):
                    got = t[k]; k += 1
                    rel = RELATED[o]
                    cv_impl = lambda i: rows[('view', 'O', i)][0] or rows[('edit', 'O', i)][0]
                    cv_spec = lambda i: spec(rules, order, u, 'view', 'O', i) or spec(rules, order, u, 'edit', 'O', i)
                    key = None
                    if got and not (cv_spec(o) and cv_spec(rel)):
                        who = 'related' if cv_spec(o) else 'top'
                        key = 'to_json:include:serialises-unviewable-%s-object:%s' % (who, variant)
                        what = ('to_json([%s], include=[relationship]) for user %d serialises %s together with %s, which the declared rules do not let him view (related object %s)'
                                % (TNAMES[6 + o], u, TNAMES[6 + o], TNAMES[6 + rel], variant))
                    elif got != (cv_impl(o) and cv_impl(rel)):
                        key = 'to_json:include:differs-from-can_view:%s' % variant
                        what = ('to_json([%s], include=[relationship]) for user %d %s although can_view(%s)=%s and can_view(%s)=%s'
                                % (TNAMES[6 + o], u, 'serialises' if got else 'refuses', TNAMES[6 + o], cv_impl(o), TNAMES[6 + rel], cv_impl(rel)))
                    if key:
                        seen[key] = seen.get(key, 0) + 1
                        if seen[key] == 1: fails.append(Failure(key, what + '; rules %s' % json.dumps(rules), {'rules': rules, 'key': key, 'order': order}))
            # schema section: entity / attribute listed iff the specification lets the user view it (both sides for a relationship)
            cvs = lambda kind, i: spec(rules, order, u, 'view', kind, i) or spec(rules, order, u, 'edit', kind, i)
            for ci, (kind, i) in enumerate([('E', 0), ('E', 1), ('A', 0), ('A', 1), ('A', 2), ('A', 3)]):
                got = t[k]; k += 1
                if kind == 'E': want = cvs('E', i)
                else:
                    want = cvs('E', ATTR_ENT[i]) and cvs('A', i)
                    rv = ATTR_REV.get(i)
                    if rv is not None: want = want and cvs('E', ATTR_ENT[rv]) and cvs('A', rv)
                if got != want:
                    key = 'to_json:schema:%s-%s' % ('entity' if kind == 'E' else 'attribute', 'listed-though-not-viewable' if got else 'missing-though-viewable')
                    seen[key] = seen.get(key, 0) + 1
                    if seen[key] == 1: fails.append(Failure(key, 'schema section for user %d: %s listed=%s, the declared rules say %s; rules %s'
                                                            % (u, TNAMES[ci], got, want, json.dumps(rules)), {'rules': rules, 'key': key, 'order': order}))
        assert k == len(t), (k, len(t))
    return fails, seen


def search(ctx, deep):
    rs, res = get_results(ctx, deep)
    fails, seen = failures_of(rs, res)
    if 'sessions' not in _cache:
        sc = session_cases(ctx); _cache['sessions'] = (sc, run_sessions(ctx, sc))
    sf, sseen = session_failures(*_cache['sessions'])
    fails += sf; seen.update(sseen)
    if 'inherit' not in _cache:
        ic = inherit_cases(ctx); _cache['inherit'] = (ic, run_inherit(ctx, ic))
    jf, jseen = inherit_failures(*_cache['inherit'])
    fails += jf; seen.update(jseen)
    nt = set(json.dumps(r, sort_keys=True) for r, x in zip(rs, res) if any(x['table']) and not all(x['table']))
    if (ctx.seed, ctx.tier, deep) in _counted: nt = set()      # same executions as the correspondence run: count distinct cases once
    return Search(evaluations=len(rs), failures=fails, nontrivial=len(nt), exhaustive=True,
                  distribution={'rule_sets': len(rs), 'cells_per_rule_set': len(res[0]['table']), 'wrong_cells_by_key': seen},
                  samples=[{'rules': rs[len(rs) // 2], 'order': res[len(rs) // 2]['order']}])


def replay(ctx, data):
    if 'inherit_case' in data:
        decls = data['inherit_case']
        fails, _ = inherit_failures([decls], run_inherit(ctx, [decls]))
        for f in fails:
            if data.get('key') is None or f.key == data['key']: return f
        return None
    if 'session_case' in data:
        case = data['session_case']
        fails, _ = session_failures([case], run_sessions(ctx, [case]))
        for f in fails:
            if data.get('key') is None or f.key == data['key']: return f
        return None
    rules = data['rules']
    want_key = data.get('key')
    if data.get('want_order'):
        res = run_rulesets(ctx, [rules], procs=1, mode='order', extra={'want_order': data['want_order'], 'order_key': data['order_key']})
        if res[0].get('order') is None: return None
    else:
        res = run_rulesets(ctx, [rules], procs=1)
    fails, _ = failures_of([rules], res)
    for f in fails:
        if want_key is None or f.key == want_key: return f
    return None


LEVEL_TEXT = ('Machine-checked proof (Coq 8.16.1) over an executable model of has_perm: for all schemas, rule sets (in any iteration order), users, objects and providers '
              'has_perm equals the specification written from the statement - entity, attribute (relationship attributes with exclusions on either side) and object branch; '
              'can_view = view or edit; to_json includes only objects the specification lets the user view and refuses exactly otherwise; repeated checks in a session are stable '
              'under changing providers. The model carries the three decision-relevant variation points of the source as parameters; their values are re-read from /repo on every '
              'run (the repaired spellings are required by the property theorems) and the whole decision table is compared with the real API exhaustively in a small scope.')
LEVEL_NOTE = ('Also proved and tied: the schema section of to_json, to_json with include, declarations with entity inheritance and hidden attributes, the cross-session lifetime of the provider caches. Trusted: Coq kernel + vm_compute; the hand-written model (tied by exhaustive small-scope correspondence and by the source recogniser, not by translation); my '
              'reading of the statement for attribute checks (either side of a relationship may grant). Not modelled: create/delete permissions (same code path as view/edit), the attribute-level exclude option of to_json.')
TECHNIQUE = 'Coq proof (induction over rule lists and check histories) against a directly written specification; source recogniser; exhaustive small-scope vm_compute correspondence with the real API; specification-level oracle search'
DESIGN_REF = 'DESIGN.md section 5, C34'
