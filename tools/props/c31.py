"""C31 - Serialised and pickled objects reflect current state and round-trip."""
import itertools, json
import vlib
from vlib import Corr, Search, Failure
from py2coq import reducepk
import c31_impl as I

ID = 'C31'
LEVEL = 'proof'
PROPS = ['Props/C31.v']
GEN = [('Gen/C31Reduce.v', reducepk.generate)]
TRUSTED = [
    'py2coq translator tools/py2coq/reducepk.py: Bag._reduce_composite_pk is re-translated from /repo on every run (accepted only as SEP.join(str(item).replace(c, s)... for item in pk) '
    'with one-character search strings); its output is compared with the real function on every generated key',
    'key parts are modelled by their str() images (lists of code points); that str() is injective on the values of one key column (int, str) is assumed, not proved',
    'hand-written model Model/C31Bag.v of the traversal of Bag.to_dict/_process_object (which given object ends up with / without its collections), tied by correspondence on generated '
    'object graphs with the real iteration order of bag.objects',
    'whether Entity.to_dict / Bag.to_dict flush the whole session first is scanned from source (Gen/C31Reduce.v); the key model Model/C31Flush.v is tied by correspondence on '
    'scenarios with pending members of cached collections',
    'hand-written model Model/C31Pickle.v of Entity.__reduce__ / unpickle_entity / _db_set_(unpickling=True) / QueryResult state / unpickle_setwrapper, tied by correspondence with real '
    'pickle round trips across sessions (status at pickling time x database changed in between x object already loaded in the unpickling session; one-to-many and many-to-many wrappers)',
    'to_dict / to_json values are checked by differential search against a Python shadow of the session state (no theorem)',
]
ASSUMPTIONS = [
    'composite keys have at least one part (Pony: at least two); the empty list and the list holding one empty string share the key "" (stated as reduce_empty_collision)',
    'search model: entity A (automatic key), B (composite key of two strings, optional reference to A), C (composite key = reference to B + int); states = committed rows plus pending '
    'attribute changes, new objects and deletions in the serialising session; pickling is judged on committed, unmodified objects (Pony refuses to pickle modified ones)',
    'lazy attributes, inheritance, Decimal/date columns, EntityProxy and the permission filter of Database.to_json (every entity is viewable by anybody in the check) are outside the check',
]
RULE = ('correspondence: every tuple of 1..3 key parts over the strings of length <= 2 (<= 1 for triples) of the alphabet {",", "*", "\\\\", "a"} plus seeded longer keys over a wider alphabet '
        '(quotes, space, non-ASCII) and ints; str.replace/join reference cases; Bag traversal marks on seeded object graphs. search: seeded scenarios (1-3 A, 1-4 B with adversarial key parts, '
        '0-2 C each, 0-3 pending modifications, a shuffled subset of objects given) + one scenario with all 36 key pairs over six colliding-looking parts. '
        'non-trivial = key contains an escape or separator character / scenario has pending modifications or more than one given object; distinct = distinct canonical inputs')

HEADER = 'Require Import PonyV.Base.PyBase PonyV.Model.C31Codec PonyV.Gen.C31Reduce PonyV.Model.C31Bag PonyV.Model.C31Flush PonyV.Model.C31Pickle PonyV.Model.C31ToJson.\nOpen Scope Z_scope.\n'

def czs(s):
    return '[' + '; '.join(str(ord(c)) for c in s) + ']' if s else '(@nil Z)'

def czss(parts):
    return '[' + '; '.join(czs(p) for p in parts) + ']'


def run_bools(ctx, exprs, chunk=1000):
    chunks = []
    for i in range(0, len(exprs), chunk):
        part = exprs[i:i + chunk]
        chunks.append('Definition cases : list bool := [\n' + ';\n'.join(part) + '].\nEval vm_compute in (failing cases).\n')
    outs = vlib.coq_eval_many(ctx, HEADER, chunks)
    bad = []
    for k, out in enumerate(outs):
        vals = vlib.parse_eval_outputs(out)
        assert len(vals) == 1, out[-500:]
        inner = vals[0].strip().strip('[]').strip()
        if inner:
            for tok in inner.split(';'):
                bad.append(k * chunk + int(tok.strip().replace('%nat', '')))
    return bad


ALPHA = [',', '*', '\\', 'a']
WIDE = [',', '*', '\\', 'a', 'b', ' ', "'", '"', 'é', '€', '%', '\n']
PARTS = ['a', 'b', ',', '*', '\\', 'a,b', 'c', 'b,c', 'a*', ',c', '*,c', '**', '*,', ',*', 'a\\', '\\,', ',,', 'x y', "'", '"', 'é']

def strings_upto(n, alpha=ALPHA):
    out = ['']
    for k in range(1, n + 1):
        out += [''.join(t) for t in itertools.product(alpha, repeat=k)]
    return out


def key_space(ctx):
    keys = []
    keys += [(s,) for s in strings_upto(3)]
    keys += list(itertools.product(strings_upto(2), repeat=2))
    keys += list(itertools.product(strings_upto(1), repeat=3))
    rng = ctx.rng
    for _ in range(ctx.scale(400, 6000)):
        n = rng.randint(1, 4)
        keys.append(tuple(''.join(rng.choice(WIDE) for _ in range(rng.randint(0, 6))) if rng.random() < 0.85 else rng.randint(-50, 10 ** 6) for _ in range(n)))
    return keys


def real_reduce(pk):
    from pony.orm.serialization import Bag
    return Bag._reduce_composite_pk(None, pk)


# ------------------------------------------------------------------------------------------------ scenarios

def gen_scenario(rng):
    na = rng.randint(1, 3)
    a = [[rng.choice(['x', 'y,z', 'w*']), rng.choice([None, 0, 5])] for _ in range(na)]
    keys = set()
    while len(keys) < rng.randint(1, 4): keys.add((rng.choice(PARTS), rng.choice(PARTS)))
    b = [[k1, k2, rng.choice([None] + list(range(na))), rng.choice([None, 1, 2])] for k1, k2 in sorted(keys)]
    c = []
    for bi in range(len(b)):
        for idx in range(rng.randint(0, 2)): c.append([bi, idx, rng.choice(['', 'n', 'a,b'])])
    mods = []
    for _ in range(rng.randint(0, 3)):
        t = rng.choice(['set_n', 'set_val', 'set_a', 'set_note', 'new_a', 'new_b', 'new_c', 'del_c'])
        if t == 'set_n': mods.append([t, rng.randrange(na), rng.choice([None, 7, 8])])
        elif t == 'set_val': mods.append([t, rng.randrange(len(b)), rng.choice([None, 9])])
        elif t == 'set_a': mods.append([t, rng.randrange(len(b)), rng.choice([None] + list(range(na)))])
        elif t == 'set_note' and c:
            ci = rng.randrange(len(c))
            if not any(m[0] == 'del_c' and m[1] == ci for m in mods): mods.append([t, ci, rng.choice(['', 'zz'])])
        elif t == 'new_a': mods.append([t, 'new'])
        elif t == 'new_b':
            k = (rng.choice(PARTS), rng.choice(PARTS))
            if k not in keys and not any(m[0] == 'new_b' and (m[1], m[2]) == k for m in mods): mods.append([t, k[0], k[1], rng.choice([None] + list(range(na)))])
        elif t == 'new_c':
            mods.append([t, rng.randrange(len(b)), 10 + len(mods), 'nn'])
        elif t == 'del_c' and c:
            ci = rng.randrange(len(c))
            if not any(m[0] in ('del_c', 'set_note') and m[1] == ci for m in mods): mods.append([t, ci])
    n_a = na + sum(1 for m in mods if m[0] == 'new_a'); n_b = len(b) + sum(1 for m in mods if m[0] == 'new_b'); n_c = len(c) + sum(1 for m in mods if m[0] == 'new_c')
    pool = [['a', i] for i in range(n_a)] + [['b', i] for i in range(n_b)] + [['c', i] for i in range(n_c)]
    rng.shuffle(pool)
    given = pool[:rng.randint(1, len(pool))]
    return {'a': a, 'b': b, 'c': c, 'mods': mods, 'given': given}


def all_pairs_scenario():
    parts = ['a', 'a,b', 'b', 'a*', ',b', '*,b']
    b = [[k1, k2, None, i] for i, (k1, k2) in enumerate(itertools.product(parts, repeat=2))]
    return {'a': [['x', 1]], 'b': b, 'c': [[i, 0, ''] for i in range(0, len(b), 5)], 'mods': [], 'given': [['b', i] for i in range(len(b))]}



# ------------------------------------------------------------------------------------------------ pending members of cached collections

PENDING_FIXED = [
    {'groups': 2, 'courses': 2, 'students': [[0, [0]]], 'preload': [['g', 0]], 'mods': [['new_s', 0, []]], 'probe': [['g', 0]], 'related_objects': False},
    {'groups': 2, 'courses': 2, 'students': [[0, [0]]], 'preload': [['g', 1]], 'mods': [['new_s', 1, []]], 'probe': [['g', 1]], 'related_objects': False},
    {'groups': 2, 'courses': 2, 'students': [[0, [0]]], 'preload': [['k', 1]], 'mods': [['new_s', None, [1]]], 'probe': [['k', 1]], 'related_objects': False},
    {'groups': 2, 'courses': 2, 'students': [[0, [0]]], 'preload': [], 'mods': [['new_s', 0, []], ['new_k', [1]]], 'probe': [['s', 1]], 'related_objects': False},
    {'groups': 2, 'courses': 2, 'students': [[0, [0]]], 'preload': [['g', 0]], 'mods': [['new_s', 0, []]], 'probe': [['g', 0]], 'related_objects': True},
    {'groups': 1, 'courses': 1, 'students': [], 'preload': [], 'mods': [['new_g'], ['new_s', 1, [0]], ['new_s', 1, []]], 'probe': [['g', 1], ['k', 0]], 'related_objects': False},
    {'groups': 2, 'courses': 1, 'students': [[0, []], [1, [0]]], 'preload': [['g', 0], ['g', 1], ['k', 0]], 'mods': [['move_s', 1, 0], ['new_s', 1, [0]], ['enroll', 0, 0]],
     'probe': [['g', 0], ['g', 1], ['k', 0], ['s', 2]], 'related_objects': False},
]

def gen_pending(rng):
    n_g, n_k = rng.randint(1, 3), rng.randint(1, 3)
    studs = [[rng.choice([None] + list(range(n_g))), sorted(rng.sample(range(n_k), rng.randint(0, n_k)))] for _ in range(rng.randint(0, 3))]
    pool = [['g', i] for i in range(n_g)] + [['k', i] for i in range(n_k)] + [['s', i] for i in range(len(studs))]
    preload = [list(x) for x in rng.sample(pool, rng.randint(0, len(pool)))]
    mods, ns, ng, nk = [], len(studs), n_g, n_k
    for _ in range(rng.randint(1, 4)):
        t = rng.choice(['new_s', 'new_s', 'new_k', 'new_g', 'move_s', 'enroll'])
        if t == 'new_s': mods.append([t, rng.choice([None] + list(range(ng))), sorted(rng.sample(range(nk), rng.randint(0, min(nk, 2))))]); ns += 1
        elif t == 'new_k' and ns: mods.append([t, sorted(rng.sample(range(ns), rng.randint(0, min(ns, 2))))]); nk += 1
        elif t == 'new_g': mods.append([t]); ng += 1
        elif t == 'move_s' and ns: mods.append([t, rng.randrange(ns), rng.choice([None] + list(range(ng)))])
        elif t == 'enroll' and ns: mods.append([t, rng.randrange(ns), rng.randrange(nk)])
    pool = [['g', i] for i in range(ng)] + [['k', i] for i in range(nk)] + [['s', i] for i in range(ns)]
    probe = [list(x) for x in rng.sample(pool, rng.randint(1, len(pool)))]
    return {'groups': n_g, 'courses': n_k, 'students': studs, 'preload': preload, 'mods': mods, 'probe': probe, 'related_objects': rng.random() < 0.3}


def gen_to_json(rng):
    sc = gen_pending(rng)
    sc['include'] = [n for n in I.INCLUDABLE if rng.random() < 0.5]
    sc['schema'] = rng.choice(['none', 'none', 'full', 'hash'])
    drop = rng.random() < 0.6                                  # mostly without pending inserts
    mods, ns, ng, nk = [], len(sc['students']), sc['groups'], sc['courses']
    for m in sc['mods']:
        t = m[0]
        if drop and t in ('new_s', 'new_k'): continue
        if t == 'new_s':
            if (m[1] is not None and m[1] >= ng) or any(c >= nk for c in m[2]): continue
            ns += 1
        elif t == 'new_k':
            if any(x >= ns for x in m[1]): continue
            nk += 1
        elif t == 'new_g': ng += 1
        elif t == 'move_s':
            if m[1] >= ns or (m[2] is not None and m[2] >= ng): continue
        elif t == 'enroll':
            if m[1] >= ns or m[2] >= nk: continue
        mods.append(m)
    sc['mods'] = mods
    n_g = sc['groups'] + sum(1 for m in sc['mods'] if m[0] == 'new_g'); n_k = sc['courses'] + sum(1 for m in sc['mods'] if m[0] == 'new_k')
    n_s = len(sc['students']) + sum(1 for m in sc['mods'] if m[0] == 'new_s')
    sc['probe'] = [p for p in sc['probe'] if p[1] < {'g': n_g, 'k': n_k, 's': n_s}[p[0]]] or [['g', 0]]
    return sc

TO_JSON_FIXED = [
    dict(groups=2, courses=2, students=[[0, [0, 1]], [0, [0]]], preload=[], mods=[['new_s', 1, []]], probe=[['s', 2], ['g', 1]], include=['G.students'], schema='none'),
    dict(groups=1, courses=1, students=[], preload=[['g', 0], ['k', 0]], mods=[['new_s', None, []], ['new_s', 0, [0]]], probe=[['s', 0], ['s', 1], ['k', 0]], include=['K.students', 'S.group'], schema='full'),
    dict(groups=2, courses=2, students=[[0, [0, 1]], [0, [0]]], preload=[], mods=[], probe=[['s', 0]], include=[], schema='none'),
    dict(groups=2, courses=2, students=[[0, [0, 1]], [0, [0]]], preload=[], mods=[], probe=[['g', 0]], include=['G.students', 'S.courses', 'K.students'], schema='full'),
    dict(groups=2, courses=2, students=[[0, [0, 1]], [0, [0]]], preload=[], mods=[], probe=[['s', 1], ['g', 1]], include=['S.group'], schema='hash'),
    dict(groups=2, courses=2, students=[[0, [0, 1]], [0, [0]]], preload=[], mods=[['move_s', 1, 1], ['enroll', 1, 1]], probe=[['g', 0], ['g', 1]], include=['G.students', 'S.courses'], schema='none'),
]


def pending_members(sc):
    """Run a pending-members scenario and return, per probed collection: member numbers (in order of their final keys), their keys
    before to_dict (None = pending), the keys the database assigns, and the list the real to_dict reported."""
    from pony import orm
    db, G, S, K = I.make_db2()
    studs = [{'group': g, 'courses': set(cs)} for g, cs in sc['students']]
    n_g, n_k = sc['groups'], sc['courses']
    with orm.db_session:
        gobj = [G(number=i + 1) for i in range(n_g)]
        kobj = [K(name='k%d' % (i + 1)) for i in range(n_k)]
        orm.flush()
        for i, st in enumerate(studs):
            S(name='s%d' % (i + 1), group=None if st['group'] is None else gobj[st['group']], courses=[kobj[c] for c in sorted(st['courses'])]); orm.flush()
    out = []
    try:
        with orm.db_session:
            gobj = [G[i + 1] for i in range(n_g)]; kobj = [K[i + 1] for i in range(n_k)]; sobj = [S[i + 1] for i in range(len(studs))]
            pick = lambda kind, i: {'g': gobj, 'k': kobj, 's': sobj}[kind][i]
            for kind, i in sc.get('preload', []): pick(kind, i).to_dict(with_collections=True)
            old_s, old_k = len(sobj), len(kobj)
            for m in sc.get('mods', []):
                t = m[0]
                if t == 'new_s':
                    studs.append({'group': m[1], 'courses': set(m[2])}); sobj.append(S(name='n', group=None if m[1] is None else gobj[m[1]], courses=[kobj[c] for c in m[2]]))
                elif t == 'new_k':
                    kobj.append(K(name='k', students=[sobj[x] for x in m[1]]))
                    for x in m[1]: studs[x]['courses'].add(len(kobj) - 1)
                elif t == 'new_g': gobj.append(G(number=len(gobj) + 1))
                elif t == 'move_s': sobj[m[1]].group = None if m[2] is None else gobj[m[2]]; studs[m[1]]['group'] = m[2]
                elif t == 'enroll': sobj[m[1]].courses.add(kobj[m[2]]); studs[m[1]]['courses'].add(m[2])
            for kind, i in sc['probe']:
                if kind == 'g': members, base, attr = [x for x in range(len(studs)) if studs[x]['group'] == i], old_s, 'students'
                elif kind == 'k': members, base, attr = [x for x in range(len(studs)) if i in studs[x]['courses']], old_s, 'students'
                else: members, base, attr = sorted(studs[i]['courses']), old_k, 'courses'
                pks = {o: (o + 1 if o < base else None) for o in members}
                assign = {o: o + 1 for o in members}
                try: real = pick(kind, i).to_dict(with_collections=True)[attr]
                except Exception: continue
                out.append((members, pks, assign, list(real), [kind, i, attr]))
                break           # the first to_dict flushes: later probes of this session see no pending objects
            orm.rollback()
    except Exception:
        return None
    return out


def bag_marks(sc):
    """Real Bag on the committed objects of a scenario (no pending changes): iteration order of bag.objects, relations, and
    which objects were stored with / without their collections."""
    from pony import orm
    from pony.orm.serialization import Bag
    db, A, B, C = I.make_db()
    with orm.db_session:
        aobj = [A(name=n, n=v) for n, v in sc['a']]
        orm.flush()
        bobj = [B(k1=k1, k2=k2, a=None if ai is None else aobj[ai], val=v) for k1, k2, ai, v in sc['b']]
        cobj = [C(b=bobj[bi], idx=idx, note=note) for bi, idx, note in sc['c']]
    with orm.db_session:
        aobj = [A[i + 1] for i in range(len(sc['a']))]
        bobj = [B[k1, k2] for k1, k2, _, _ in sc['b']]
        cobj = [C[bobj[bi], idx] for bi, idx, _ in sc['c']]
        allobj = aobj + bobj + cobj
        num = {o: i for i, o in enumerate(allobj)}
        given = [{'a': aobj, 'b': bobj, 'c': cobj}[k][i] for k, i in sc['given'] if not (k == 'a' and i >= len(aobj)) and not (k == 'b' and i >= len(bobj)) and not (k == 'c' and i >= len(cobj))]
        if not given: return None
        bag = Bag(db)
        bag.put(given)
        order = [num[o] for e in bag.objects for o in bag.objects[e]]
        rel = {}
        for o in allobj:
            if isinstance(o, A): rel[num[o]] = [num[x] for x in o.bs]
            elif isinstance(o, B): rel[num[o]] = ([num[o.a]] if o.a is not None else []) + [num[x] for x in o.cs]
            else: rel[num[o]] = [num[o.b]]
        d = bag.to_dict()
        marks = {}
        for o in allobj:
            ename = type(o).__name__
            key = o.id if ename == 'A' else I.py_reduce(o._get_raw_pkval_())
            got = d.get(ename, {}).get(key)
            if got is None: marks[num[o]] = None
            elif ename == 'A': marks[num[o]] = 'Full' if 'bs' in got else 'Partial'
            elif ename == 'B': marks[num[o]] = 'Full' if 'cs' in got else 'Partial'
            else: marks[num[o]] = 'Any'
        return order, rel, marks


# ------------------------------------------------------------------------------------------------ correspondence

def correspondence(ctx):
    exprs, meta = [], []
    dist = {}
    disagreements, samples = [], []
    nontrivial = set()
    def add(kind, expr, inp, impl, nt=True):
        exprs.append(expr); meta.append((kind, inp, impl)); dist[kind] = dist.get(kind, 0) + 1
        if nt: nontrivial.add(kind + ':' + json.dumps(inp, sort_keys=True, default=str))

    # (1) the encoder: translated model vs the real function; the decoder reads the real output back
    seen = {}
    for pk in key_space(ctx):
        real = real_reduce(pk)
        parts = [str(p) for p in pk]
        add('reduce', 'zs_eqb (reduce_composite_pk %s) %s && zss_eqb (decode %s) %s' % (czss(parts), czs(real), czs(real), czss(parts)), list(pk), real,
            nt=any(ch in p for p in parts for ch in ',*'))
        if I.py_decode(real) != parts:
            disagreements.append({'what': 'the reference decoder does not read the real key back', 'input': list(pk), 'impl': real})
        prev = seen.setdefault(real, tuple(parts))
        if prev != tuple(parts):
            disagreements.append({'what': 'two different keys are encoded alike by the real function', 'input': [list(prev), parts], 'impl': real})
    samples.append({'pk': ['a*', ',c'], 'impl': real_reduce(('a*', ',c')), 'pk2': ['a', '*,c'], 'impl2': real_reduce(('a', '*,c'))})

    # (2) reference semantics of str.replace (one-character pattern) and str.join
    rng = ctx.rng
    for s in strings_upto(3):
        for c, by in ((',', '*,'), ('*', '**'), ('a', ''), ('\\', 'xy')):
            add('replace', 'zs_eqb (replace1 %d %s %s) %s' % (ord(c), czs(by), czs(s), czs(s.replace(c, by))), [s, c, by], None, nt=False)
    for _ in range(ctx.scale(100, 800)):
        parts = [''.join(rng.choice(ALPHA) for _ in range(rng.randint(0, 3))) for _ in range(rng.randint(0, 4))]
        sep = rng.choice([',', '', '::'])
        add('join', 'zs_eqb (join %s %s) %s' % (czs(sep), czss(parts) if parts else '(@nil (list Z))', czs(sep.join(parts))), [sep, parts], None, nt=False)

    # (3) traversal of Bag.to_dict: which objects are stored with their collections
    n_tr = 0
    scs = [{'a': [['x', 1]], 'b': [['k', 'l', 0, 1]], 'c': [[0, 1, 'n']], 'mods': [], 'given': g}
           for g in ([['b', 0], ['c', 0]], [['c', 0], ['b', 0]], [['a', 0], ['b', 0]], [['b', 0], ['a', 0]], [['a', 0]], [['c', 0]], [['c', 0], ['a', 0]])]
    for _ in range(ctx.scale(120, 1500)):
        sc = gen_scenario(rng); sc['mods'] = []
        scs.append(sc)
    for sc in scs:
        r = bag_marks(sc)
        if r is None: continue
        order, rel, marks = r
        n = len(rel)
        relc = '(fun o => match o with %s | _ => [] end)' % ' '.join('| %d%%nat => [%s]' % (o, '; '.join('%d%%nat' % x for x in rel[o])) for o in range(n))
        orderc = '[' + '; '.join('%d%%nat' % o for o in order) + ']'
        conj = []
        for o in range(n):
            m = marks[o]
            if m == 'Any': conj.append('match d %d%%nat with Some _ => true | None => false end' % o)
            else: conj.append('mark_eqb (d %d%%nat) %s' % (o, 'None' if m is None else '(Some %s)' % m))
        add('bag_traversal', '(let d := bag_to_dict %s %s in %s)' % (relc, orderc, ' && '.join(conj)),
            {'given': sc['given'], 'b': sc['b'], 'c': sc['c'], 'order': order}, marks, nt=len(order) > 1)
        n_tr += 1
        if len(samples) < 3 and len(order) > 2: samples.append({'bag_order': order, 'relations': rel, 'marks': marks})

    # (4) Entity.to_dict(with_collections=True): keys reported for collection members, pending ones included
    for sc in PENDING_FIXED + [gen_pending(rng) for _ in range(ctx.scale(60, 600))]:
        r = pending_members(sc)
        if r is None: continue
        for members, pks, assign, real, label in r:
            arms = lambda d: ' '.join('| %d%%nat => %s' % (o, v) for o, v in d.items())
            pkc = '(fun o => match o with %s | _ => None end)' % arms({o: ('None' if pks[o] is None else '(Some %d)' % pks[o]) for o in members})
            asc = '(fun o => match o with %s | _ => 0 end)' % arms({o: '%d' % assign[o] for o in members})
            realc = '[' + '; '.join('None' if x is None else '(Some %d)' % x for x in real) + ']' if real else '(@nil (option Z))'
            add('to_dict_pending', 'ozlist_eqb (reported_members %s %s (fun _ => false) [%s]) %s' % (asc, pkc, '; '.join('%d%%nat' % o for o in members), realc),
                {'scenario': sc, 'collection': label}, real, nt=any(pks[o] is None for o in members))

    # (5) pickling across sessions: entity instances (status at pickling time, database changed in between or not, object loaded in
    #     the unpickling session or not) and collection wrappers, against Model/C31Pickle.v.  Attribute 1 = n.
    STATUS = {'loaded': 'Loaded', 'modified': 'Modified', 'created': 'Created', 'deleted': 'Deleted'}
    ERR = {'OperationWithDeletedObjectError': 3, 'OrmError': 4}
    for st in STATUS:
        for change in (False, True):
            for pre in (False, True):
                r = I.pickle_entity_case(st, change, pre)
                pickled = '(fun a => match a with 1%nat => Some 5 | _ => None end)'
                if r[0] == 'err':
                    e = 'match pickle_entity %s %s with Err c => Nat.eqb c %d | Ok _ => false end' % (STATUS[st], pickled, ERR.get(r[1], 99))
                else:
                    here = '(fun a => match a with 1%%nat => Some %d | _ => None end)' % r[3] if pre else 'no_vals'
                    e = ('match pickle_entity %s %s with Ok p => ovals_eqb (unpickle_entity Loaded %s p 1%%nat) (Some %d) | Err _ => false end'
                         % (STATUS[st], pickled, here, r[1]))
                    if not (r[4] == 'x' and r[5]): disagreements.append({'what': 'unpickled object is not the identity-map object of its class', 'input': [st, change, pre], 'impl': list(r)})
                add('pickle_entity', e, [st, change, pre], list(r))
    for kind, kc in (('o2m', 'OneToMany'), ('m2m_s', 'ManyToMany'), ('m2m_k', 'ManyToMany')):
        for pre in (False, True):
            before, after, fresh = I.pickle_set_case(kind, pre)
            nl = lambda l: '[' + '; '.join('%d%%nat' % x for x in l) + ']' if l else '(@nil nat)'
            add('pickle_set', 'natlist_eqb (unpickle_set %s %s %s (fun _ => true)) %s' % (kc, nl(before if pre else []), nl(before), nl(after)), [kind, pre], [before, after, fresh])
            if fresh != after: disagreements.append({'what': 'a fresh read of the collection differs from the unpickled wrapper', 'input': [kind, pre], 'impl': [after, fresh]})

    # (6) Database.to_json: sections, and which objects the "objects" section holds, against the worklist model
    for sc in TO_JSON_FIXED + [gen_to_json(rng) for _ in range(ctx.scale(80, 800))]:
        r = I.db_to_json_case(sc)
        if 'error' in r: continue                           # (reported by the search)
        n = len(r['universe'])
        succc = '(fun o => match o with %s | _ => [] end)' % ' '.join('| %d%%nat => [%s]' % (o, '; '.join('%d%%nat' % x for x in r['succ'][o])) for o in range(n))
        rootsc = '[' + '; '.join('%d%%nat' % x for x in r['roots']) + ']'
        conj = ' && '.join('Bool.eqb (mem %d%%nat (snd d)) %s' % (o, 'true' if o in r['present'] else 'false') for o in range(n))
        secs = {'data': 'SData', 'objects': 'SObjects', 'schema': 'SSchema', 'schema_hash': 'SSchemaHash'}
        order = [k for k in ('data', 'objects', 'schema', 'schema_hash') if k in r['parsed']]
        add('db_to_json', '(let d := to_json_objects %d%%nat %s %s in match fst d with [] => true | _ => false end && %s) && sections_eqb (to_json_sections %s %s) [%s]'
            % (n + 1, succc, rootsc, conj, 'false' if r['mode'] == 'none' else 'true', 'true' if r['mode'] == 'hash' else 'false', '; '.join(secs[k] for k in order)),
            {'scenario': sc}, {'present': r['present'], 'sections': order})

    # (7) the permission filter of Database.to_json: courses are not viewable; refused or shipped, against to_json_checked
    for sc in TO_JSON_FIXED + [gen_to_json(rng) for _ in range(ctx.scale(60, 600))]:
        r = I.db_to_json_perm_case(dict(sc, mods=[]))
        if r is None: continue
        n = len(r['universe'])
        succc = '(fun o => match o with %s | _ => [] end)' % ' '.join('| %d%%nat => [%s]' % (o, '; '.join('%d%%nat' % x for x in r['succ'][o])) for o in range(n))
        rootsc = '[' + '; '.join('%d%%nat' % x for x in r['roots']) + ']'
        viewc = '(fun o => match o with %s | _ => false end)' % ' '.join('| %d%%nat => true' % o for o in r['viewable']) if r['viewable'] else '(fun _ => false)'
        if r['raised']: e = 'match to_json_checked %d%%nat %s %s %s with Err c => Nat.eqb c 5 | Ok _ => false end' % (n + 1, succc, rootsc, viewc)
        else:
            conj = ' && '.join('Bool.eqb (mem %d%%nat l) %s' % (o, 'true' if o in r['shipped'] else 'false') for o in range(n))
            e = 'match to_json_checked %d%%nat %s %s %s with Ok l => %s | Err _ => false end' % (n + 1, succc, rootsc, viewc, conj)
        add('db_to_json_can_view', e, {'scenario': sc}, {'raised': r['raised'], 'shipped': r['shipped']}, nt=r['raised'] or len(r['shipped']) > 1)
        if not r['raised'] and any(o not in r['viewable'] for o in r['shipped']):
            disagreements.append({'what': 'Database.to_json shipped an object the current user may not view', 'input': sc, 'impl': r['shipped']})

    bad = run_bools(ctx, exprs)
    for i in bad[:20]:
        kind, inp, impl = meta[i]
        disagreements.append({'what': 'model and implementation differ (%s)' % kind, 'input': inp, 'impl': impl, 'coq_case': exprs[i][:1500]})
    return Corr(cases=len(exprs), nontrivial=len(nontrivial), disagreements=disagreements, samples=samples, distribution=dist,
                note='every case is a boolean computed by vm_compute inside Coq from the model and the serialised implementation output')


# ------------------------------------------------------------------------------------------------ search

def classify(sc, cls, detail):
    return 'unlisted:' + cls


def related_to_given(sc, detail):
    """is the object named in detail related (after the scenario's modifications) to another given object?"""
    sh = I.Shadow(sc)
    for m in sc.get('mods', []):
        if m[0] == 'set_a': sh.b[m[1]]['a'] = m[2]
        elif m[0] == 'new_a': sh.a.append({'id': len(sh.a) + 1, 'name': m[1], 'n': None})
        elif m[0] == 'new_b': sh.b.append({'k1': m[1], 'k2': m[2], 'a': m[3], 'val': None})
        elif m[0] == 'new_c': sh.c.append({'b': m[1], 'idx': m[2], 'note': m[3], 'alive': True})
        elif m[0] == 'del_c': sh.c[m[1]]['alive'] = False
    given = set(tuple(g) for g in sc['given'])
    if detail['entity'] == 'A':
        ai = [i for i in range(len(sh.a)) if sh.a[i]['id'] == detail['key']]
        return bool(ai) and any(('b', bi) in given for bi, b in enumerate(sh.b) if b['a'] == ai[0])
    if detail['entity'] == 'B':
        bi = [i for i in range(len(sh.b)) if I.py_reduce(sh.bkey(i)) == detail['key']]
        if not bi: return False
        bi = bi[0]
        return (sh.b[bi]['a'] is not None and ('a', sh.b[bi]['a']) in given) or any(('c', ci) in given for ci, c in enumerate(sh.c) if c['alive'] and c['b'] == bi)
    return False


def failure_of(sc, cls, detail):
    key = classify(sc, cls, detail)
    return Failure(key, '%s: %s' % (cls, json.dumps(detail, default=str)[:300]), {'scenario': sc, 'class': cls})


def corpus_scenarios():
    """minimised past failures (corpus/C31/*.json), run first"""
    import glob, os
    return [json.load(open(f))['scenario'] for f in sorted(glob.glob(os.path.join(vlib.VERIF, 'corpus', 'C31', '*.json')))]


def search(ctx, deep):
    failures, evals, nontriv = [], 0, set()
    per_key = {}
    dist = {'mods': {}, 'given_size': {}}
    scs = corpus_scenarios() + [all_pairs_scenario()]
    for _ in range(4000 if deep else 250):
        scs.append(gen_scenario(ctx.rng))
    for sc in scs:
        res = I.check(sc)
        evals += 1
        for m in sc['mods']: dist['mods'][m[0]] = dist['mods'].get(m[0], 0) + 1
        g = str(min(len(sc['given']), 8)); dist['given_size'][g] = dist['given_size'].get(g, 0) + 1
        if sc['mods'] or len(sc['given']) > 1: nontriv.add(json.dumps(sc, sort_keys=True))
        for cls, detail in res:
            f = failure_of(sc, cls, detail if isinstance(detail, dict) else {'detail': detail})
            per_key[f.key] = per_key.get(f.key, 0) + 1
            if per_key[f.key] == 1: failures.append(f)
    for cls, detail in I.check_pickle_sets():
        evals += 1
        key = 'unlisted:' + cls + ':' + detail.get('kind', '')
        f = Failure(key, '%s: %s' % (cls, json.dumps(detail, default=str)[:300]), {'pickle_sets': True, 'class': cls})
        per_key[f.key] = per_key.get(f.key, 0) + 1
        if per_key[f.key] == 1: failures.append(f)
    for sc in TO_JSON_FIXED + [gen_to_json(ctx.rng) for _ in range(2000 if deep else 200)]:
        evals += 1
        nontriv.add(json.dumps(sc, sort_keys=True))
        for cls, detail in I.check_db_to_json(sc):
            key = 'unlisted:' + cls
            f = Failure(key, '%s: %s' % (cls, json.dumps(detail, default=str)[:300]), {'to_json_scenario': sc, 'class': cls})
            per_key[f.key] = per_key.get(f.key, 0) + 1
            if per_key[f.key] == 1: failures.append(f)
    for sc in TO_JSON_FIXED + [gen_to_json(ctx.rng) for _ in range(1000 if deep else 100)]:
        r = I.db_to_json_perm_case(dict(sc, mods=[]))
        if r is None: continue
        evals += 1
        bad_ship = [o for o in r['shipped'] if o not in r['viewable']]
        must_refuse = any(o not in r['viewable'] for o in r['roots'])
        if bad_ship or (must_refuse and not r['raised']):
            f = Failure('unlisted:db.to_json:shipped-unviewable-object', 'Database.to_json shipped objects %r of %r which the current user may not view (courses are not viewable)'
                        % ([r['universe'][o] for o in bad_ship], sc['probe']), {'perm_scenario': dict(sc, mods=[])})
            per_key[f.key] = per_key.get(f.key, 0) + 1
            if per_key[f.key] == 1: failures.append(f)
    pend = list(PENDING_FIXED) + [gen_pending(ctx.rng) for _ in range(3000 if deep else 250)]
    for sc in pend:
        res = I.check_pending(sc)
        evals += 1
        for m in sc['mods']: dist['mods'][m[0]] = dist['mods'].get(m[0], 0) + 1
        nontriv.add(json.dumps(sc, sort_keys=True))
        for cls, detail in res:
            f = Failure('unlisted:' + cls, '%s: %s' % (cls, json.dumps(detail, default=str)[:300]), {'pending_scenario': sc, 'class': cls})
            per_key[f.key] = per_key.get(f.key, 0) + 1
            if per_key[f.key] == 1: failures.append(f)
    dist['failing_checks_by_key'] = per_key
    return Search(evaluations=evals, failures=failures, nontrivial=len(nontriv), distribution=dist, exhaustive=False,
                  samples=[{'scenario': scs[-1], 'oracle': 'Python shadow of the session state; keys decoded with the reference decoder'}])


def replay(ctx, data):
    if data.get('pickle_sets'):
        for cls, detail in I.check_pickle_sets():
            return Failure('unlisted:' + cls + ':' + detail.get('kind', ''), '%s: %s' % (cls, json.dumps(detail, default=str)[:300]), data)
        return None
    if 'perm_scenario' in data:
        r = I.db_to_json_perm_case(data['perm_scenario'])
        if r is None: return None
        bad_ship = [o for o in r['shipped'] if o not in r['viewable']]
        if bad_ship or (any(o not in r['viewable'] for o in r['roots']) and not r['raised']):
            return Failure('unlisted:db.to_json:shipped-unviewable-object', 'Database.to_json shipped objects %r which the current user may not view' % ([r['universe'][o] for o in bad_ship],), data)
        return None
    if 'to_json_scenario' in data:
        for cls, detail in I.check_db_to_json(data['to_json_scenario']):
            key = 'unlisted:' + cls
            return Failure(key, '%s: %s' % (cls, json.dumps(detail, default=str)[:300]), data)
        return None
    if 'pending_scenario' in data:
        for cls, detail in I.check_pending(data['pending_scenario']):
            return Failure('unlisted:' + cls, '%s: %s' % (cls, json.dumps(detail, default=str)[:300]), data)
        return None
    sc = data['scenario']
    res = I.check(sc)
    want = data.get('class')
    for cls, detail in res:
        if want is None or cls == want:
            return failure_of(sc, cls, detail if isinstance(detail, dict) else {'detail': detail})
    if res:
        cls, detail = res[0]
        return failure_of(sc, cls, detail if isinstance(detail, dict) else {'detail': detail})
    return None


LEVEL_TEXT = ('Machine-checked proof (Coq 8.16.1) that the composite-key encoding of Bag._reduce_composite_pk (re-translated from /repo on every run) is injective for all non-empty '
              'lists of parts over all code points, through an explicit decoder (decode (reduce pk) = pk), hence distinct objects get distinct dictionary keys; models of the Bag.to_dict '
              'traversal, of the flush that precedes to_dict (scanned from source) and of pickling (Entity.__reduce__/unpickle_entity/_db_set_, QueryResult state, SetInstance wrappers) prove: every '
              'given object is reported in full; keys of pending collection members are reported; only loaded unmodified objects '
              'pickle, unpickled attributes have their pickling-time values unless the unpickling session loaded its own, equal values when both sessions saw the same database, query results '
              'keep items and order, collection wrappers get their items back. No recorded finding remains (five repaired defects are listed as fixed). '
              ' to_dict/to_json VALUES against the current session state are checked by differential search on SQLite, not proved.')
LEVEL_NOTE = ('Trusted: Coq kernel + vm_compute; the translator and source scans; str() injectivity per key column; the hand-written traversal / flush / pickling models (tied by vm_compute '
              'correspondence with real runs, not derived from source); the correspondence harness. Database.to_json: sections and the closure of its objects section are modelled and proved, the permission filter as: whatever is shipped passed can_view, else PermissionError (can_view itself is C34); its values and lazy/inherited attributes are tested only; from_json is not covered.')
TECHNIQUE = 'Coq proof of injectivity via an explicit decoder over a function regenerated from source by py2coq; vm_compute correspondence on adversarial keys and Bag traversals; shadow-state differential search'
DESIGN_REF = 'DESIGN.md section 5, C31'
